"""C05 generator: abstract Fortran projects whose entities carry a permission, an optional
unique tracer doc, optional `display:` / `proc_internals:` metadata, rendered to Fortran
source with explicit accessibility spelling.

An entity is a dict
    id, kind, name, perm ('public'|'protected'|'private'), doc (bool), disp (None | list of words),
    pint (None|bool), children [entity], refs [ids of procedures it shows: bindings / module
    procedures / final], plus rendering hints (default, explicit, ...).

kinds
    file            children: module, program, subroutine, function
    module/program  children: variable, type, subroutine, function, generic, absint, iface, enum
    subroutine/function  children: arg, variable, type, subroutine, function (internal)
    type            children: component, boundproc, finalproc
    generic         refs -> module procedures (interface g; module procedure a, b)
    absint / iface  one interface body (abstract / plain interface block); children: arg
    enum            children: enumerator
  round 3 (`extend`, a pass of its own with its own rng so the base trees stay what they were):
    blockdata       unit of a file; children: variable, type, common
    common          a common block of a module / program / procedure / block data; children: its member variables
                    (FORD moves them out of the parent's `variables`)
    namelist        in a module / submodule / program / procedure; refs -> the variables it groups
    generic         children: interface bodies (subroutine / function with arg, retvar) next to the `module procedure`s
    retvar          the declared result variable of a function (`result(r)`)
    type            `ext`: id of the type it extends (inherited components / bindings are computed, not stored)

Everything random comes from the rng passed in.
"""
from __future__ import annotations

import json

WORDS = ["public", "protected", "private"]
UNIT_KINDS = ("file", "module", "program")
PROC_KINDS = ("subroutine", "function", "modproc")
PLAIN_PROCS = ("subroutine", "function")


def tracer(i: int) -> str:
    return f"zq{i:04d}qz"


PREFIX = {"file": "f", "module": "m", "program": "prg", "subroutine": "s", "function": "fn", "type": "t",
          "variable": "v", "component": "c", "boundproc": "bp", "finalproc": "fin", "generic": "g",
          "absint": "ai", "iface": "xi", "enum": "en", "enumerator": "ev", "arg": "a", "submodule": "sm", "modproc": "mp",
          "blockdata": "bd", "common": "cb", "namelist": "nl", "retvar": "r"}


class Gen:
    def __init__(self, rng, size=1.0, risky=False, typey=False):
        self.rng = rng
        self.size = size
        self.risky = risky  # may produce inputs of the known-finding classes
        self.typey = typey  # more derived types that refer to each other (type graph edges)
        self.n = 0
        self.all = []

    def new(self, kind, perm="public", **kw):
        self.n += 1
        e = {"id": self.n, "kind": kind, "name": f"{PREFIX[kind]}{self.n}", "perm": perm, "doc": True,
             "disp": None, "pint": None, "children": [], "refs": []}
        e.update(kw)
        self.all.append(e)
        return e

    def count(self, lo, hi):
        hi = max(lo, int(round(hi * self.size)))
        return self.rng.randint(lo, hi)

    def maybe_doc(self, e, p=0.8):
        e["doc"] = self.rng.random() < p

    def disp_words(self):
        rng = self.rng
        r = rng.random()
        if r < 0.2:
            return ["none"]
        if r < 0.27:
            return [rng.choice(["none", "bogus"]), rng.choice(WORDS)]
        if r < 0.32:
            return ["bogus"]
        k = rng.randint(1, 3)
        return rng.sample(WORDS, k)

    def maybe_disp(self, e, p):
        if self.rng.random() < p:
            e["disp"] = self.disp_words()

    # ------------------------------------------------------------------ pieces
    def variable(self, default, kinds=("public", "protected", "private"), kind="variable"):
        rng = self.rng
        if rng.random() < 0.75:
            perm = rng.choice(kinds)
            e = self.new(kind, perm, explicit=True)
        else:
            e = self.new(kind, default, explicit=False)
        self.maybe_doc(e)
        return e

    def local_var(self, perm):
        e = self.new("variable", perm, explicit=False)
        self.maybe_doc(e)
        return e

    def proc(self, perm, explicit, local_perm, depth=0):
        """local_perm: the permission FORD gives to everything declared inside (inherited)."""
        rng = self.rng
        e = self.new(rng.choice(PLAIN_PROCS), perm, explicit=explicit)
        self.maybe_doc(e, 0.85)
        self.maybe_disp(e, 0.2)
        if rng.random() < 0.35:
            e["pint"] = rng.random() < 0.7
        for _ in range(self.count(0, 2)):
            a = self.new("arg", local_perm, explicit=False)
            self.maybe_doc(a, 0.6)
            e["children"].append(a)
        for _ in range(self.count(0, 2)):
            e["children"].append(self.local_var(local_perm))
        if rng.random() < 0.3:
            e["children"].append(self.dtype(local_perm, False, procs=[], in_proc=True))
        if depth == 0 and rng.random() < 0.45:
            for _ in range(self.count(1, 2)):
                e["children"].append(self.proc(local_perm, False, local_perm, depth + 1))
        return e

    def dtype(self, perm, explicit, procs, in_proc=False, prev_types=()):
        rng = self.rng
        e = self.new("type", perm, explicit=explicit)
        self.maybe_doc(e, 0.85)
        self.maybe_disp(e, 0.25)
        for _ in range(self.count(1 if self.typey else 0, 3)):
            c = self.variable("public", ("public", "private"), kind="component")
            if prev_types and rng.random() < (0.85 if self.typey else 0.5):
                c["tref"] = rng.choice(prev_types)["name"]  # component of another derived type (type graph edge)
            e["children"].append(c)
        if procs and rng.random() < 0.7:
            for _ in range(self.count(1, 2)):
                if rng.random() < 0.7:
                    b = self.new("boundproc", rng.choice(["public", "private"]), explicit=True)
                else:
                    b = self.new("boundproc", "public", explicit=False)
                self.maybe_doc(b)
                b["refs"] = [rng.choice(procs)["id"]]
                e["children"].append(b)
            if rng.random() < 0.35:
                subs = [p for p in procs if p["kind"] == "subroutine"]
                if subs:
                    f = self.new("finalproc", "public", explicit=False)
                    self.maybe_doc(f)
                    f["refs"] = [rng.choice(subs)["id"]]
                    e["children"].append(f)
        return e

    def module_like(self, kind):
        rng = self.rng
        m = self.new(kind, "public")
        self.maybe_doc(m, 0.85)
        self.maybe_disp(m, 0.3)
        if kind == "module":
            m["default"] = rng.choice([None, None, "private", "public"])
        else:
            m["default"] = None
        default = m["default"] or "public"
        can_explicit = kind == "module"

        def pick():
            if can_explicit and rng.random() < 0.7:
                return rng.choice(["public", "private"]), True
            return default, False

        procs = []
        for _ in range(self.count(1, 4)):
            perm, ex = pick()
            procs.append(self.proc(perm, ex, default))
        kids = []
        for _ in range(self.count(0, 3)):
            if can_explicit:
                kids.append(self.variable(default))
            else:
                kids.append(self.local_var(default))
        types = []
        for _ in range(self.count(2, 3) if self.typey and kind == "module" else self.count(0, 2)):
            perm, ex = pick()
            types.append(self.dtype(perm, ex, procs if kind == "module" else [], prev_types=tuple(types)))
        kids += types
        if kind == "module" and rng.random() < 0.5:
            perm, ex = pick()
            g = self.new("generic", perm, explicit=ex)
            self.maybe_doc(g)
            k = min(len(procs), rng.randint(1, 2))
            g["refs"] = [p["id"] for p in rng.sample(procs, k)]
            kids.append(g)
        if rng.random() < 0.35:
            perm, ex = pick()
            a = self.new("absint", perm, explicit=ex)
            self.maybe_doc(a)
            for _ in range(self.count(0, 1)):
                x = self.new("arg", default, explicit=False)
                self.maybe_doc(x, 0.6)
                a["children"].append(x)
            kids.append(a)
        if rng.random() < 0.3:
            perm, ex = pick()
            a = self.new("iface", perm, explicit=ex)
            self.maybe_doc(a)
            for _ in range(self.count(0, 1)):
                x = self.new("arg", default, explicit=False)
                self.maybe_doc(x, 0.6)
                a["children"].append(x)
            kids.append(a)
        if self.risky and rng.random() < 0.4:
            en = self.new("enum", default, explicit=False)
            self.maybe_doc(en)
            for _ in range(self.count(1, 2)):
                v = self.new("enumerator", default, explicit=False)
                self.maybe_doc(v)
                en["children"].append(v)
            kids.append(en)
        nt = [k for k in kids if k["kind"] != "type"]
        rng.shuffle(nt)
        cut = rng.randint(0, len(nt))
        m["children"] = nt[:cut] + [k for k in kids if k["kind"] == "type"] + nt[cut:] + procs
        return m

    def submodule(self, m):
        """a submodule of module m implementing one separate module procedure (`module procedure` form);
        adds the interface body to m.  Everything inside a submodule is private for FORD."""
        rng = self.rng
        default = m["default"] or "public"
        if rng.random() < 0.6:
            perm, ex = rng.choice(["public", "private"]), True
        else:
            perm, ex = default, False
        intr = self.new("iface", perm, explicit=ex, modsub=True)
        self.maybe_doc(intr)
        # keep the procedures last in the module's child list
        m["children"].insert(0, intr)
        sm = self.new("submodule", "public", parent_module=m["name"], default=None)
        self.maybe_doc(sm, 0.85)
        self.maybe_disp(sm, 0.45)
        for _ in range(self.count(0, 2)):
            sm["children"].append(self.local_var("private"))
        mp = self.new("modproc", "private", explicit=False)
        mp["name"] = intr["name"]
        self.maybe_doc(mp, 0.9)
        self.maybe_disp(mp, 0.2)
        if rng.random() < 0.35:
            mp["pint"] = rng.random() < 0.7
        for _ in range(self.count(1, 2)):
            mp["children"].append(self.local_var("private"))
        if rng.random() < 0.5:
            mp["children"].append(self.proc("private", False, "private", depth=1))
        sm["children"].append(mp)
        return sm

    def file(self, nmod, with_prog, ntop):
        f = self.new("file", "public")
        self.maybe_doc(f, 0.5)
        if self.risky and self.rng.random() < 0.5:
            f["disp"] = self.disp_words()
            f["doc"] = True
        for _ in range(nmod):
            m = self.module_like("module")
            f["children"].append(m)
            if self.rng.random() < 0.3:
                f["children"].append(self.submodule(m))
        for _ in range(ntop):
            f["children"].append(self.proc("public", False, "public"))
        if with_prog:
            f["children"].append(self.module_like("program"))
        return f


def gen_config(rng):
    r = rng.random()
    if r < 0.12:
        display = ["none"]
    elif r < 0.2:
        display = []
    else:
        display = [w for w in WORDS if rng.random() < 0.55]
        if not display and rng.random() < 0.7:
            display = [rng.choice(WORDS)]
    return {"display": display, "proc_internals": rng.random() < 0.6, "hide_undoc": rng.random() < 0.4}


def gen_project(rng, size=1.0, risky=False, typey=False):
    g = Gen(rng, size, risky, typey)
    nfiles = rng.choice([1, 1, 2])
    files = []
    have_prog = False
    for k in range(nfiles):
        with_prog = (not have_prog) and rng.random() < 0.4
        have_prog = have_prog or with_prog
        nmod = rng.choice([1, 1, 2]) if not with_prog else rng.choice([0, 1])
        ntop = 1 if rng.random() < 0.25 else 0
        if nmod == 0 and not with_prog and ntop == 0:
            nmod = 1
        files.append(g.file(nmod, with_prog, ntop))
    return {"config": gen_config(rng), "files": files}


def gen_hierarchy(rng):
    """Round 6: a project that is mostly a **type hierarchy** - one or two modules, each with two to four derived
    types, every type after the first extending an earlier one with p = 0.8 (chains and siblings), every type with
    0-2 components and 0-2 type-bound procedures (public / private, spelled or defaulted; unique names, so nothing is
    overridden and every non-private binding is inherited down the chain), own `display:` metadata on modules (30 %)
    and types (30 %), documented / undocumented types and bindings.  The summary card of a type lists inherited
    bindings next to its own; their names link into the page of the *declaring* type."""
    g = Gen(rng, 1.0, False, False)
    f = g.new("file", "public")
    g.maybe_doc(f, 0.5)
    for _ in range(rng.choice([1, 1, 2])):
        m = g.new("module", "public")
        g.maybe_doc(m, 0.85)
        g.maybe_disp(m, 0.3)
        m["default"] = rng.choice([None, "private", "public"])
        default = m["default"] or "public"

        def pick():
            if rng.random() < 0.7:
                return rng.choice(["public", "private"]), True
            return default, False

        procs = []
        for _ in range(rng.randint(1, 2)):
            perm, ex = pick()
            sb = g.new("subroutine", perm, explicit=ex)
            g.maybe_doc(sb, 0.85)
            a = g.new("arg", default, explicit=False)
            g.maybe_doc(a, 0.6)
            sb["children"] = [a]
            procs.append(sb)
        types = []
        for _ in range(rng.randint(2, 4)):
            perm, ex = pick()
            t = g.new("type", perm, explicit=ex)
            g.maybe_doc(t, 0.8)
            g.maybe_disp(t, 0.3)
            if types and rng.random() < 0.8:
                par = rng.choice(types)
                t["ext"] = par["id"]
                if rng.random() < 0.4:
                    # the extending type and the extended one on different sides of `display`
                    t["perm"], t["explicit"] = ("public" if par["perm"] == "private" else "private"), True
            for _ in range(rng.randint(0, 2)):
                t["children"].append(g.variable("public", ("public", "private"), kind="component"))
            for _ in range(rng.randint(0, 2)):
                if rng.random() < 0.7:
                    b = g.new("boundproc", rng.choice(["public", "public", "private"]), explicit=True)
                else:
                    b = g.new("boundproc", "public", explicit=False)
                g.maybe_doc(b)
                b["refs"] = [rng.choice(procs)["id"]]
                t["children"].append(b)
            types.append(t)
        m["children"] = types + procs
        f["children"].append(m)
    for e in g.all:
        e["nolink"] = True
    cfg = gen_config(rng)
    if rng.random() < 0.4:
        cfg["display"] = [rng.choice(["public", "private"])]
    return {"config": cfg, "files": [f]}


# ---------------------------------------------------------------------------- round 3: more entity kinds

UNIT_SCOPES = ("module", "submodule", "program")


def local_perm_of(e, byid):
    """the permission FORD gives to what is declared inside `e` without an accessibility of its own (it is
    inherited from the enclosing scope when the object is constructed)"""
    cur = e
    while cur is not None:
        k = cur["kind"]
        if k == "module":
            return cur.get("default") or "public"
        if k == "submodule":
            return "private"
        if k in ("program", "file", "blockdata"):
            return "public"
        cur = byid.get(cur["_parent"])
    return "public"


def extend(P, rng, gaps=True):
    """Third pass over a generated project (own rng; the entities of the base tree keep their ids, names and
    order): block data units, common blocks, namelists, interface bodies inside generic interfaces, declared
    function results, type extension.  `gaps`: also the kinds that no `prune()` filters (namelists, common blocks;
    known findings).  Everything new is marked `nolink` (the link pass neither writes links into its comments nor
    links to it)."""
    byid = index(P)
    g = Gen(rng)
    g.n = max(byid)

    def new(kind, perm, **kw):
        e = g.new(kind, perm, **kw)
        e["nolink"] = True
        return e

    def first_proc(children):
        for k, c in enumerate(children):
            if c["kind"] in PROC_KINDS:
                return k
        return len(children)

    def add_common(scope, lp, explicit_perms):
        cb = new("common", "public", explicit=False)
        g.maybe_doc(cb)
        for _ in range(rng.randint(1, 2)):
            if explicit_perms and rng.random() < 0.7:
                v = new("variable", rng.choice(WORDS), explicit=True)
            else:
                v = new("variable", lp, explicit=False)
            g.maybe_doc(v)
            cb["children"].append(v)
        scope["children"].insert(first_proc(scope["children"]), cb)
        return cb

    def own_variables(scope):
        out = [c for c in scope["children"] if c["kind"] in ("variable", "arg")]
        for c in scope["children"]:
            if c["kind"] == "common":
                out += c["children"]
        return out

    def add_namelist(scope, lp, host_vars=()):
        cands = own_variables(scope)
        if host_vars and rng.random() < 0.35:
            cands = cands + list(host_vars)
        if not cands:
            return None
        nl = new("namelist", lp, explicit=False)
        g.maybe_doc(nl, 0.85)
        nl["refs"] = [v["id"] for v in rng.sample(cands, min(len(cands), rng.randint(1, 3)))]
        scope["children"].insert(first_proc(scope["children"]), nl)
        return nl

    def add_bodies(gi, lp):
        for _ in range(rng.randint(1, 2)):
            b = new(rng.choice(PLAIN_PROCS), lp, explicit=False, body=True)
            g.maybe_doc(b, 0.85)
            for _ in range(rng.randint(0, 2)):
                a = new("arg", lp, explicit=False)
                g.maybe_doc(a, 0.6)
                b["children"].append(a)
            if b["kind"] == "function" and rng.random() < 0.6:
                r = new("retvar", lp, explicit=False)
                g.maybe_doc(r, 0.7)
                b["children"].append(r)
            gi["children"].append(b)

    def extend_types(types):
        for k, t in enumerate(types):
            if k and rng.random() < 0.4:
                t["ext"] = rng.choice(types[:k])["id"]

    def ext_proc(e, host_vars, depth):
        lp = local_perm_of(e, byid)
        if e["kind"] == "function" and rng.random() < 0.5:
            r = new("retvar", lp, explicit=False)
            g.maybe_doc(r, 0.7)
            e["children"].insert(sum(1 for c in e["children"] if c["kind"] == "arg"), r)
        inner = [c for c in e["children"] if c["kind"] in PROC_KINDS]
        if gaps:
            if rng.random() < (0.15 if depth == 0 else 0.05):
                add_common(e, lp, False)
            if rng.random() < (0.3 if depth == 0 else 0.12):
                add_namelist(e, lp, host_vars)
        for c in inner:
            ext_proc(c, host_vars, depth + 1)

    for f in P["files"]:
        for u in list(f["children"]):
            k = u["kind"]
            if k in PROC_KINDS:
                ext_proc(u, (), 0)
                continue
            lp = local_perm_of(u, byid)
            procs = [c for c in u["children"] if c["kind"] in PROC_KINDS]
            host_vars = [c for c in u["children"] if c["kind"] == "variable"]
            extend_types([c for c in u["children"] if c["kind"] == "type"])
            gens = [c for c in u["children"] if c["kind"] == "generic"]
            for gi in gens:
                if rng.random() < 0.5:
                    add_bodies(gi, lp)
            if not gens and k in ("module", "program") and rng.random() < 0.25:
                if k == "module" and rng.random() < 0.7:
                    gi = g.new("generic", rng.choice(["public", "private"]), explicit=True)
                else:
                    gi = g.new("generic", lp, explicit=False)
                g.maybe_doc(gi)
                add_bodies(gi, lp)
                u["children"].insert(first_proc(u["children"]), gi)
            if gaps:
                if k in ("module", "program") and rng.random() < 0.2:
                    add_common(u, lp, k == "module")
                if rng.random() < 0.3:
                    add_namelist(u, lp)
            for p in procs:
                ext_proc(p, host_vars, 0)
        if rng.random() < 0.3:
            bd = new("blockdata", "public", default=None)
            g.maybe_doc(bd, 0.85)
            g.maybe_disp(bd, 0.3)
            for _ in range(rng.randint(0, 2)):
                v = g.variable("public")
                v["nolink"] = True
                bd["children"].append(v)
            types = []
            for _ in range(rng.randint(0, 2)):
                t = new("type", "public", explicit=False)
                g.maybe_doc(t, 0.85)
                g.maybe_disp(t, 0.25)
                for _ in range(rng.randint(0, 2)):
                    c = g.variable("public", ("public", "private"), kind="component")
                    c["nolink"] = True
                    t["children"].append(c)
                types.append(t)
            extend_types(types)
            bd["children"] += types
            if gaps and rng.random() < 0.6:
                add_common(bd, "public", True)
            f["children"].append(bd)
    return P


def inherited_members(P):
    """{id of an extending type: [ids of the members it inherits]} as FORD computes them in
    `FortranType.correlate`: the public components and the non-private bindings of the parent type (which
    already carries what it inherited itself), transitively.  Used by the specification side only to know which
    comments an extending type displays as part of its own description."""
    byid = index(P)
    memo = {}

    def members(t):
        """ids listed in t.variables / t.boundprocs after correlate"""
        if t["id"] in memo:
            return memo[t["id"]]
        memo[t["id"]] = []  # cycles cannot be generated; be safe
        inh = []
        if t.get("ext") is not None:
            for i in members(byid[t["ext"]]):
                m = byid[i]
                if (m["kind"] == "component" and m["perm"] == "public") or (m["kind"] == "boundproc" and m["perm"] != "private"):
                    inh.append(i)
        memo[t["id"]] = inh + [c["id"] for c in t["children"] if c["kind"] in ("component", "boundproc")]
        return memo[t["id"]]

    out = {}
    for e in byid.values():
        if e["kind"] == "type" and e.get("ext") is not None:
            own = {c["id"] for c in e["children"]}
            out[e["id"]] = [i for i in members(e) if i not in own]
    return out


# ---------------------------------------------------------------------------- links and USE association

# kinds a `[[name]]` link can name (they have a unique name and FORD can compute a URL for them)
LINKABLE = ("file", "module", "submodule", "program", "subroutine", "function", "type", "variable", "component",
            "boundproc", "generic", "iface", "absint", "arg")
SCOPES = ("module", "submodule", "program", "subroutine", "function", "modproc")


ENTITY_WORD = {"type": "type", "subroutine": "subroutine", "function": "function", "generic": "interface",
               "iface": "interface", "absint": "absinterface"}
CHILD_LINK_PARENTS = ("module", "submodule", "program", "type", "subroutine", "function")


def plain_links(e):
    """positions of the links written as a bare `[[name]]` (the forms the Lean model resolves)"""
    return [k for k, f in enumerate(e.get("link_forms") or []) if f == "plain"]


def link_name(e):
    return e["name"] + ".f90" if e["kind"] == "file" else e["name"]


def decorate(P, rng, p_link=0.3, p_use=0.5):
    """Second pass over a generated project (own rng, so the entity trees stay what they were): `use`
    statements between scoping units (only towards modules generated earlier: no cycles) and `[[name]]` links
    in doc comments, to entities of the same scope, of an enclosing scope, of a used module, or anywhere in
    the project - selected or not.  Most links are bare `[[name]]`, some `[[name(entity)]]` or
    `[[parent:name]]`.  Sets e['uses'] = [[module, None | [names]]], e['links'] = [text between the brackets],
    e['link_forms'] = ['plain' | 'entity' | 'child'] and e['link_ids'] = [ids of the entities meant]."""
    byid = index(P)
    ents = [byid[i] for i in sorted(byid)]
    modules = [e for e in ents if e["kind"] == "module"]

    def chain(e):
        out = []
        while e is not None:
            out.append(e)
            e = byid.get(e["_parent"])
        return out

    def in_local_type(e):
        """types declared in procedures (and their components / bindings) have no URL: FORD refuses the link"""
        c = chain(e)
        for a, b in zip(c, c[1:]):
            if a["kind"] == "type" and b["kind"] in PROC_KINDS:
                return True
        return False

    extended = {e["ext"] for e in ents if e["kind"] == "type" and e.get("ext") is not None}

    def inherited_elsewhere(e):
        """a member of a type that another type extends: the extending type carries it too, but FORD resolves
        links in its comment, and its URL, through the declaring type (not modelled)"""
        return e["_parent"] in extended and byid[e["_parent"]]["kind"] == "type"

    targets = [e for e in ents if e["kind"] in LINKABLE and not in_local_type(e) and not e.get("nolink")
               and not inherited_elsewhere(e)
               and not (e["kind"] == "iface" and e.get("modsub"))]
    tids = {e["id"] for e in targets}
    for e in ents:
        if e["kind"] not in SCOPES or rng.random() >= p_use:
            continue
        unit = chain(e)[-2] if len(chain(e)) >= 2 else e
        if unit["kind"] in ("module", "submodule"):
            limit = unit["id"] if unit["kind"] == "module" else byid_name(modules, unit["parent_module"])["id"]
            cands = [m for m in modules if m["id"] < limit]
        else:
            cands = list(modules)
        if not cands:
            continue
        uses = []
        for m in rng.sample(cands, min(len(cands), rng.choice([1, 1, 2]))):
            only = None
            kids = [c for c in m["children"] if c["kind"] in LINKABLE and not c.get("nolink")
                    and not (c["kind"] == "iface" and c.get("modsub"))]
            if kids and rng.random() < 0.3:
                only = [c["name"] for c in rng.sample(kids, min(len(kids), rng.randint(1, 2)))]
            uses.append([m["name"], only])
        e["uses"] = uses

    def used_entities(e):
        out = []
        for sc in chain(e):
            for mod, only in sc.get("uses") or []:
                m = byid_name(modules, mod)
                out += [c for c in m["children"] if c["id"] in tids and (only is None or c["name"] in only)]
        return out

    for e in ents:
        if (not e["doc"] or e["kind"] == "enumerator" or e["kind"] == "enum" or in_local_type(e) or e.get("nolink")
                or inherited_elsewhere(e)):
            continue
        if rng.random() >= (0.6 if e["refs"] else p_link):
            continue
        pools = []
        c = chain(e)
        near = [k for a in c[:3] for k in a["children"] if k["id"] in tids]
        near += [g for a in c[:2] for k in a["children"] for g in k["children"] if g["id"] in tids]
        # "see [[the procedure this binding / generic / final names]]"
        near += [byid[r] for a in c[:2] for r in a["refs"] if r in tids] * 2
        pools.append(near)
        pools.append(used_entities(e))
        pools.append(targets)
        ids = []
        if e["refs"] and rng.random() < 0.5:
            # "implemented by [[the procedure this binding / generic / final names]]"
            ids += [r for r in [rng.choice(e["refs"])] if r in tids]
        for _ in range(rng.choice([1, 1, 2])):
            pool = pools[rng.choice([0, 0, 1, 1, 1, 2])] or targets
            if pool:
                t = rng.choice(pool)
                if t["id"] not in ids:
                    ids.append(t["id"])
        e["link_ids"] = ids
        e["links"] = []
        e["link_forms"] = []
        for i in ids:
            t = byid[i]
            par = byid.get(t["_parent"])
            r = rng.random()
            if r < 0.12 and t["kind"] in ENTITY_WORD:
                # [[name(entity)]]: only words that both `find_child` and `Project.find` know
                e["links"].append(f"{t['name']}({ENTITY_WORD[t['kind']]})")
                e["link_forms"].append("entity")
            elif r < 0.24 and par is not None and par["kind"] in CHILD_LINK_PARENTS and par["id"] in tids:
                # [[parent:child]]
                e["links"].append(f"{link_name(par)}:{t['name']}")
                e["link_forms"].append("child")
            else:
                e["links"].append(link_name(t))
                e["link_forms"].append("plain")
    return P


def byid_name(ents, name):
    for e in ents:
        if e["name"] == name:
            return e
    raise KeyError(name)


# ---------------------------------------------------------------------------- rendering

def doc_lines(e, ind):
    out = []
    meta = []
    if e.get("disp") is not None:
        words = e["disp"]
        meta.append(f"{ind}!! display: {words[0]}")
        meta += [f"{ind}!!          {w}" for w in words[1:]]
    if e.get("pint") is not None:
        meta.append(f"{ind}!! proc_internals: {'true' if e['pint'] else 'false'}")
    if meta:
        out += meta
        out.append(f"{ind}!!")
    if e["doc"]:
        # every link is preceded by a marker word naming the comment it was written in and its position
        out.append(f"{ind}!! {tracer(e['id'])}"
                   + "".join(f" lk{e['id']}x{k} [[{n}]]" for k, n in enumerate(e.get("links") or [])))
    return out


def use_lines(e, ind):
    """`use` statements of a scoping unit: [module name, None | [only names]]"""
    out = []
    for mod, only in e.get("uses") or []:
        out.append(f"{ind}use {mod}" + (", only: " + ", ".join(only) if only else ""))
    return out


def render_var(e, ind, out, intent=False):
    attr = ""
    if e.get("explicit"):
        attr = f", {e['perm']}"
    base = f"type({e['tref']})" if e.get("tref") else "integer"
    out.append(f"{ind}{base}{attr} :: {e['name']}")
    out += doc_lines(e, ind + "  ")


def render_type(e, ind, out, byid):
    attr = f", {e['perm']}" if e.get("explicit") else ""
    if e.get("ext") is not None:
        attr += f", extends({byid[e['ext']]['name']})"
    out.append(f"{ind}type{attr} :: {e['name']}")
    out += doc_lines(e, ind + "  ")
    comps = [c for c in e["children"] if c["kind"] == "component"]
    bound = [c for c in e["children"] if c["kind"] in ("boundproc", "finalproc")]
    for c in comps:
        render_var(c, ind + "  ", out)
    if bound:
        out.append(f"{ind}contains")
        for b in bound:
            if b["kind"] == "boundproc":
                attr = f", {b['perm']}" if b.get("explicit") else ""
                out.append(f"{ind}  procedure{attr} :: {b['name']} => {byid[b['refs'][0]]['name']}")
            else:
                out.append(f"{ind}  final :: {byid[b['refs'][0]]['name']}")
            out += doc_lines(b, ind + "    ")
    out.append(f"{ind}end type {e['name']}")


def render_common(c, ind, out):
    """the member variables are declared like any other variable, then named in the COMMON statement"""
    for v in c["children"]:
        render_var(v, ind, out)
    out.append(f"{ind}common /{c['name']}/ " + ", ".join(v["name"] for v in c["children"]))
    out += doc_lines(c, ind + "  ")


def render_namelist(c, ind, out, byid):
    out.append(f"{ind}namelist /{c['name']}/ " + ", ".join(byid[r]["name"] for r in c["refs"]))
    out += doc_lines(c, ind + "  ")


def render_proc(e, ind, out, byid):
    args = [c for c in e["children"] if c["kind"] == "arg"]
    ret = [c for c in e["children"] if c["kind"] == "retvar"]
    if e["kind"] == "modproc":
        out.append(f"{ind}module procedure {e['name']}")
    else:
        out.append(f"{ind}{e['kind']} {e['name']}({', '.join(a['name'] for a in args)})"
                   + (f" result({ret[0]['name']})" if ret else ""))
    out += doc_lines(e, ind + "  ")
    out += use_lines(e, ind + "  ")
    for a in args:
        out.append(f"{ind}  integer, intent(in) :: {a['name']}")
        out += doc_lines(a, ind + "    ")
    for r in ret:
        out.append(f"{ind}  integer :: {r['name']}")
        out += doc_lines(r, ind + "    ")
    for c in e["children"]:
        if c["kind"] == "variable":
            render_var(c, ind + "  ", out)
        elif c["kind"] == "type":
            render_type(c, ind + "  ", out, byid)
        elif c["kind"] == "common":
            render_common(c, ind + "  ", out)
    for c in e["children"]:
        if c["kind"] == "namelist":
            render_namelist(c, ind + "  ", out, byid)
    if e["kind"] == "function" and not e.get("body"):
        out.append(f"{ind}  {ret[0]['name'] if ret else e['name']} = 1")
    inner = [c for c in e["children"] if c["kind"] in PROC_KINDS]
    if inner:
        out.append(f"{ind}contains")
        for c in inner:
            render_proc(c, ind + "  ", out, byid)
    out.append(f"{ind}end {'procedure' if e['kind'] == 'modproc' else e['kind']} {e['name']}")


def render_unit(m, out, byid):
    ind = ""
    kw = "block data" if m["kind"] == "blockdata" else m["kind"]
    if m["kind"] == "submodule":
        out.append(f"submodule ({m['parent_module']}) {m['name']}")
    else:
        out.append(f"{kw} {m['name']}")
    out += doc_lines(m, "  ")
    out += use_lines(m, "  ")
    if m["kind"] == "module":
        out.append("  implicit none")
    if m.get("default"):
        out.append(f"  {m['default']}")
    # accessibility statements for procedures / generics / interfaces declared explicit
    for c in m["children"]:
        if c.get("explicit") and c["kind"] in PROC_KINDS + ("generic", "absint", "iface"):
            out.append(f"  {c['perm']} :: {c['name']}")
    for c in m["children"]:
        k = c["kind"]
        if k == "variable":
            render_var(c, "  ", out)
        elif k == "type":
            render_type(c, "  ", out, byid)
        elif k == "common":
            render_common(c, "  ", out)
        elif k == "generic":
            out.append(f"  interface {c['name']}")
            out += doc_lines(c, "    ")
            for b in c["children"]:
                render_proc(b, "    ", out, byid)
            if c["refs"]:
                out.append("    module procedure " + ", ".join(byid[r]["name"] for r in c["refs"]))
            out.append(f"  end interface {c['name']}")
        elif k in ("absint", "iface"):
            out.append("  abstract interface" if k == "absint" else "  interface")
            out += doc_lines(c, "    ")
            args = c["children"]
            out.append(f"    {'module ' if c.get('modsub') else ''}subroutine {c['name']}({', '.join(a['name'] for a in args)})")
            for a in args:
                out.append(f"      integer, intent(in) :: {a['name']}")
                out += doc_lines(a, "        ")
            out.append(f"    end subroutine {c['name']}")
            out.append("  end interface")
        elif k == "enum":
            out.append("  enum, bind(c)")
            out += doc_lines(c, "    ")
            for i, v in enumerate(c["children"]):
                out.append(f"    enumerator :: {v['name']} = {i + 1}")
                out += doc_lines(v, "      ")
            out.append("  end enum")
    for c in m["children"]:
        if c["kind"] == "namelist":
            render_namelist(c, "  ", out, byid)
    procs = [c for c in m["children"] if c["kind"] in PROC_KINDS]
    if procs:
        out.append("contains")
        for p in procs:
            render_proc(p, "  ", out, byid)
    out.append(f"end {kw} {m['name']}")


def index(P):
    byid = {}

    def walk(e, parent):
        byid[e["id"]] = e
        e["_parent"] = parent["id"] if parent else None
        for c in e["children"]:
            walk(c, e)

    for f in P["files"]:
        walk(f, None)
    return byid


def strip(P):
    """JSON-able copy without the helper keys"""
    def cp(e):
        d = {k: v for k, v in e.items() if not k.startswith("_") and k != "children"}
        d["children"] = [cp(c) for c in e["children"]]
        return d
    return {"config": P["config"], "files": [cp(f) for f in P["files"]]}


def render_project(P):
    byid = index(P)
    files = {}
    for f in P["files"]:
        out = []
        dl = doc_lines(f, "")
        if dl:
            out += dl
            out.append("")
        for u in f["children"]:
            if u["kind"] in PROC_KINDS:
                render_proc(u, "", out, byid)
            else:
                render_unit(u, out, byid)
            out.append("")
        files[f["name"] + ".f90"] = "\n".join(out) + "\n"
    return files


# ---------------------------------------------------------------------------- serialisation for the Lean driver

WORD_CODE = {"public": "pub", "protected": "prot", "private": "priv", "none": "none"}


def enc_words(ws):
    if ws is None:
        return "-"
    return "+".join(WORD_CODE.get(w, "other") for w in ws) if ws else "0"


def encode_nodes(P):
    """preorder node fields: id,kind,perm,doc,disp,pint,nchildren,refs,ext (id of the extended type or `-`)"""
    out = []

    def walk(e):
        pint = "-" if e["pint"] is None else ("1" if e["pint"] else "0")
        out.append(",".join([str(e["id"]), e["kind"], WORD_CODE[e["perm"]], "1" if e["doc"] else "0",
                             enc_words(e["disp"]), pint, str(len(e["children"])),
                             ";".join(str(r) for r in e["refs"]),
                             "-" if e.get("ext") is None else str(e["ext"])]))
        for c in e["children"]:
            walk(c)

    for f in P["files"]:
        walk(f)
    return out


def name_aliases(P):
    """entities whose FORD name is another entity's name: a final procedure is called like the procedure it
    names, a separate module procedure like its interface.  -> {id: id of the name's owner}"""
    byid = index(P)
    out = {}
    for e in byid.values():
        if e["kind"] == "finalproc" and e["refs"]:
            out[e["id"]] = e["refs"][0]
        elif e["kind"] == "modproc":
            for o in byid.values():
                if o is not e and o["name"] == e["name"]:
                    out[e["id"]] = o["id"]
    return out


def encode_links_request(P, variant, checks_page=False):
    """c05.links: like c05.prune plus the link-variant switch, the name aliases and the links (name code = id
    of the name's owner)"""
    byid = index(P)
    c = P["config"]
    al = ";".join(f"{a}:{b}" for a, b in sorted(name_aliases(P).items())) or "-"
    lk = ";".join(f"{i}:" + ".".join(str(byid[i]["link_ids"][k]) for k in plain_links(byid[i]))
                  for i in sorted(byid) if plain_links(byid[i])) or "-"
    return ["c05.links", variant, "1" if checks_page else "0", enc_words(c["display"]), "1" if c["proc_internals"] else "0",
            "1" if c["hide_undoc"] else "0", str(len(P["files"])), al, lk] + encode_nodes(P)


def encode_request(P, cmd, variant):
    c = P["config"]
    return [cmd, variant, enc_words(c["display"]), "1" if c["proc_internals"] else "0",
            "1" if c["hide_undoc"] else "0", str(len(P["files"]))] + encode_nodes(P)


if __name__ == "__main__":
    import random
    import sys

    rng = random.Random(int(sys.argv[1]) if len(sys.argv) > 1 else 0)
    P = gen_project(rng, risky=True)
    extend(P, random.Random(1), gaps=True)
    for name, text in render_project(P).items():
        print("=====", name)
        print(text)
    print(json.dumps(P["config"]))
