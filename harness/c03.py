"""C03 - each doc comment lands on its entity, complete, once and in order.

Streams
  adm     : doc bodies (Doc grammar + marker junk) -> AdmonitionPreprocessor.run vs Lean `admRun`
            (exact, error kinds included); `_find_admonitions` spans vs `findAdm`.
  meta    : header/body line lists -> ford.utils.meta_preprocessor vs Lean `metaSplit` (exact).
  rmeta   : short doc lists around the one-line rule (keys of the EntitySettings table in every spelling, names
            near the table such as non-field attributes of the class, trailing empty lines)
            -> the real FortranBase.read_metadata on a bare entity vs Lean `readMetadata` (exact).
  dedent  : textwrap.dedent vs Lean `dedent` (exact).
  reader  : short runs of comment lines in every marker form and every order (doc / pre / alt / pre-alt marker
            lines, ordinary comments, blank lines, statements with and without inline comments, random marker
            characters) -> list(FortranReader) vs Lean `readAll` (exact, error kinds included): the reader's
            block modes (`reading_predoc`, `reading_predoc_alt`, `reading_alt`, `prevdoc`) walked directly.
            Also statements with character literals that hold comment look-alikes (on one line, or continued inside
            the literal with the other quote character in an earlier literal), and the same runs with a part of the
            lines moved into an include file -> Lean `IncMarks.readFSM` (the nested reader's markers as the
            regenerated table `Gen.includeMarkSrc` says).
  inquote : "is the statement collected so far inside a character literal" - every string over {', ", a} up to
            length 8 through `_contains_unterminated_string` (when the tree has a function of that name) and up
            to length 6 through the reader itself (continuation line `&!! probe`) vs Lean `unterminated`.
  program : generated programs (unique tracer words per entity comment x doc styles - the four pure ones and
            the documented mixtures inside one comment: a `!>` block continued with `!!` lines, several
            consecutive preceding blocks (pre / pre-alt), several consecutive following blocks (doc lines /
            alt block) - x marker characters x inline/own-line x gaps; comment bodies incl. one-line `key: value` / `word: text`
            comments and the Markdown constructs whose definitions are kept on the Markdown instance:
            footnotes, reference-style links, abbreviations, with labels shared between comments) -> Project -> per entity
            Programs also contain type extension (public / private components, `private` statement, generic
            bindings), interface blocks with procedure bodies (plain, abstract, bodies inside generic interfaces),
            comments written in the wide-indented style (`!!    text`) or starting with an indented code block, a
            first body line `Word: text` after the blank line that ends a metadata header; the project is built
            with the default `display` or with private entities displayed.
            Declarations with character-literal initial values whose text holds `!` + any of the four markers /
            plain `!` + foreign tracer words, the other quote character, doubled quotes, `;` `,` `::` `=>`, on one
            line or continued inside a literal / between literals (no word of a literal is documentation);
            runs of a scoping unit's text moved into include files (nested too; `include` is textual: the
            entities and their comments are the same, whatever marker style they are written in).
            Entities are found on two routes: the file's registration list (creation order) and an independent
            walk over the entity tree (what the pages show); a spy on FortranBase.markdown tells which objects
            were converted, and in which order.
            (a) correspondence: (name, metadata, doc_list) == Lean `entDocsW (attachW (readAll lines))`
                (wrapper entities of interface blocks included; metadata as parsing left it),
                converted objects == Lean `convIdx` (model of markdownable_items / Project.markdown), objects with a
                placeholder `doc` / emptied metadata after `correlate` == Lean `inheritStep` on the public components
                of extended types,
                run(dedent(doc_list)) == Lean pipeline, and that is what Markdown was handed;
                link targets / footnote list / abbreviation titles of every entity's HTML == Lean `markdownAll`
                (model of the one shared Markdown instance: reset + convert per entity, in conversion order);
            (b) property oracle on the real code: tracer words of BeautifulSoup(entity.doc).get_text()
                == the entity's own tracer sequence (footnote texts last); metadata set, not shown; no tracer word
                of any other comment anywhere in the entity's HTML (attributes included).
Which of the proposed repairs (fixes/C03-*.diff) the tree under test contains is decided at run time on the
findings' witnesses (`variants`); the models follow.
"""
from __future__ import annotations

import json
import random
import re
import textwrap
from pathlib import Path

from . import common
from .common import Driver, Report, lean_prove

PROP = "C03"
MARK_POOL = ["!", ">", "*", "|", "<", "^", "~", "$", "+", "%"]
DEFAULT_MARKS = ("!", ">", "*", "|")
NOTE_KINDS = None  # filled from the translator table
STR_META = ["author", "date", "license", "version", "since", "category"]
TRACER = re.compile(r"t\d+q\d+")


# --------------------------------------------------------------------------
# doc bodies
# --------------------------------------------------------------------------


class Tracer:
    def __init__(self, eid):
        self.eid = eid
        self.k = 0
        self.seq = []
        self.attrs = []  # words of the comment that are rendered inside attributes only (link targets, abbr titles)
        self.foot = []   # words of footnote texts

    def a(self):
        t = f"t{self.eid}q{self.k}"
        self.k += 1
        self.attrs.append(t)
        return t

    def f(self):
        """a word of a footnote text: shown below everything else of the entity's documentation"""
        t = f"t{self.eid}q{self.k}"
        self.k += 1
        self.foot.append(t)
        return t

    def w(self):
        t = f"t{self.eid}q{self.k}"
        self.k += 1
        self.seq.append(t)
        return t

    def words(self, rng, lo=1, hi=4):
        return " ".join(self.w() for _ in range(rng.randint(lo, hi)))


def case_variant(rng, k):
    r = rng.random()
    if r < 0.5:
        return k
    if r < 0.7:
        return k.capitalize()
    if r < 0.85:
        return k.upper()
    return "".join(c.upper() if rng.random() < 0.5 else c for c in k)


# Markdown constructs whose definitions live in per-document tables of the Markdown instance (footnotes,
# reference-style links, abbreviations).  Labels come from small shared pools so that different comments of
# one project use the same labels: a comment may use a label it does not define (rendered literally).
FOOT_LABELS = ["1", "2", "a"]
REF_LABELS = ["r1", "r2", "Lnk"]
ABBR_TOKENS = ["ABX", "QZY", "KLM"]


class MdDefs:
    def __init__(self):
        self.foot_use, self.foot_def = [], []
        self.ref_use, self.ref_def = [], []
        self.abbr_use, self.abbr_def = [], []

    def any_def(self):
        return bool(self.foot_def or self.ref_def or self.abbr_def)


def para_line(rng, tr, pend):
    """One paragraph line of tracer words; now and then one word carries a footnote reference, is the text of
    a reference-style link, or an abbreviation token is put between the words."""
    ws = [tr.w() for _ in range(rng.randint(1, 4))]
    if pend is None:
        return " ".join(ws)
    r = rng.random()
    i = rng.randrange(len(ws))
    if r < 0.07:
        lab = rng.choice(FOOT_LABELS)
        ws[i] += f"[^{lab}]"
        pend.foot_use.append(lab)
        if lab not in pend.foot_def and rng.random() < 0.75:
            pend.foot_def.append(lab)
    elif r < 0.14:
        lab = rng.choice(REF_LABELS)
        ws[i] = f"[{ws[i]}][{lab if rng.random() < 0.8 else lab.upper()}]"
        pend.ref_use.append(lab)
        if lab not in pend.ref_def and rng.random() < 0.7:
            pend.ref_def.append(lab)
    elif r < 0.20:
        tok = rng.choice(ABBR_TOKENS)
        ws.insert(i, tok)
        pend.abbr_use.append(tok)
        if tok not in pend.abbr_def and rng.random() < 0.5:
            pend.abbr_def.append(tok)
    return " ".join(ws)


def def_lines(rng, tr, feat, pend):
    """Definition blocks for the end of a comment (footnote texts are shown, in definition order, below the
    body; link targets and abbreviation titles only appear in attributes)."""
    if rng.random() < 0.04:
        lab = rng.choice(FOOT_LABELS)
        if lab not in pend.foot_def:
            pend.foot_def.append(lab)
    if rng.random() < 0.04:
        lab = rng.choice(REF_LABELS)
        if lab not in pend.ref_def:
            pend.ref_def.append(lab)
    if rng.random() < 0.04:
        tok = rng.choice(ABBR_TOKENS)
        if tok not in pend.abbr_def:
            pend.abbr_def.append(tok)
    groups = []
    if pend.foot_def:
        groups.append([f"[^{lab}]:" + rng.choice([" ", "  "]) + " ".join(tr.f() for _ in range(rng.randint(1, 3)))
                       for lab in pend.foot_def])
    rest = []
    if pend.ref_def:
        rest.append([f"[{lab}]: http://example.com/{tr.a()}" for lab in pend.ref_def])
    if pend.abbr_def:
        rest.append([f"*[{tok}]: " + " ".join(tr.a() for _ in range(rng.randint(1, 2))) for tok in pend.abbr_def])
    rng.shuffle(rest)
    groups += rest
    out = []
    for g in groups:
        for k, l in enumerate(g):
            if k == 0 or rng.random() < 0.5:
                out.append("")
            out.append(l)
    for lab in pend.foot_def:
        feat.add("footnote-def")
    for lab in pend.ref_def:
        feat.add("ref-def:" + lab.lower())
    for tok in pend.abbr_def:
        feat.add("abbr-def:" + tok)
    for lab in pend.foot_use:
        feat.add("footnote-ref" if lab in pend.foot_def else "footnote-dangling-ref")
    for lab in pend.ref_use:
        feat.add("ref-link" if lab in pend.ref_def else "ref-dangling-use")
        feat.add("ref-use:" + lab.lower())
    for tok in pend.abbr_use:
        feat.add("abbr-use:" + tok)
        feat.add("abbr-own-def" if tok in pend.abbr_def else "abbr-dangling-use")
    return out


def gen_note(rng, tr, feat, last_block):
    """A note box; returns (lines, needs_blank_after)."""
    kind = rng.choice(NOTE_KINDS)
    feat.add("note:" + kind)
    lines = []
    start = "@" + case_variant(rng, kind)
    r = rng.random()
    if r < 0.45:
        start += " " + tr.words(rng)
        feat.add("note-text-on-start-line")
    if rng.random() < 0.25:
        start = rng.choice([" ", "  "]) + start
        feat.add("note-indented-marker")
    if rng.random() < 0.04:
        # outside the Doc grammar: text before the marker on the same line (pre-finding 3)
        start = tr.words(rng, 1, 2) + " " + start.lstrip()
        feat.add("text-before-note")
    lines.append(start)
    nbody = rng.randint(0, 3)
    for i in range(nbody):
        r = rng.random()
        if r < 0.7:
            lines.append(tr.words(rng))
        elif r < 0.85:
            lines.append("- " + tr.words(rng))
            feat.add("list-in-note")
        else:
            lines.append("")
            lines.append(tr.words(rng))
            feat.add("blank-inside-closed-note")
    closed = rng.random() < 0.6 or "blank-inside-closed-note" in feat and "" in lines
    if closed:
        end = "@end" + case_variant(rng, kind)
        r = rng.random()
        if r < 0.55:
            lines.append(end)
            feat.add("note-end-own-line")
        elif r < 0.75:
            lines.append(end + " " + tr.words(rng))
            feat.add("note-text-after-end")
        elif r < 0.9:
            lines.append(tr.words(rng) + " " + end)
            feat.add("note-text-before-end")
        else:
            lines.append(tr.words(rng) + " " + end + " " + tr.words(rng))
            feat.add("note-text-around-end")
        return lines, False
    feat.add("note-unterminated")
    return lines, True


def gen_body(rng, tr, feat, max_blocks=4, notes=True, mdstate=True):
    """Doc comment body (list of lines, no leading blank)."""
    nb = rng.randint(1, max_blocks)
    lines = []
    pend = MdDefs() if mdstate else None
    pending_unterminated = False
    for b in range(nb):
        last = b == nb - 1
        r = rng.random()
        if notes and r < 0.38:
            blk, unterminated = gen_note(rng, tr, feat, last)
            if lines:
                if pending_unterminated and rng.random() < 0.5:
                    feat.add("note-ended-by-next-note")
                else:
                    lines.append("")
            lines += blk
            pending_unterminated = unterminated
            if unterminated and last:
                feat.add("note-ended-by-eof")
            continue
        if lines:
            lines.append("")
            if pending_unterminated:
                feat.add("note-ended-by-blank")
        pending_unterminated = False
        if r < 0.62:
            for _ in range(rng.randint(1, 3)):
                lines.append(para_line(rng, tr, pend))
            feat.add("paragraph")
        elif r < 0.74:
            m = rng.choice(["-", "*", "+"])
            for _ in range(rng.randint(1, 3)):
                lines.append(f"{m} " + tr.words(rng))
            feat.add("ulist")
        elif r < 0.82:
            for i in range(rng.randint(1, 3)):
                lines.append(f"{i + 1}. " + tr.words(rng))
            feat.add("olist")
        elif r < 0.92:
            fence = rng.choice(["```", "~~~"])
            lines.append(fence)
            for _ in range(rng.randint(1, 3)):
                lines.append(rng.choice(["", "  "]) + tr.words(rng))
            lines.append(fence)
            feat.add("fenced-code")
        else:
            if not lines:
                if rng.random() < 0.5:
                    lines.append(tr.words(rng))
                    lines.append("")
                else:
                    # the comment starts with the code block: its first line has four or more blanks and
                    # there is no metadata key to continue, so it is body text, not a continuation value
                    feat.add("starts-with-indented-code")
            for _ in range(rng.randint(1, 2)):
                lines.append(rng.choice(["    ", "    ", "     ", "      "]) + tr.words(rng))
            feat.add("indented-code")
    if pend is not None:
        dl = def_lines(rng, tr, feat, pend)
        if dl and pending_unterminated:
            feat.discard("note-ended-by-eof")
            feat.add("note-ended-by-blank")
        lines += dl
    return lines


def gen_header(rng, tr, feat):
    """Metadata header lines and the expected dict (values are tracer words of their own)."""
    keys = rng.sample(STR_META, rng.randint(1, 3))
    lines, meta = [], {}
    for k in keys:
        v = f"m{tr.eid}{k}{rng.randint(0, 99)}"
        kk = case_variant(rng, k) if rng.random() < 0.3 else k
        lines.append(f"{kk}:" + rng.choice([" ", "  ", ""]) + v)
        meta[k] = [v]
        if rng.random() < 0.2:
            v2 = f"m{tr.eid}{k}more{rng.randint(0, 99)}"
            lines.append("     " + v2)
            meta[k].append(v2)
            feat.add("meta-continuation")
    if rng.random() < 0.3:
        # `summary:` is metadata too, but its value is shown (converted like the comment): several words on one line
        vs = " ".join(f"m{tr.eid}summary{rng.randint(0, 99)}" for _ in range(rng.randint(1, 3)))
        # (never between a key and its continuation line)
        at = rng.choice([i for i in range(len(lines) + 1) if i == len(lines) or not lines[i].startswith(" ")])
        lines.insert(at, "summary:" + rng.choice([" ", "  "]) + vs)
        meta["summary"] = [vs]
        feat.add("meta-summary")
    feat.add("meta-header")
    return lines, meta


class Comment:
    def __init__(self, eid):
        self.tr = Tracer(eid)
        self.lines = []
        self.meta = {}
        self.feat = set()


ONELINE_TEXT_KEYS = ["Note", "Todo", "Remark", "Example", "see also", "authors", "xauthor", "Author s", "auth"]
NONFIELD_ATTRS: list = []  # public attributes of EntitySettings that are not dataclass fields (filled in run())


def gen_oneline(rng, c):
    """A doc comment of exactly one line that contains a colon: `read_metadata`'s one-line rule decides
    between metadata (`<known key, any case>: value`, not shown) and text (anything else, shown)."""
    if rng.random() < 0.5:
        k = rng.choice(STR_META)
        v = f"m{c.tr.eid}{k}{rng.randint(0, 99)}"
        kk = case_variant(rng, k)
        c.lines = [f"{kk}:" + rng.choice([" ", "  ", ""]) + v]
        c.meta = {k: [v]}
        c.feat.update({"oneline-meta", "oneline-meta-key:" + ("lower" if kk == k else "not-lower")})
    else:
        w = rng.choice(ONELINE_TEXT_KEYS + NONFIELD_ATTRS)
        if rng.random() < 0.3:
            w = case_variant(rng, w)
        c.lines = [f"{w}:" + rng.choice([" ", "  "]) + c.tr.words(rng, 1, 3)]
        c.feat.update({"oneline-colon-text", "oneline-text-key:" + ("attribute" if w.lower() in NONFIELD_ATTRS else "word")})
    return c


def gen_comment(rng, eid, rich=True, meta_ok=True):
    c = Comment(eid)
    if rich and meta_ok and rng.random() < 0.1:
        return gen_oneline(rng, c)
    has_meta = meta_ok and rng.random() < 0.2
    if has_meta:
        hl, c.meta = gen_header(rng, c.tr, c.feat)
        c.lines += hl
        if rng.random() < 0.6:
            c.lines.append("")
            c.feat.add("meta-blank-separator")
        else:
            c.feat.add("meta-no-separator")
    if rich:
        body = gen_body(rng, c.tr, c.feat, max_blocks=rng.choice([1, 1, 2, 4]))
    else:
        body = [c.tr.words(rng) for _ in range(rng.randint(1, 2))]
        c.feat.add("paragraph")
    if has_meta and "meta-blank-separator" in c.feat and rng.random() < 0.2:
        # after the blank line that ends the header everything is body text, also a first line `Word: text`
        k = len(c.tr.seq)
        w = rng.choice(["Note", "Remark", "Example", "Todo", "Usage"])
        first = f"{w}:" + rng.choice([" ", "  "]) + c.tr.words(rng, 1, 3)
        c.tr.seq[:] = c.tr.seq[k:] + c.tr.seq[:k]
        body = [first] + ([""] if rng.random() < 0.5 else []) + body
        if len(body) > 1 and body[1].startswith("    "):
            body.insert(1, "")
        c.feat.add("colon-line-after-header")
    if has_meta and "meta-no-separator" in c.feat and (body[0].startswith("    ") or ":" in body[0]):
        k = len(c.tr.seq)
        body = [c.tr.words(rng)] + body
        c.tr.seq[:] = c.tr.seq[k:] + c.tr.seq[:k]  # the words of the new first line come first
        c.feat.discard("starts-with-indented-code")
    c.lines += body
    return c


# --------------------------------------------------------------------------
# programs
# --------------------------------------------------------------------------


class Node:
    """kind: 'stmt' | 'entity' | 'comment' | 'blank' | 'stray'"""

    def __init__(self, kind, text="", names=(), comment=None, body=None, end=None):
        self.kind = kind
        self.text = text
        self.names = list(names)
        self.comment = comment
        self.body = body
        self.end = end
        self.style = None


class ProgGen:
    def __init__(self, rng):
        self.rng = rng
        self.n = 0
        self.enum_done = False

    def name(self, p):
        self.n += 1
        return f"{p}{self.n}"

    def kw(self, s):
        return s.upper() if self.rng.random() < 0.1 else s

    def maybe_comment(self, names, rich=True, p=0.8):
        if self.rng.random() < p:
            self.n += 1
            return gen_comment(self.rng, self.n, rich)
        return None

    def filler(self, out, exec_ok=False):
        r = self.rng.random()
        if r < 0.25:
            out.append(Node("blank"))
        elif r < 0.5:
            out.append(Node("comment", self.rng.choice(["! plain remark", "!plain", "! t0q0 not a doc", "!"])))
        elif r < 0.6 and exec_ok:
            out.append(Node("stmt", self.rng.choice(["x0 = 1", "call ext()", "x0 = x0 + 2"])))

    def var_decl(self, names=None, attrs="", comment=True, semi_ok=True):
        rng = self.rng
        if names is None:
            names = [self.name("v") for _ in range(rng.choice([1, 1, 1, 2, 3]))]
        else:
            semi_ok = False
        ty = rng.choice(["integer", "real", "logical", "character(len=3)", "real, dimension(2)", "double precision"])
        decls = []
        for n in names:
            r = rng.random()
            decls.append(n + ("(3)" if r < 0.15 and "dimension" not in ty else " = 1" if r < 0.3 and ty == "integer" and not attrs else ""))
        text = f"{self.kw(ty)}{attrs} :: " + ", ".join(decls)
        node = Node("entity", text, names, self.maybe_comment(names) if comment else None)
        if semi_ok and comment and rng.random() < 0.14:
            # several statements on one source line, separated by `;`: the declarations in front of this one
            # stand on the same line; a comment that follows the line (inline at its end, or on the next
            # lines) follows the LAST statement, so it documents that one and none of the others
            node.semi = [self.var_decl(None, attrs, comment=False, semi_ok=False) for _ in range(rng.choice([1, 1, 2]))]
        return node

    def literal_decl(self):
        """A character declaration whose initial value is a concatenation of character literals.  The literals
        hold what looks like comments - `!` followed by one of the four markers or by nothing, then words (the
        foreign tracers `t0q<k>`) - the other quote character, doubled quotes, `;`, `,`, `::`, `=>`; the
        statement may be continued inside a literal.  None of that is a comment: the entity's documentation is
        its own comment only.  The text is built at render time (the marker characters are chosen there)."""
        rng = self.rng
        names = [self.name("v") for _ in range(rng.choice([1, 1, 1, 2]))]
        inits = []
        for _ in names:
            lits = []
            for _ in range(rng.choice([1, 1, 2, 2, 3])):
                q = rng.choice("'\"")
                atoms = []
                for _ in range(rng.randint(1, 4)):
                    r = rng.random()
                    if r < 0.35:
                        atoms.append(("w", rng.choice(["say", "hello", "t0q1", "t0q2 t0q3", "x"])))
                    elif r < 0.65:
                        atoms.append(("m", rng.choice([0, 0, 1, 2, 3, None]), rng.choice(["t0q4", "t0q5 t0q6", ""])))
                    elif r < 0.8:
                        atoms.append(("o",))          # the other quote character
                    elif r < 0.87:
                        atoms.append(("d",))          # the literal's own quote character, doubled
                    else:
                        atoms.append(("w", rng.choice([";", ",", " :: ", " => ", "&x", "(", "integer"])))
                lits.append((q, atoms))
            if len(lits) > 1 and rng.random() < 0.5:
                # the mixed-quote shape: an earlier literal holds the quote character the last literal is
                # delimited with (e.g. 'say "' // "hello ..."), so that counting quote characters says nothing
                # about where the last literal begins and ends
                q0 = lits[0][0]
                lits[0][1].insert(rng.randint(0, len(lits[0][1])), ("o",))
                lits[-1] = ('"' if q0 == "'" else "'", [a for a in lits[-1][1] if a[0] != "o"] or [("w", "hello")])
            inits.append(lits)
        n = Node("entity", "", names, self.maybe_comment(names, p=0.9))
        n.lit = (rng.choice(["character(len=*), parameter", "character(len=80)", "CHARACTER(len=*), parameter"]), inits)
        return n

    def procedure(self, depth, internal_ok=True):
        rng = self.rng
        name = self.name("s")
        args = [self.name("a") for _ in range(rng.randint(0, 2))]
        body = []
        if rng.random() < 0.5:
            body.append(Node("stmt", "implicit none"))
        is_fn = rng.random() < 0.35
        prefix = rng.choice(["", "", "", "pure ", "elemental ", "recursive "])
        if is_fn:
            res = self.name("r")
            head = f"{prefix}{self.kw('function')} {name}({', '.join(args)}) result({res})"
            endk = "function"
        else:
            head = f"{prefix}{self.kw('subroutine')} {name}({', '.join(args)})" if args or rng.random() < 0.6 else f"{prefix}subroutine {name}"
            endk = "subroutine"
        if len(args) == 2 and rng.random() < 0.25:
            # both dummy arguments declared on one line: `integer :: a; integer :: b !! describes b`
            self.filler(body)
            first = self.var_decl([args[0]], rng.choice([", intent(in)", ", intent(inout)", ""]), comment=False)
            body.append(self.var_decl([args[1]], rng.choice([", intent(in)", ", intent(inout)", ""])))
            body[-1].semi = [first]
        else:
            for a in args:
                self.filler(body)
                body.append(self.var_decl([a], rng.choice([", intent(in)", ", intent(inout)", ""])))
        if is_fn:
            body.append(self.var_decl([res]))
        for _ in range(rng.randint(0, 2)):
            self.filler(body)
            body.append(self.var_decl() if rng.random() < 0.85 else self.literal_decl())
        if rng.random() < 0.3:
            # a derived type local to the procedure: FORD gives it (and its components) no URL - neither a page
            # nor a place on a page of its own; what its card shows is `meta.summary`
            self.filler(body)
            body.append(self.dtype([]))
            body[-1].local_type = True
        for _ in range(rng.randint(0, 2)):
            self.filler(body, True)
            body.append(Node("stmt", rng.choice(["x0 = 1", "call ext(1)", "if (x0 > 1) x0 = 2"])))
            if rng.random() < 0.15:
                self.n += 1
                body.append(Node("stray", comment=gen_comment(rng, self.n, rich=False, meta_ok=False)))
        if internal_ok and rng.random() < 0.15:
            body.append(Node("stmt", "contains"))
            body.append(self.procedure(depth + 1, False))
        end = rng.choice([f"end {endk} {name}", f"end {endk}", "end", f"END {endk.upper()} {name}", f"end{endk} {name}"])
        self.procs.append((name, is_fn))
        return Node("entity", head, [name], self.maybe_comment([name], p=0.85), body, end)

    def iface_body(self):
        """A procedure interface body (inside an interface block): statement, optional `import` / `implicit
        none`, declarations of the dummy arguments and the result, END."""
        rng = self.rng
        name = self.name("s")
        args = [self.name("a") for _ in range(rng.randint(0, 2))]
        is_fn = rng.random() < 0.4
        prefix = rng.choice(["", "", "pure ", "elemental "])
        body = []
        if is_fn:
            res = self.name("r")
            head = f"{prefix}{self.kw('function')} {name}({', '.join(args)}) result({res})"
            endk = "function"
        else:
            head = f"{prefix}{self.kw('subroutine')} {name}({', '.join(args)})"
            endk = "subroutine"
        if rng.random() < 0.3:
            body.append(Node("stmt", rng.choice(["implicit none", "import"])))
        for a in args:
            self.filler(body)
            body.append(self.var_decl([a], rng.choice([", intent(in)", ", intent(out)", ""])))
        if is_fn:
            body.append(self.var_decl([res]))
        end = rng.choice([f"end {endk} {name}", f"end {endk}", f"END {endk.upper()}"])
        n = Node("entity", head, [name], self.maybe_comment([name], p=0.85), body, end)
        n.is_fn = is_fn
        return n

    def iface_block(self):
        """An interface block that declares explicit interfaces: `interface` without a generic name, or
        `abstract interface`.  FORD shows one interface entity per procedure of the block (named like the
        procedure), each documented by the block's comment; the procedure inside keeps its own comment."""
        rng = self.rng
        abstract = rng.random() < 0.5
        bodies = [self.iface_body() for _ in range(rng.choice([1, 1, 2, 3]))]
        names = [b.names[0] for b in bodies]
        keys = [f"{nm}@iface" for nm in names]
        if not abstract:
            keys = ["@iblock:" + min(names)] + keys
        self.n += 1
        c = gen_comment(rng, self.n, True) if rng.random() < 0.7 else None
        inner = []
        for b in bodies:
            self.filler(inner)
            inner.append(b)
        n = Node("entity", rng.choice(["abstract interface", "ABSTRACT INTERFACE"]) if abstract
                 else rng.choice(["interface", "INTERFACE"]), keys, c, inner,
                 rng.choice(["end interface", "END INTERFACE"]))
        n.iface_block = "abstract" if abstract else "plain"
        return n

    def dtype(self, subs):
        rng = self.rng
        name = self.name("ty")
        head = rng.choice([f"type :: {name}", f"type, public :: {name}", f"type {name}", f"TYPE :: {name}"])
        body = []
        default_public = True
        if rng.random() < 0.12:
            body.append(Node("stmt", "private"))  # components are private unless declared public
            default_public = False
        for _ in range(rng.randint(0, 3)):
            self.filler(body)
            attrs = rng.choice(["", "", "", ", public", ", private"])
            body.append(self.var_decl(attrs=attrs))
            body[-1].public_component = default_public if not attrs else attrs == ", public"
        if subs and rng.random() < 0.5:
            body.append(Node("stmt", "contains"))
            for _ in range(rng.randint(1, 2)):
                bn = self.name("b")
                tgt = rng.choice(subs)
                txt = rng.choice([f"procedure :: {bn} => {tgt}", f"procedure, public :: {bn} => {tgt}",
                                  f"procedure, nopass :: {bn} => {tgt}"])
                body.append(Node("entity", txt, [bn], self.maybe_comment([bn])))
            if rng.random() < 0.35:
                # a generic binding over the specific ones above
                gn = self.name("gb")
                specifics = [b.names[0] for b in body if b.kind == "entity" and b.text.startswith("procedure")]
                txt = rng.choice(["generic :: ", "generic, public :: ", "GENERIC :: ", "generic, private :: "]) + \
                    f"{gn} => " + ", ".join(rng.sample(specifics, rng.randint(1, len(specifics))))
                body.append(Node("entity", txt, [gn], self.maybe_comment([gn])))
                body[-1].generic_binding = "private" not in txt
            if rng.random() < 0.3:
                fn = rng.choice(subs)
                body.append(Node("entity", f"final :: {fn}", [f"{fn}@final:{name}"], self.maybe_comment([fn])))
        end = rng.choice([f"end type {name}", "end type", f"END TYPE {name}"])
        n = Node("entity", head, [name], self.maybe_comment([name]), body, end)
        n.is_type = True
        return n

    def extend_types(self, spec):
        """Type extension: a type may extend a type defined earlier in the same scoping unit (chains of any
        length arise).  The extending type inherits the public components and bindings of its base type: FORD
        lists the base type's component *objects* in the extending type too."""
        rng = self.rng
        earlier = []
        for n in spec:
            if not getattr(n, "is_type", False):
                continue
            if earlier and rng.random() < 0.5:
                base = rng.choice(earlier)
                name = n.names[0]
                n.text = rng.choice([f"type, extends({base}) :: {name}", f"type, public, extends({base}) :: {name}",
                                     f"TYPE, EXTENDS({base}) :: {name}", f"type, extends({base}), public :: {name}",
                                     f"type,extends( {base} )::{name}"])
                n.extends = base
            earlier.append(n.names[0])

    def module(self):
        rng = self.rng
        name = self.name("m")
        self.procs = []
        procs = [self.procedure(1) for _ in range(rng.randint(0, 3))]
        subs = [n for n, fn in self.procs if not fn]
        top_subs = [p.names[0] for p in procs if "subroutine" in p.text.lower()]
        body = []
        if rng.random() < 0.6:
            body.append(Node("stmt", "implicit none"))
        if rng.random() < 0.2:
            body.append(Node("stmt", rng.choice(["private", "public"])))
        spec = []
        for _ in range(rng.randint(0, 3)):
            spec.append(self.var_decl() if rng.random() < 0.8 else self.literal_decl())
        for _ in range(rng.choice([0, 1, 1, 2, 3])):
            spec.append(self.dtype(top_subs))
        if top_subs and rng.random() < 0.5:
            gname = self.name("g")
            gb = []
            for t in rng.sample(top_subs, rng.randint(1, len(top_subs))):
                self.n += 1
                # the reference is an entity named like its target; give it a distinct expected key
                gb.append(Node("entity", f"module procedure {t}", [f"{t}@{gname}"], self.maybe_comment([t], p=0.6)))
            if rng.random() < 0.3:
                # a generic interface may also contain interface bodies (of external procedures)
                gb.insert(rng.randint(0, len(gb)), self.iface_body())
            spec.append(Node("entity", f"interface {gname}", [gname], self.maybe_comment([gname]), gb,
                             rng.choice([f"end interface {gname}", "end interface"])))
        for _ in range(rng.choice([0, 0, 1, 1, 2])):
            spec.append(self.iface_block())
        if not self.enum_done and rng.random() < 0.15:
            self.enum_done = True
            eb = [Node("entity", "enumerator :: " + ", ".join(ns := [self.name("e"), self.name("e")]), ns,
                       self.maybe_comment(ns))]
            spec.append(Node("entity", "enum, bind(c)", [""], self.maybe_comment([""]), eb, "end enum"))
        rng.shuffle(spec)
        self.extend_types(spec)
        for s in spec:
            self.filler(body)
            body.append(s)
            if rng.random() < 0.08:
                self.n += 1
                body.append(Node("stmt", "save"))
                body.append(Node("stray", comment=gen_comment(rng, self.n, rich=False, meta_ok=False)))
        if procs:
            body.append(Node("stmt", self.kw("contains")))
            for p in procs:
                self.filler(body)
                body.append(p)
        end = rng.choice([f"end module {name}", "end module", f"END MODULE {name}"])
        return Node("entity", f"{self.kw('module')} {name}", [name], self.maybe_comment([name], p=0.9), body, end)

    def program(self):
        rng = self.rng
        name = self.name("p")
        self.procs = []
        body = [Node("stmt", "implicit none")]
        for _ in range(rng.randint(0, 3)):
            self.filler(body)
            body.append(self.var_decl() if rng.random() < 0.8 else self.literal_decl())
        body.append(Node("stmt", "x0 = 1"))
        if rng.random() < 0.4:
            body.append(Node("stmt", "contains"))
            body.append(self.procedure(1, False))
        return Node("entity", f"program {name}", [name], self.maybe_comment([name], p=0.9), body,
                    rng.choice([f"end program {name}", "end program"]))

    def file(self):
        rng = self.rng
        nodes = []
        if rng.random() < 0.25:
            self.n += 1
            nodes.append(Node("stray", comment=gen_comment(rng, self.n, rich=rng.random() < 0.5)))
            nodes.append(Node("blank"))
        for _ in range(rng.choice([1, 1, 2])):
            r = rng.random()
            self.filler(nodes)
            if r < 0.6:
                nodes.append(self.module())
            elif r < 0.8:
                nodes.append(self.program())
            else:
                self.procs = []
                nodes.append(self.procedure(0))
        return nodes


# The four pure styles (+ inline placement of the first line), and the documented ways of mixing marker forms
# inside ONE comment ("In the first line of your preceding documentation, use `!>` rather than the usual `!!`.
# This can be used on all lines of the preceding documentation if desired, but this is not necessary"; a docmark
# line is documentation wherever it stands; an alternate marker opens a block of plain-comment lines):
#   pre-mixed           first line pre-marker, every later line pre-marker or plain doc marker
#   pre-segments        several consecutive preceding blocks before the statement, each either a (mixed) pre-marker
#                       block or a pre-alt block
#   following-segments  several consecutive following blocks after the statement, each either doc-marker lines or
#                       an alt block (first block optionally starting inline)
#   pre-and-following   one entity documented on both sides: preceding block(s), the statement, following block(s);
#                       the reader hands the preceding lines over right after the statement and before its
#                       trailing docs, so the entity's documentation is the comment in source order
STYLES = ["following", "following-inline", "pre", "alt", "prealt", "pre-mixed", "pre-segments", "following-segments",
          "pre-and-following"]
FALLBACK = {"pre-mixed": "pre", "pre-segments": "pre", "following-segments": "following", "pre-and-following": "pre"}
# a line of several `;`-separated statements: only documentation that FOLLOWS the line is generated (it follows the
# last statement).  A preceding block in front of such a line is not generated: the documented rule ("documents what
# it precedes") would name the first statement, the reader hands the block over after the whole line (see notes).
SEMI_STYLES = ["following", "following-inline", "following-inline", "alt", "following-segments"]


def assign_styles(rng, nodes, uniform=None):
    for n in nodes:
        if n.kind == "entity":
            if n.comment is not None:
                n.style = uniform or rng.choice(STYLES)
                if getattr(n, "semi", None) and n.style not in SEMI_STYLES:
                    n.style = rng.choice(SEMI_STYLES)
                if n.style in FALLBACK and len(n.comment.lines) < 2:
                    n.style = FALLBACK[n.style]  # nothing to mix in a one-line comment
                if n.style == "following-inline" and n.comment.lines[0] == "":
                    n.style = "following"
            if n.body:
                assign_styles(rng, n.body, uniform)
        elif n.kind == "stray":
            n.style = "following"


def lit_lines(rng, n, marks, ind, layout):
    """Physical lines of a declaration with character-literal initial values (`ProgGen.literal_decl`): the
    statement on one line, or continued - inside a literal (`... "text &` / `&more text"`: the `&` pair joins the
    pieces verbatim) or between two tokens outside the literals."""
    head, inits = n.lit
    toks = [(head + " :: ", False)]  # (text, inside a literal after this token?)
    for vi, (nm, lits) in enumerate(zip(n.names, inits)):
        toks.append(((", " if vi else "") + nm + " = ", False))
        for li, (q, atoms) in enumerate(lits):
            if li:
                toks.append((" // ", False))
            other = '"' if q == "'" else "'"
            toks.append((q, True))
            for a in atoms:
                if a[0] == "w":
                    t = a[1]
                elif a[0] == "m":
                    t = "!" + ("" if a[1] is None else marks[a[1]]) + (" " + a[2] if a[2] else "")
                    layout.add("literal-holds:" + ("plain-comment" if a[1] is None else
                                                   ["doc", "pre", "alt", "prealt"][a[1]] + "-marker"))
                elif a[0] == "o":
                    t = other
                    layout.add("literal-holds:other-quote")
                else:
                    t = q + q
                    layout.add("literal-holds:doubled-quote")
                toks.append((t + " ", True))
            toks[-1] = (toks[-1][0].rstrip(" ") if rng.random() < 0.5 else toks[-1][0], True)
            toks.append((q, False))
    cuts = sorted(rng.sample(range(1, len(toks)), min(len(toks) - 1, rng.choice([0, 0, 1, 1, 2, 3]))))
    inner = [k for k in range(1, len(toks)) if toks[k - 1][1]]  # positions inside a literal
    if inner and rng.random() < 0.4:
        cuts = sorted(set(cuts) | {rng.choice(inner[-3:])})
    out, cur, inside = [], ind, False
    for k, (t, ins) in enumerate(toks):
        if k in cuts:
            if inside:
                sofar = "".join(x for x, _ in toks[:k])
                if sofar.count("'") % 2 == 0 and sofar.count('"') % 2 == 0:
                    layout.add("literal-continued:both-quote-counts-even")
                out.append(cur + "&")
                cur = ind + rng.choice(["  ", "     ", ""]) + "&"
                layout.add("literal-continued-inside")
            else:
                out.append(cur + rng.choice([" &", "&"]))
                cur = ind + "   " + rng.choice(["& ", "", "&"])
                layout.add("statement-continued-between-literals")
        cur += t
        inside = ins
    out.append(cur)
    layout.add("declaration-with-character-literals")
    return out


def render(rng, nodes, marks, layout, files=None):
    """Physical lines + expected {entity name: (words, meta, features)} + per-file expected for strays.
    `files`: dict that receives the included files (name -> physical lines) when parts of the program are
    moved into include files; None = no include lines."""
    doc, pre, alt, prealt = marks
    lines = []
    expected = {}
    state = {"no_plain_comment_next": False}
    foot_words: dict = {}
    last_line: dict = {}
    sp_of: dict = {}  # entity name -> the wide separator its comment is written with

    sink = [lines]

    def put(line):
        sink[-1].append(line)

    def emit_plain(ind, text):
        if state["no_plain_comment_next"]:
            put("")  # a plain comment right after an alt block would (by design) continue the block
            layout.add("blank-after-alt-block")
        put(ind + text)
        state["no_plain_comment_next"] = False

    def docline(ind, mark, text, sp):
        return ind + "!" + mark + (sp + text if text else "")

    def segments(st, clines):
        """The comment's lines cut into consecutive blocks, each with the marker form it is written in:
        'P' pre-marker block (later lines pre-marker or doc marker), 'PA' pre-alt block, 'D' doc-marker lines,
        'A' alt block.  Returns [(form, [lines])]."""
        if st == "pre":
            return [("Ppure", clines)]
        if st == "pre-mixed":
            return [("P", clines)]
        if st == "prealt":
            return [("PA", clines)]
        if st == "alt":
            return [("A", clines)]
        if st in ("following", "following-inline"):
            return [("D", clines)]
        k = min(len(clines), rng.choice([2, 2, 3]))
        cuts = sorted(rng.sample(range(1, len(clines)), k - 1))
        parts = [clines[a:b] for a, b in zip([0] + cuts, cuts + [len(clines)])]
        if st == "pre-and-following":
            j = rng.randint(1, k - 1)  # blocks before the statement
            return [(rng.choice(["P", "PA"] if i < j else ["D", "A"]), p) for i, p in enumerate(parts)]
        forms = ["P", "PA"] if st == "pre-segments" else ["D", "A"]
        return [(rng.choice(forms), p) for p in parts]

    def put_segment(ind, form, seg, sp, first_done):
        """Own-line doc lines of one block; `first_done`: its first line was already put (inline)."""
        for k, t in enumerate(seg):
            if k == 0 and first_done:
                continue
            if form in ("P", "Ppure"):
                if k and rng.random() < 0.1:
                    put(ind + rng.choice(["! plain inside predoc", "! t0q0 plain inside predoc", ""]))
                    layout.add("gap-inside-predoc")
                if k and form == "P" and rng.random() < 0.65:
                    put(docline(ind, doc, t, sp))
                    layout.add("docmark-line-inside-predoc-block")
                else:
                    put(docline(ind, pre, t, sp))
            elif form == "PA":
                put(docline(ind, prealt if k == 0 else "", t, sp))
            elif form == "A":
                put(docline(ind, alt if k == 0 else "", t, sp))
            else:
                put(docline(ind, doc, t, sp))

    def walk(nodes, depth, container, may_include=True):
        ind = "  " * depth
        ents = [i for i, n in enumerate(nodes) if n.kind == "entity"]
        if files is not None and may_include and ents and len(files) < 4 and rng.random() < 0.05:
            # a run of this scoping unit's text (at least one documented-or-not entity with everything that
            # belongs to it; neighbouring fillers at random) is moved into an include file: INCLUDE is
            # textual, the entities and their comments are the same
            a = b = rng.choice(ents)
            while a > 0 and rng.random() < 0.5:
                a -= 1
            while b < len(nodes) - 1 and rng.random() < 0.5:
                b += 1
            name = f"inc{len(files) + 1}.inc"
            files[name] = []
            walk(nodes[:a], depth, container, False)
            q = rng.choice("'\"")
            put(ind + rng.choice(["include", "include", "INCLUDE", "Include"]) + rng.choice([" ", "  "]) + q + name + q)
            state["no_plain_comment_next"] = False
            sink.append(files[name])
            walk(nodes[a:b + 1], depth if rng.random() < 0.7 else 0, container, False)
            sink.pop()
            state["no_plain_comment_next"] = False
            layout.add("include-file")
            if len(sink) > 1:
                layout.add("include-file-nested")
            walk(nodes[b + 1:], depth, container, False)
            return
        for n in nodes:
            if n.kind == "blank":
                put(rng.choice(["", "  "]))
                state["no_plain_comment_next"] = False
            elif n.kind == "comment":
                emit_plain(ind, n.text)
            elif n.kind == "stmt":
                put(ind + n.text)
                state["no_plain_comment_next"] = False
            elif n.kind == "stray":
                c = n.comment
                # same distance between marker and text as in the container's own comment (textwrap.dedent
                # removes the margin common to all lines of the container's documentation)
                sp = sp_of.get(container, " ")
                if last_line.get(container, "").lstrip().startswith("[^"):
                    # directly after a footnote definition the stray lines would (Markdown's lazy continuation)
                    # be part of the footnote text; an empty doc line keeps them a paragraph of their own
                    put(docline(ind, doc, "", sp))
                    layout.add("blank-doc-line-before-stray-after-footnote")
                for t in c.lines:
                    put(docline(ind, doc, t, sp))
                last_line[container] = c.lines[-1]
                state["no_plain_comment_next"] = False
                w, m, f, a = expected.setdefault(container, ([], {}, set(), []))
                w.extend(c.tr.seq)
                foot_words.setdefault(container, []).extend(c.tr.foot)
                a.extend(c.tr.attrs)
                f.update(c.feat)
                f.add("stray-container-doc")
                if container == "<file>":
                    m.update(c.meta)
                else:
                    # appended after read_metadata: a header here is not metadata; the generator gives none
                    pass
                layout.add("stray-container-doc")
            elif n.kind == "entity":
                c = n.comment
                st = n.style
                sp = rng.choice([" ", " ", " ", ""]) if c is None or not any(l.startswith(" ") for l in c.lines) else " "
                if c is not None and any(l.startswith("    ") for l in c.lines):
                    sp = " "
                segs = segments(st, c.lines) if c is not None else []
                if any(f in ("A", "PA") for f, _ in segs):
                    sp = " "  # a bare "!" + text that starts with a marker character would be a marker line
                if c is not None and not c.meta and "oneline-meta" not in c.feat and rng.random() < 0.12:
                    # the consistently wide-indented comment style (`!!    text`; textwrap.dedent in
                    # FortranBase.markdown exists for it).  Not for comments with a metadata header: META_RE
                    # accepts at most three blanks before a key.
                    sp = rng.choice(["    ", "    ", "     ", "       "])
                    layout.add("wide-indented-comment")
                    for nm in n.names:
                        sp_of[nm] = sp
                if getattr(n, "iface_block", None):
                    layout.add("interface-block:" + n.iface_block + (":documented" if c is not None else ""))
                if getattr(n, "local_type", None):
                    layout.add("type-local-to-a-procedure" + (":documented" if c is not None else ""))
                if c is not None:
                    layout.add("style:" + st)
                    if len(segs) > 1:
                        layout.add("segments:" + "+".join(f for f, _ in segs))
                pre_segs = [sg for sg in segs if sg[0] in ("P", "Ppure", "PA")]
                fol_segs = [sg for sg in segs if sg[0] in ("D", "A")]
                if pre_segs:
                    for form, seg in pre_segs:
                        put_segment(ind, form, seg, sp, False)
                    state["no_plain_comment_next"] = False
                    if rng.random() < 0.15:
                        put(rng.choice(["", ind + "! plain between predoc and statement"])
                            if pre_segs[-1][0] in ("P", "Ppure") else "")
                        layout.add("gap-before-statement")
                stmt = lit_lines(rng, n, marks, ind, layout) if getattr(n, "lit", None) else [ind + n.text]
                semi = getattr(n, "semi", None) or []
                if semi:
                    sep = rng.choice(["; ", "; ", ";", " ; "])
                    stmt = [ind + sep.join([p.text for p in semi] + [n.text])]
                    layout.add("several-statements-on-one-line")
                    layout.add(f"several-statements-on-one-line:{len(semi) + 1}")
                    if rng.random() < 0.12:
                        stmt[0] += rng.choice([";", " ;"])
                        layout.add("several-statements-on-one-line:trailing-semicolon")
                    if c is not None:
                        layout.add("several-statements-on-one-line:documented:" + st)
                    for p in semi:
                        for nm in p.names:
                            expected.setdefault(nm, ([], {}, set(), []))[2].add("earlier-statement-of-a-line")
                for l in stmt[:-1]:
                    put(l)
                line = stmt[-1]
                inline = False
                # (no inline comment on the last line of a statement continued over several lines: on a line
                # that starts inside a continued literal the reader keeps a comment as code - C02's finding)
                if len(stmt) == 1 and fol_segs and fol_segs[0][0] == "D" and fol_segs[0][1][0] != "" and \
                        (st == "following-inline" or st in ("following-segments", "pre-and-following") and rng.random() < 0.3):
                    t0 = fol_segs[0][1][0]
                    line += rng.choice([" ", "  ", ""]) + "!" + doc + sp + t0
                    inline = True
                    layout.add("first-line-inline")
                    if semi:
                        layout.add("several-statements-on-one-line:inline-doc-at-the-end")
                put(line)
                state["no_plain_comment_next"] = False
                if fol_segs:
                    # (not after a preceding block: the reader turns a blank / comment line that follows handed-over
                    # doc lines into an empty doc line, which would cut a metadata header or a box in two)
                    if fol_segs[0][0] == "D" and not inline and not pre_segs and rng.random() < 0.12:
                        put(rng.choice(["", ind + "! plain before following doc"]))
                        layout.add("gap-before-following-doc")
                    for si, (form, seg) in enumerate(fol_segs):
                        put_segment(ind, form, seg, sp, inline and si == 0)
                    state["no_plain_comment_next"] = fol_segs[-1][0] == "A"
                for nm in n.names:
                    if c is not None:
                        w, m, f, a = expected.setdefault(nm, ([], {}, set(), []))
                        if w:  # container docstring comes before stray lines
                            raise AssertionError("entity expected twice")
                        w.extend(c.tr.seq)
                        foot_words.setdefault(nm, []).extend(c.tr.foot)
                        last_line[nm] = c.lines[-1]
                        a.extend(c.tr.attrs)
                        m.update(c.meta)
                        f.update(c.feat)
                        f.add("style:" + st)
                        if len(sp) >= 4:
                            f.add("wide-indented-comment")
                    else:
                        expected.setdefault(nm, ([], {}, set(), []))
                if n.body is not None:
                    walk(n.body, depth + 1, n.names[0])
                    put(ind + n.end)
                    state["no_plain_comment_next"] = False

    extended = set()
    lit_names = set()

    def find_extended(nodes):
        for n in nodes:
            if n.kind == "entity":
                if getattr(n, "lit", None):
                    lit_names.update(n.names)
                if getattr(n, "extends", None):
                    extended.add(n.extends)
                if n.body:
                    find_extended(n.body)

    find_extended(nodes)
    walk(nodes, 0, "<file>")
    expected.setdefault("<file>", ([], {}, set(), []))
    if extended:
        layout.add("type-extension")

    def mark_inherited(nodes, inside):
        for n in nodes:
            if n.kind == "entity":
                if inside:
                    for nm in n.names + [x for p in (getattr(n, "semi", None) or []) for x in p.names]:
                        if getattr(n, "public_component", False):
                            # FORD lists this very object among the components of every extending type too
                            expected[nm][2].add("public-component-of-extended-type")
                        if getattr(n, "generic_binding", False):
                            # ... and a copy of every non-private generic binding
                            expected[nm][2].add("generic-binding-of-extended-type")
                            layout.add("generic-binding-of-extended-type")
                        if nm in expected and expected[nm][0]:
                            expected[nm][2].add("member-of-extended-type")
                            layout.add("documented-member-of-extended-type")
                if n.body:
                    mark_inherited(n.body, getattr(n, "is_type", False) and n.names[0] in extended)

    mark_inherited(nodes, False)
    for nm, fw in foot_words.items():
        expected[nm][0].extend(fw)  # footnote texts are rendered after everything else, in definition order
    for nm in expected:
        if nm in lit_names:
            expected[nm][2].add("declaration-with-character-literals")
    return lines, expected


# --------------------------------------------------------------------------
# implementation side
# --------------------------------------------------------------------------


ERRKIND = [("Note end marker found without start marker", "end-without-start"),
           ("Type of start and end marker don't match", "type-mismatch"),
           ("Missing start of @note", "missing-start")]


def impl_adm(A, lines):
    pre = A.AdmonitionPreprocessor(None)
    try:
        return ["ok"] + pre.run(list(lines))
    except A.FordMarkdownError as e:
        msg = str(e)
        for m, k in ERRKIND:
            if m in msg:
                return ["err", k]
        return ["err", "other:" + msg[:40]]
    except IndexError:
        return ["err", "index"]


def impl_find(A, lines):
    pre = A.AdmonitionPreprocessor(None)
    try:
        return ["ok"] + [f"{a.type},{a.start_idx},{a.end_idx}" for a in pre._find_admonitions(list(lines))]
    except A.FordMarkdownError as e:
        msg = str(e)
        for m, k in ERRKIND:
            if m in msg:
                return ["err", k]
        return ["err", "other"]


def enc_meta(meta, rest):
    out = ["ok"]
    for k, vs in meta.items():
        out.append("K:" + k)
        out += ["V:" + v for v in vs]
    return out + ["L:" + l for l in rest]


def parse_entities(fields):
    """Lean `c03.attach` answer -> [(name, {key: [values]}, [doc lines])]"""
    ents = []
    key = None
    for f in fields:
        if f.startswith("E:"):
            ents.append((f[2:], {}, []))
            key = None
        elif f.startswith("K:"):
            key = f[2:]
            ents[-1][1].setdefault(key, [])
        elif f.startswith("V:"):
            ents[-1][1][key].append(f[2:])
        elif f.startswith("L:"):
            ents[-1][2].append(f[2:])
    return ents


def ent_key(it):
    import ford.sourceform as sf

    if isinstance(it, sf.FortranSourceFile):
        return "<file>"
    name = (it.name or "").lower()
    if isinstance(it, sf.FortranModuleProcedureInterface):
        return f"{name}@iface"
    if isinstance(it, sf.FortranInterface) and not name:
        inner = [(r.name or "").lower() for r in list(getattr(it, "subroutines", [])) + list(getattr(it, "functions", []))]
        return "@iblock:" + (min(inner) if inner else "")
    if isinstance(it, sf.FortranModuleProcedureReference):
        return f"{name}@{(it.parent.name or '').lower()}"
    if isinstance(it, sf.FortranFinalProc):
        return f"{name}@final:{(it.parent.name or '').lower()}"
    return name


DISPLAY_ALL = ["public", "protected", "private"]


def run_ford(ford, path: Path, marks, display=None, after_parse=None):
    """Parse one file with the real code; returns (project, md) or raises."""
    import ford.fortran_project
    import ford.sourceform as sf
    from ford._markdown import MetaMarkdown
    from ford.settings import ProjectSettings

    doc, pre, alt, prealt = marks
    kw = {} if display is None else {"display": list(display)}
    s = ProjectSettings(src_dir=[path.parent], preprocess=False, docmark=doc, predocmark=pre,
                        docmark_alt=alt, predocmark_alt=prealt, graph=False, search=False,
                        warn=False, dbg=True, quiet=True, **kw)
    sf.namelist = sf.NameSelector()
    p = ford.fortran_project.Project(s)
    if after_parse is not None:
        after_parse(p)
    p.correlate()
    # as the command line does after ProjectSettings.normalise_paths: project_url = the (absolute) output directory
    md = MetaMarkdown(s.md_base_dir, base_url=str(path.parent / "doc"), extensions=s.md_extensions, aliases={}, project=p)
    return p, md


# Where the pages look for the entities they show: the child collections of every kind of container (the harness's
# own list, on purpose not `FortranContainer.children` / `markdownable_items`).  Cross links (`procedure`,
# `bindings`, `constructor`) are followed too: inside one file they only lead to objects of the same tree.
CHILD_ATTRS = ["modules", "submodules", "programs", "subroutines", "functions", "interfaces", "absinterfaces",
               "types", "variables", "local_variables", "args", "retvar", "boundprocs", "finalprocs", "modprocs",
               "modprocedures", "enums", "common", "blockdata", "namelists", "contents", "procedure", "bindings",
               "constructor"]


def tree_entities(sf, root):
    """Every FortranBase object reachable from the source file through the child collections, once, in
    pre-order.  This is the set of objects whose `doc` a page can show; it is found without looking at
    `_to_be_markdowned`."""
    seen, out = set(), []

    def visit(o):
        if not isinstance(o, sf.FortranBase) or id(o) in seen or hasattr(o, "external_url"):
            return
        seen.add(id(o))
        out.append(o)
        for a in CHILD_ATTRS:
            v = getattr(o, a, None)
            if v is None or isinstance(v, str):
                continue
            if isinstance(v, dict):
                v = list(v.values())
            if isinstance(v, (list, tuple)):
                for x in v:
                    visit(x)
            else:
                visit(v)

    visit(root)
    return out


def str_meta(it):
    m = getattr(it, "meta", None)
    out = {key: getattr(m, key) for key in STR_META if getattr(m, key, None) is not None}
    summ = getattr(m, "summary", None)
    if isinstance(summ, str) and re.search(r"m\d+summary\d+|m \d", summ):
        # after conversion the summary is HTML: what it says is its text, blanks normalised
        from bs4 import BeautifulSoup
        if "<" in summ:
            soup = BeautifulSoup(summ, "html.parser")
            for a in soup.find_all("a", class_="pull-right"):
                a.decompose()  # FORD's own "Read more..." link to the entity's page, not part of the value
            summ = " ".join(soup.get_text().split())
        out["summary"] = summ
    return out


def _safe_url(it):
    try:
        return it.get_url()
    except Exception:  # noqa
        return None


def html_words(html):
    """tracer words of the visible text of an HTML fragment; FORD's own "Read more" link is taken out and
    returned separately (list of href values)"""
    from bs4 import BeautifulSoup
    soup = BeautifulSoup(html or "", "html.parser")
    more = []
    for a in soup.find_all("a", class_="pull-right"):
        more.append(a.get("href", ""))
        a.decompose()
    for sup in soup.find_all("sup"):
        if sup.find("a", class_="footnote-ref"):
            sup.replace_with(" ")
    return TRACER.findall(soup.get_text()), more


def oracle_summary(name, exp, obs):
    """Property oracle for the short form of an entity's documentation (`meta.summary`: what listings, cards of
    types / interfaces and variable tables show).  From the property statement: what is shown for an entity is
    text of its own comment, every word at most once and in order (a contiguous part: the first paragraph); an
    entity that has no place of its own where the complete documentation could be (no URL) shows all of it; a
    shortened summary leads to the complete documentation (link to the entity's URL); with a `summary:` metadata
    the summary is that value (checked with the metadata).  Only evaluated when the documentation itself is right."""
    if not obs.get("conversions") or not obs.get("has_doc"):
        return None
    own = exp[0]
    summ = obs.get("summary")
    if exp[1].get("summary") or obs.get("summary_meta_set"):
        return None
    if not isinstance(summ, str):
        return f"entity {name!r}: converted, but its summary is {summ!r}" if own else None
    words, more = html_words(summ)
    foreign = [w for w in words if w not in own]
    if foreign:
        return f"entity {name!r}: its summary shows words of other comments: {foreign[:6]}"
    k = len(words)
    if words and not any(own[i:i + k] == words for i in range(len(own) - k + 1)):
        return (f"entity {name!r}: its summary shows {words[:8]}, which is not a contiguous part of its comment's "
                f"words {own[:12]} (dropped, duplicated or reordered words)")
    url = obs.get("url")
    if not url and words != own:
        return (f"entity {name!r} has no URL (no page, no place on a page of its own), so its summary is all that is "
                f"shown of its comment, but the summary has {words[:8]} of the comment's words {own[:12]}")
    if url and words != own:
        if len(more) != 1 or not more[0].endswith(url.split("#")[0]) and url not in more[0]:
            return (f"entity {name!r}: its summary is shortened ({len(words)} of {len(own)} words) but does not lead "
                    f"to the complete documentation at {url!r}: links {more}")
    return None


def observe(ford, d: Path, lines, marks, A, captured, skip_attrs=("external_url",), display=None, inherited=(),
            files=None):
    """Real code on one generated file.  Returns dict with per-entity observations or an error.

    Entities are found on two independent routes: the file's registration list `_to_be_markdowned` (creation
    order; what the attach model predicts) and a walk over the entity tree (what the pages show).  Which of them
    were converted, and in which order, is observed by a spy on `FortranBase.markdown`."""
    from bs4 import BeautifulSoup

    for old in list(d.glob("*.f90")) + list(d.glob("*.inc")):
        old.unlink()
    f = d / "c.f90"
    f.write_text("".join(l + "\n" for l in lines))
    for nm, ls in (files or {}).items():
        (d / nm).write_text("".join(l + "\n" for l in ls))
    import ford.sourceform as sf

    handed_meta = {}  # id(entity) -> the docstring as it was handed to read_metadata (last call)
    orig_rm = sf.FortranBase.read_metadata
    orig_md = sf.FortranBase.markdown
    conv_order = []   # objects whose `markdown` ran, in call order
    conv_log: dict = {}  # id(entity) -> [(text handed to md.convert, what it returned)]

    def rm_spy(self):
        handed_meta[id(self)] = list(self.doc_list)
        return orig_rm(self)

    def md_spy(self, md):
        conv_order.append(self)
        return orig_md(self, md)

    parsed = {}
    cand = list(skip_attrs) + [a for a in ("doc",) if a not in skip_attrs]

    def after_parse(p):
        # between parsing and `Project.correlate`: the registration list, every entity's doc lines, metadata
        # and optional attributes as parsing left them
        fs = list(p.allfiles)
        if len(fs) != 1:
            return
        src = fs[0]
        reg = [x for x in getattr(src, "_to_be_markdowned", None) or [] if isinstance(x, sf.FortranBase)]
        if not reg:
            # registration list not readable: fall back to what the project itself would convert
            reg = [x for x in src.markdownable_items if x is not src]
        parsed["reg"] = reg
        parsed["meta"] = {id(x): str_meta(x) for x in [src] + reg}
        parsed["attrs"] = [[a for a in cand if hasattr(x, a)] for x in reg]

    sf.FortranBase.read_metadata = rm_spy
    try:
        with common.quiet():
            p, md = run_ford(ford, f, marks, display, after_parse)
            allfiles = list(p.allfiles)
            if len(allfiles) != 1 or "reg" not in parsed:
                return {"error": f"{len(allfiles)} files parsed (file skipped after a parse error?)"}
            src = allfiles[0]
            # entities registered later (by `correlate`) follow the ones registered while parsing
            at_parse = {id(x) for x in parsed["reg"]}
            late = [x for x in getattr(src, "_to_be_markdowned", None) or []
                    if isinstance(x, sf.FortranBase) and id(x) not in at_parse]
            reg = parsed["reg"] + late
            items = [src] + reg
            pre_md = [(ent_key(it), list(it.doc_list)) for it in items]
            for x in late:
                parsed["meta"][id(x)] = str_meta(x)
                parsed["attrs"].append([a for a in cand if hasattr(x, a)])
            conv_req = [",".join(at + (["inh"] if ent_key(it) in inherited and id(it) in at_parse else [])) or "-"
                        for it, at in zip(reg, parsed["attrs"])]
            placeholder_impl = [str(i) for i, it in enumerate(reg) if hasattr(it, "doc")]
            parsed["meta"][id(src)] = str_meta(src)  # the file's own metadata is read at the end of parsing
            reset_impl = [str(i) for i, it in enumerate(reg)
                          if parsed["meta"][id(it)] and not str_meta(it)]
            had_meta = {str(i) for i, it in enumerate(reg) if parsed["meta"][id(it)]}
            captured.clear()
            sf.FortranBase.markdown = md_spy
            orig_convert = md.convert

            def convert_spy(text, *a, **kw):
                out = orig_convert(text, *a, **kw)
                ctx = kw.get("context", a[0] if a else None)
                conv_log.setdefault(id(ctx), []).append((text, out))
                return out

            md.convert = convert_spy
            p.markdown(md)
            sf.FortranBase.markdown = orig_md
            known = {id(x) for x in items}
            extra = [x for x in tree_entities(sf, src) if id(x) not in known]
    except Exception as e:  # noqa
        return {"error": f"{type(e).__name__}: {str(e)[:300]}"}
    finally:
        sf.FortranBase.read_metadata = orig_rm
        sf.FortranBase.markdown = orig_md
    n_conv: dict = {}
    for x in conv_order:
        n_conv[id(x)] = n_conv.get(id(x), 0) + 1
    ents, by_id = [], {}
    n_parse = 1 + len(parsed["reg"])
    for it, (k, dl), origin in [(it, kd, "registered" if i < n_parse else "registered-by-correlate")
                                for i, (it, kd) in enumerate(zip(items, pre_md))] + \
                               [(x, (ent_key(x), list(getattr(x, "doc_list", []))), "tree-only") for x in extra]:
        meta = str_meta(it)
        raw = getattr(it, "doc", None)
        has_doc = isinstance(raw, str)
        raw = raw if has_doc else ""
        soup = BeautifulSoup(raw, "html.parser")
        for sup in soup.find_all("sup"):
            # the number of a footnote reference is not a word of the comment (and would glue to the word before)
            if sup.find("a", class_="footnote-ref"):
                sup.replace_with(" ")
        text = soup.get_text()
        links = [a.get("href", "") for a in soup.find_all("a")
                 if not ({"footnote-ref", "footnote-backref"} & set(a.get("class") or []))]
        foots = []
        for div in soup.find_all("div", class_="footnote"):
            for li in div.find_all("li"):
                foots.append(" ".join(li.get_text().replace("\u21a9", " ").split()))
        titles = [x.get("title", "") for x in soup.find_all("abbr")]
        e = {"key": k, "doc_list": dl, "raw_doc_list": handed_meta.get(id(it), []), "meta": meta,
             "words": TRACER.findall(text), "metawords": re.findall(r"m\d+[a-z]+\d+", raw),
             "raw_words": TRACER.findall(raw), "links": links, "foots": foots, "abbr_titles": titles,
             "abbr_title_words": TRACER.findall(" ".join(titles)),
             "meta_parsed": parsed["meta"].get(id(it), meta), "raw_doc": raw[:80],
             "origin": origin, "has_doc": has_doc, "conversions": n_conv.get(id(it), 0),
             "doc_full": raw, "url": _safe_url(it), "summary": getattr(getattr(it, "meta", None), "summary", None),
             "converted": [o for _, o in conv_log.get(id(it), [])],
             "summary_meta_set": "summary" in (parsed["meta"].get(id(it)) or {}),
             "kind": type(it).__name__, "parent": (getattr(getattr(it, "parent", None), "name", "") or "").lower()}
        by_id[id(it)] = e
        ents.append(e)
    idx = {id(x): i for i, x in enumerate(reg)}
    conv_impl = ["F" if x is src else str(idx[id(x)]) if id(x) in idx else "?" + ent_key(x) for x in conv_order]
    return {"ents": ents, "n_registered": n_parse, "handed": {tuple(c) for c in captured},
            "conv_req": conv_req, "conv_impl": conv_impl, "placeholder_impl": placeholder_impl,
            "reset_impl": reset_impl, "had_meta": had_meta,
            "conv_ents": [by_id[id(x)] for x in conv_order if id(x) in by_id]}


# --------------------------------------------------------------------------
# findings
# --------------------------------------------------------------------------


def classify(feat, key="", kind=None, abbr_before=(), raw_doc_list=(), obs=None):
    """Known defect classes (known_findings/C03.json); None = not a known class.
    `kind` is the kind of oracle failure, `abbr_before` the abbreviation tokens defined by comments that were
    converted before this entity's."""
    if kind == "foreign-abbr-title":
        # only excused when the comment uses, without defining it, an abbreviation token that an earlier
        # comment defined, and the foreign words sit in <abbr title> attributes and nowhere else
        leaked = {t for t in abbr_before if "abbr-use:" + t in feat and "abbr-def:" + t not in feat}
        return "C03-abbreviation-leaks-to-later-entities" if leaked else None
    if kind in ("foreign-attr", "attr-word-shown"):
        return None
    if kind == "summary":
        # only excused: an entity without URL whose rendered documentation has no paragraph at all (only a
        # list / a code block) and whose summary is empty
        if obs is not None and not obs.get("url") and obs.get("summary") == "" and \
                "<p>" not in (obs.get("doc_full") or "").lower():
            return "C03-summary-empty-without-paragraph-and-url"
        return None
    if kind == "words-or-meta" and obs is not None and obs.get("oracle_detail") == "words" and \
            "generic-binding-of-extended-type" in feat and obs.get("kind") == "FortranBoundProcedure" and \
            obs.get("origin") == "tree-only" and not obs.get("has_doc") and not obs.get("conversions"):
        # the object is the copy of a base type's generic binding that `correlate` puts into an extending type;
        # it is in no registration list, was never converted and has no `doc` attribute at all
        return "C03-inherited-generic-binding-undocumented"
    if kind == "words-or-meta" and obs is not None and obs.get("oracle_detail") == "meta-not-set" and \
            "public-component-of-extended-type" in feat and obs.get("kind") == "FortranVariable" and \
            obs.get("meta_parsed") and not obs.get("meta"):
        # the comment's metadata was set by parsing and is gone after `correlate`: only for a public component
        # of a type that another type extends
        return "C03-inherited-component-metadata-reset"
    if kind == "words-or-meta" and "oneline-colon-text" in feat and len(raw_doc_list) > 1 and \
            ":" in raw_doc_list[0] and not any(l.strip() for l in raw_doc_list[1:]):
        return "C03-oneline-text-with-colon-lost-before-blank-line"
    if "text-before-note" in feat:
        return "C03-text-before-note-dropped"
    if (key.endswith("@iface") or key.startswith("@iblock:")) and ("meta-header" in feat or "oneline-meta" in feat) \
            and obs is not None and \
            obs.get("kind") in ("FortranModuleProcedureInterface", "FortranInterface") and kind == "words-or-meta" and \
            (obs.get("oracle_detail") == "meta-not-set" and key.endswith("@iface")
             or obs.get("oracle_detail") == "words" and "colon-line-after-header" in feat):
        # the comment of an interface block with a metadata header: its metadata does not reach the interfaces
        # the block declares, and their second read_metadata eats a first body line `Word: text`
        return "C03-interface-block-metadata-not-applied"
    if "@" in key and "@final:" not in key and not key.endswith("@iface") and not key.startswith("@iblock:") and \
            "meta-header" in feat:
        return "C03-modproc-metadata-not-split"
    return None


# --------------------------------------------------------------------------
# streams
# --------------------------------------------------------------------------

JUNK = ["@note", "@endnote", "@warning x", "@endbug", "  @todo", "text @note y", "x@endnote", "@end", "@",
        "@notes", "@ENDNOTE z", "", " ", "a b", "    code", "@note@endnote", "@endnote @note q", "\t@bug",
        "@Bug b", "@endBUG", "@history", "@endhistory tail", "pre @endtodo", "@todo", "@endtodo", "- item",
        "@note a @endnote b", "  ", "@ note", "@endwarning", "@warning", "q @bug r @endbug s"]


def micro_streams(ford, drv, rng, n, rep, hist):
    import ford.md_admonition as A
    import ford.utils as U

    reqs, exp, what = [], [], []
    for k in range(n):
        feat = set()
        tr = Tracer(k)
        r = rng.random()
        if r < 0.55:
            body = gen_body(rng, tr, feat, max_blocks=5)
            src = "grammar"
        elif r < 0.8:
            body = [rng.choice(JUNK) for _ in range(rng.randint(1, 7))]
            src = "junk"
        else:
            body = gen_body(rng, tr, feat, max_blocks=3)
            for _ in range(rng.randint(1, 2)):
                body.insert(rng.randint(0, len(body)), rng.choice(JUNK))
            src = "grammar+junk"
        if rng.random() < 0.15:
            body = [("  " if l else "") + l for l in body]
        e = impl_adm(A, body)
        reqs.append(["c03.adm", *body]); exp.append(e); what.append("adm")
        hist["adm:" + src + ":" + ("ok" if e[0] == "ok" else e[1])] = hist.get("adm:" + src + ":" + ("ok" if e[0] == "ok" else e[1]), 0) + 1
        for f in feat:
            hist["admfeat:" + f] = hist.get("admfeat:" + f, 0) + 1
        reqs.append(["c03.find", *body]); exp.append(impl_find(A, body)); what.append("find")
        # dedent
        ind = rng.choice(["", " ", "  ", "\t", " \t"])
        dl = [(ind + rng.choice(["", " ", "   "]) if l or rng.random() < 0.3 else "") + l for l in body]
        reqs.append(["c03.dedent", *dl]); exp.append(["ok"] + textwrap.dedent("\n".join(dl)).split("\n")); what.append("dedent")
        # meta
        hl = []
        for _ in range(rng.randint(0, 3)):
            hl.append(rng.choice(["", " ", "   ", "    "]) + rng.choice(["author", "Key-1", "a_b", "x y", "", "sum mary", "date"])
                      + rng.choice([":", ": ", " :", ":  ", ""]) + rng.choice(["", "v1", "v 2 ", " v:3"]))
            if rng.random() < 0.3:
                hl.append(rng.choice(["    ", "     ", "   ", "\t"]) + rng.choice(["more", "k: v", ""]))
        if rng.random() < 0.2:
            hl.insert(0, rng.choice(["---", "--- x", "----", "--"]))
        if rng.random() < 0.3:
            hl.append(rng.choice(["", "---", "...", "... x", "  "]))
        ml = hl + body[:3]
        meta, rest = U.meta_preprocessor(list(ml))
        reqs.append(["c03.meta", *ml]); exp.append(enc_meta(meta, rest)); what.append("meta")
    got = drv.batch(reqs)
    bad = 0
    for r, e, g, w in zip(reqs, exp, got, what):
        g = g[:2] if g[0] == "err" else g
        if r[0] == "c03.dedent" and len(r) == 1:
            continue
        if e != g:
            bad += 1
            rep.tie_broken(f"correspondence micro/{w}: model {g[:6]} vs implementation {e[:6]} on {r[1:]!r}",
                           {"stream": "micro/" + w, "request": r, "impl": e, "model": g})
    return len(reqs), bad


def modproc_variant(ford):
    """Which variant of get_mod_procs the working tree has (decided on the finding's witness)."""
    wit = ["module m", "interface g", "module procedure s", "!! author: A", "!!", "!! text", "end interface",
           "contains", "subroutine s()", "end subroutine", "end module"]
    with common.scratch_dir() as d:
        f = d / "w.f90"
        f.write_text("\n".join(wit) + "\n")
        try:
            with common.quiet():
                p, _ = run_ford(ford, f, DEFAULT_MARKS)
                for it in list(p.allfiles)[0].markdownable_items:
                    if type(it).__name__ == "FortranModuleProcedureReference":
                        return "repaired" if it.meta.author == "A" else "asis"
        except Exception:
            pass
    return "asis"


def impl_rmeta(ford, doc_list):
    """The real `FortranBase.read_metadata` on a bare entity: (string metadata it set, remaining doc_list)."""
    import ford.sourceform as sf
    from ford.settings import ProjectSettings

    class _Bare(sf.FortranBase):
        filename = "bare.f90"

        def __init__(self):
            pass

        def _set_display(self):
            pass

    e = _Bare()
    e.settings = ProjectSettings(warn=False, quiet=True)
    e.doc_list = list(doc_list)
    e.name = "bare"
    e.obj = "variable"
    try:
        with common.quiet():
            e.read_metadata()
    except Exception as x:  # noqa
        return ["err", type(x).__name__]
    out = ["ok"]
    for k in STR_META:
        v = getattr(e.meta, k)
        if v is not None:
            out += ["K:" + k, *["V:" + x for x in str(v).split("\n")]]
    return out + ["L:" + l for l in e.doc_list]


def variants(ford):
    """Which of the repairs proposed in fixes/C03-*.diff the working tree has, decided on the findings'
    witnesses: flags 'm' (modproc metadata), 'o' (one-line rule ignores trailing empty lines),
    'a' (MetaMarkdown.reset removes abbreviation patterns), 'i' (an inherited component keeps the metadata of
    its own comment), 'g' (the copy of an inherited generic binding is registered for conversion), 'w' (the interfaces declared
    by an interface block take the block's metadata instead of reading the rest of its comment again)."""
    from ford._markdown import MetaMarkdown

    flags = ""
    if modproc_variant(ford) == "repaired":
        flags += "m"
    if impl_rmeta(ford, ["Note: must be positive", ""])[-2:] == ["L:Note: must be positive", "L:"]:
        flags += "o"
    wit = ["module m", "type :: base", "integer :: a", "!! author: Jane", "!!", "!! text of a", "end type",
           "type, extends(base) :: child", "end type", "end module"]
    with common.scratch_dir() as d:
        f = d / "w.f90"
        f.write_text("\n".join(wit) + "\n")
        try:
            with common.quiet():
                p, _ = run_ford(ford, f, DEFAULT_MARKS)
                for it in list(p.allfiles)[0].markdownable_items:
                    if type(it).__name__ == "FortranVariable" and it.name == "a" and it.meta.author == "Jane":
                        flags += "i"
        except Exception:
            pass
    wit = ["module m", "interface", "!! author: Jane", "!!", "!! text", "subroutine f()", "end subroutine",
           "end interface", "end module"]
    with common.scratch_dir() as d:
        f = d / "w.f90"
        f.write_text("\n".join(wit) + "\n")
        try:
            with common.quiet():
                p, _ = run_ford(ford, f, DEFAULT_MARKS)
                for it in list(p.allfiles)[0].markdownable_items:
                    if type(it).__name__ == "FortranModuleProcedureInterface" and it.meta.author == "Jane":
                        flags += "w"
        except Exception:
            pass
    wit = ["module m", "type :: ty1", "contains", "procedure :: b1 => s1", "generic :: g => b1", "!! doc g", "end type",
           "type, extends(ty1) :: ty2", "end type", "contains", "subroutine s1(x)", "class(ty1) :: x", "end subroutine",
           "end module"]
    with common.scratch_dir() as d:
        f = d / "w.f90"
        f.write_text("\n".join(wit) + "\n")
        try:
            with common.quiet():
                p, _ = run_ford(ford, f, DEFAULT_MARKS)
                if sum(1 for it in list(p.allfiles)[0].markdownable_items
                       if type(it).__name__ == "FortranBoundProcedure" and it.name == "g") == 2:
                    flags += "g"
        except Exception:
            pass
    try:
        md = MetaMarkdown()
        md.reset().convert("ABX one\n\n*[ABX]: words of a")
        if "<abbr" not in md.reset().convert("ABX two"):
            flags += "a"
    except Exception:
        pass
    try:
        from translate import c03 as T
        import ford.sourceform as sf
        if T.markdown_summary(sf, "<ul>\n<li>x</li>\n</ul>", None)[0] == "<ul>\n<li>x</li>\n</ul>":
            flags += "p"
    except Exception:
        pass
    return flags or "-"


SUMMARY_ATOMS = ["<p>", "</p>", "<P>", "</P>", "<p", "p>", "</p", "<p >", "</ p>", "<pre>", "</pre>", "<p><p>", "</p></p>",
                 "t1q0", "t1q1 t1q2", " ", "\n", "  ", "<ul>\n<li>t1q3</li>\n</ul>", "<div class=\"alert\">", "</div>",
                 "<em>t1q4</em>", "<", ">", "/", "\n\n", "<li>"]


def summary_stream(ford, drv, rng, n, rep, hist, flags):
    """`FortranBase.markdown`, the part after the conversion (which `meta.summary` an entity gets), vs Lean
    `summaryOfV`: the real method on a bare entity with a stand-in Markdown instance whose `convert` returns a
    generated HTML text (paragraph tags in both letter cases, unclosed / nested / split tags, text around them,
    leading and trailing blanks), with and without URL, with and without a `summary:` metadata; and
    `PARA_CAPTURE_RE.search` itself vs Lean `paraCapture`."""
    from translate import c03 as T
    import ford.sourceform as sf

    reqs, exp = [], []
    rx = getattr(sf, "PARA_CAPTURE_RE", None)
    for k in range(n):
        r = rng.random()
        if r < 0.5:
            # what Markdown returns: blocks separated by newlines
            blocks = []
            for _ in range(rng.randint(0, 3)):
                blocks.append(rng.choice(["<p>t1q0 t1q1</p>", "<p>t1q2\nt1q3</p>", "<ul>\n<li>t1q4</li>\n</ul>",
                                          "<pre><code>t1q5\n</code></pre>", "<div class=\"alert alert-info\">\n<p>t1q6</p>\n</div>",
                                          "<ul>\n<li>\n<p>t1q7</p>\n</li>\n</ul>", "<h2>t1q8</h2>"]))
            doc = "\n".join(blocks) + rng.choice(["", "", "\n", " "])
        else:
            doc = "".join(rng.choice(SUMMARY_ATOMS) for _ in range(rng.randint(0, 7)))
        url = rng.choice([None, None, "proc/s1.html", "module/m1.html#variable-v2", "type/ty3.html"])
        if rng.random() < 0.25:
            ms_raw = "m1summary5"
            ms = rng.choice(["<p>m1summary5</p>", doc, doc.strip(), " " + doc + "\n", "", "m1summary5"])
        else:
            ms_raw = ms = None
        try:
            got, handed = T.markdown_summary(sf, doc, url, ms_raw, ms)
            e = ["ok", got if isinstance(got, str) else "<" + repr(got) + ">"]
            if ms_raw is not None and handed[1:] != [ms_raw]:
                e = ["err", "summary-metadata-not-converted-once"]
        except Exception as x:  # noqa
            e = ["err", type(x).__name__]
        reqs.append(["c03.summary", flags, doc, "-" if url is None else "U" + url, "-" if ms is None else "S" + ms])
        exp.append(e)
        key = "summary:" + ("summary-metadata" if ms is not None else "paragraph" if "<p>" in doc.lower() and "</p>" in doc.lower() else "no-paragraph") \
            + (":url" if url else ":no-url")
        hist[key] = hist.get(key, 0) + 1
        if rx is not None:
            m = rx.search(doc)
            reqs.append(["c03.para", doc])
            exp.append(["none"] if m is None else ["ok", doc[:m.start()], m.group(), doc[m.end():]])
    got = drv.batch(reqs)
    bad = 0
    for r, e, g in zip(reqs, exp, got):
        if e != g:
            bad += 1
            if bad <= 5:
                rep.tie_broken(f"correspondence micro/{r[0][4:]}: model {g[:4]} vs implementation {e[:4]} on {r[1:]!r}"[:600],
                               {"stream": "micro/" + r[0][4:], "request": r, "impl": e, "model": g})
    return len(reqs), bad


def rmeta_model_fields(g):
    """keep only what impl_rmeta reports: string metadata keys and the doc lines"""
    if g[0] != "ok":
        return g
    out, keep = ["ok"], False
    for f in g[1:]:
        if f.startswith("K:"):
            keep = f[2:] in STR_META
        if f.startswith("L:") or keep:
            out.append(f)
    return out


def rmeta_stream(ford, drv, rng, n, rep, hist, flags):
    """`FortranBase.read_metadata` (one-line rule + meta_preprocessor) vs Lean `readMetadata`, on short doc lists
    around the one-line rule: keys from the EntitySettings table in every spelling, names near the table."""
    reqs, exp = [], []
    near = ONELINE_TEXT_KEYS + NONFIELD_ATTRS + [k + "s" for k in STR_META] + ["x" + k for k in STR_META]
    for i in range(n):
        r = rng.random()
        if r < 0.45:
            key = case_variant(rng, rng.choice(STR_META))
            cls = "known-key"
        elif r < 0.9:
            key = rng.choice(near)
            if rng.random() < 0.3:
                key = case_variant(rng, key)
            cls = "near-key"
        else:
            key = rng.choice(["", "a b", "Key-1", "[^1]", "http"])
            cls = "odd-key"
        line = rng.choice(["", "", "", " ", "   ", "    "]) + key + rng.choice(["", "", " "]) + ":" + \
            rng.choice([" ", "", "  "]) + rng.choice(["v1", "two words", "", "a: b", "//x.y/z"])
        doc = [line]
        r = rng.random()
        if r < 0.3:
            doc += [rng.choice(["", " ", "  "]) for _ in range(rng.randint(1, 2))]
            cls += "+trailing-blank"
        elif r < 0.45:
            doc += [rng.choice(["text", "    more", "other: w", ""]), rng.choice(["tail", ""])]
            cls += "+more-lines"
        hist["rmeta:" + cls] = hist.get("rmeta:" + cls, 0) + 1
        reqs.append(["c03.rmeta", flags, *doc])
        exp.append(impl_rmeta(ford, doc))
    got = drv.batch(reqs)
    bad = 0
    for r, e, g in zip(reqs, exp, got):
        g = rmeta_model_fields(g)
        if e != g:
            bad += 1
            rep.tie_broken(f"correspondence micro/rmeta: model {g[:6]} vs implementation {e[:6]} on {r[2:]!r}",
                           {"stream": "micro/rmeta", "request": r, "impl": e, "model": g})
    return len(reqs), bad


def impl_read(path, marks):
    """list(FortranReader(path)) with errors mapped to the model's enum."""
    from ford.reader import FortranReader

    try:
        with common.quiet():
            return ["ok"] + list(FortranReader(str(path), *marks))
    except ValueError as e:
        msg = str(e)
        if "Preceding documentation lines" in msg:
            return ["err", "predoc-inline"]
        if "Alternate documentation" in msg:
            return ["err", "alt-inline"]
        if "Can not start a new line" in msg:
            return ["err", "amp-start"]
        return ["err", "ValueError:" + msg[:60]]
    except RuntimeError as e:
        if "Preceding alternate documentation" in str(e):
            return ["err", "predoc-alt-inline"]
        return ["err", "RuntimeError:" + str(e)[:60]]
    except Exception as e:  # noqa
        return ["err", type(e).__name__ + ":" + str(e)[:60]]


def reads_as_code(path, s):
    """Is the reader inside a character literal after the text `x<s>`?  Asked of the reader itself: the statement is
    continued, and the continuation line is `&!! probe` - documentation exactly when the reader is not inside
    a literal."""
    from ford.reader import FortranReader

    path.write_text("x" + s + " &\n&!! probe\ny = 1\n")
    try:
        with common.quiet():
            items = list(FortranReader(str(path), *DEFAULT_MARKS))
    except Exception as e:  # noqa
        return "err:" + type(e).__name__
    return "0" if "!! probe" in items else "1"


def inquote_stream(ford, drv, rng, tier, rep, hist):
    """The reader's test "is the statement collected so far inside a character literal" (it decides whether a
    `!` + marker on the next physical line is looked for at all) vs Lean `unterminated`: EVERY string over
    {', ", a} up to length 8 (quick; 9 thorough) through the function that `FortranReader.__next__` calls, every
    such string up to length 6 through the reader itself (continuation line `&!! probe`), plus random longer ones."""
    import itertools
    import ford.reader as R

    fn = getattr(R, "_contains_unterminated_string", None)
    maxlen = 8 if tier == "quick" else 9
    strs = ["".join(t) for k in range(maxlen + 1) for t in itertools.product("'\"a", repeat=k)]
    strs += ["".join(rng.choice("'\"ab !") for _ in range(rng.randint(10, 30))) for _ in range(2000)]
    reqs, exp, how = [], [], []
    if callable(fn):
        for t in strs:
            try:
                e = "1" if fn(t) else "0"
            except Exception as x:  # noqa
                e = "err:" + type(x).__name__
            reqs.append(["unterm", t]); exp.append(e); how.append("function")
    else:
        hist["inquote:function-not-found-reader-only"] = 1
    with common.scratch_dir() as d:
        f = d / "q.f90"
        short = [t for t in strs if len(t) <= (6 if callable(fn) else 7) and "!" not in t]
        for t in short:
            reqs.append(["unterm", "x" + t + " "]); exp.append(reads_as_code(f, t)); how.append("reader")
    got = drv.batch(reqs)
    bad = 0
    for r, e, g, h in zip(reqs, exp, got, how):
        hist["inquote:" + h + ":" + e] = hist.get("inquote:" + h + ":" + e, 0) + 1
        if ["ok", e] != g:
            bad += 1
            if bad <= 5:
                rep.tie_broken(f"correspondence micro/inquote ({h}): is the reader inside a character literal after {r[1]!r}? "
                               f"model {g} vs implementation {e}",
                               {"stream": "micro/inquote", "request": r, "impl": e, "model": g})
    return len(reqs), bad


def docblock_stream(ford, drv, rng, n, rep, hist):
    """Mode switching of the reader: short runs of comment lines in EVERY marker form, in every order (also the
    combinations nobody documents), between statements -> list(FortranReader) vs Lean `readAll`, exact.  What
    the reader does with a marker line depends on the block it is in (`reading_predoc`, `reading_predoc_alt`,
    `reading_alt`, `prevdoc`); this stream walks that state space directly."""
    reqs, exp = [], []
    with common.scratch_dir() as d:
        f = d / "r.f90"
        for k in range(n):
            marks = DEFAULT_MARKS if rng.random() < 0.5 else tuple(rng.sample(MARK_POOL, 4))
            doc, pre, alt, prealt = marks
            lines, shape = [], []
            for _ in range(rng.randint(2, 8)):
                ind = rng.choice(["", "", "  "])
                r = rng.random()
                w = f"w{len(lines)}"
                if r < 0.5:
                    i = rng.randrange(4)
                    lines.append(ind + "!" + marks[i] + rng.choice([" ", ""]) + rng.choice([w, w, ""]))
                    shape.append("DPAQ"[i])  # D doc, P pre, A alt, Q pre-alt
                elif r < 0.65:
                    lines.append(ind + rng.choice(["! " + w, "!", "!" + w]))
                    shape.append("c")
                elif r < 0.75:
                    lines.append(rng.choice(["", "  "]))
                    shape.append("b")
                elif r < 0.9:
                    lines.append(ind + rng.choice(["x = 1", "integer :: v", "call s(1); y = 2", "end"]))
                    shape.append("s")
                elif r < 0.93:
                    lines.append(ind + "x = 1 " + rng.choice(["!" + doc + " " + w, "! " + w, "!" + doc]))
                    shape.append("i")
                elif r < 0.96:
                    # character literals that hold comment look-alikes, on one line or continued inside the
                    # literal (with the other quote character in an earlier literal of the statement)
                    q = rng.choice("'\"")
                    o = '"' if q == "'" else "'"
                    mk = "!" + rng.choice([doc, pre, alt, prealt, ""])
                    first = rng.choice([f"c = {q}a {mk} {w}{q}", f"c = {o}say {q}{o} // {q}b {mk} {w}{q}",
                                        f"c = {q}it{q}{q}s {mk}{q} // {o}{q} {w}{o}"])
                    if rng.random() < 0.5:
                        lines.append(ind + first)
                        shape.append("q")
                    else:
                        first = first[:-1] + " &"
                        lines += [ind + first, ind + rng.choice(["&", "  &"]) + rng.choice(["", "z "]) + mk + " " + w + q]
                        shape.append("Q")
                elif r < 0.98:
                    lines.append(ind + "x = 1 !" + rng.choice([pre, alt, prealt]) + " " + w)
                    shape.append("e")
                else:
                    lines += [ind + "x = &", ind + rng.choice(["& 1", "  2"])]
                    shape.append("k")
            lines.append("z = 0")
            files = {}
            if rng.random() < 0.25 and len(lines) > 2:
                # the same run of lines with a part of it moved into an include file: the nested reader must
                # read it under the same marker configuration
                a = rng.randrange(0, len(lines) - 1)
                b = rng.randrange(a + 1, len(lines))
                cont = [i for i, l in enumerate(lines) if l.rstrip().endswith("&")]
                if not any((a <= i < b) != (a <= i + 1 < b) for i in cont):
                    files = {"r.inc": lines[a:b]}
                    lines = lines[:a] + [rng.choice(["include 'r.inc'", 'INCLUDE "r.inc"', "  include 'r.inc'"])] + lines[b:]
                    hist["reader:with-include-file"] = hist.get("reader:with-include-file", 0) + 1
            for old in d.glob("*.inc"):
                old.unlink()
            for nm, ls in files.items():
                (d / nm).write_text("".join(l + "\n" for l in ls))
            f.write_text("".join(l + "\n" for l in lines))
            e = impl_read(f, marks)
            key = "".join(shape)
            for a, b in zip(key, key[1:]):
                if a in "DPAQ" and b in "DPAQcb":
                    hist["reader-switch:" + a + b] = hist.get("reader-switch:" + a + b, 0) + 1
            hist["reader:" + ("ok" if e[0] == "ok" else e[1])] = hist.get("reader:" + ("ok" if e[0] == "ok" else e[1]), 0) + 1
            if files:
                reqs.append(["c03.readfs", *marks, "1", "r.inc", str(len(files["r.inc"])), *files["r.inc"], *lines])
            else:
                reqs.append(["read", *marks, *lines])
            exp.append(e)
    got = drv.batch(reqs)
    bad = 0
    for r, e, g in zip(reqs, exp, got):
        if e != g:
            bad += 1
            rep.tie_broken(f"correspondence micro/reader: model {g[:8]} vs implementation {e[:8]} on marks {r[1:5]} "
                           f"{'include file + ' if r[0] == 'c03.readfs' else ''}lines {r[5:]!r}",
                           {"stream": "micro/reader", "request": r, "impl": e, "model": g})
    return len(reqs), bad


def oracle_entity(name, exp, obs):
    """Property oracle for one entity: (None, None) or (description of the failure, kind)."""
    why, detail = _oracle_words_meta(name, exp, obs)
    if why:
        obs["oracle_detail"] = detail
        return why, "words-or-meta"
    words, attrs = exp[0], exp[3]
    own = set(words) | set(attrs)
    foreign = [w for w in obs["raw_words"] if w not in own]
    if foreign:
        # every foreign occurrence in the HTML is an occurrence inside an <abbr title="...">
        only_abbr = sorted(foreign) == sorted(w for w in obs["abbr_title_words"] if w not in own)
        return (f"entity {name!r}: its rendered HTML carries words of other comments outside the visible text "
                f"(link targets, titles, ids): {foreign[:6]}"), ("foreign-abbr-title" if only_abbr else "foreign-attr")
    return None, None


def _oracle_words_meta(name, exp, obs):
    words, meta = exp[0], exp[1]
    if obs["words"] != words:
        missing = [w for w in words if w not in obs["words"]]
        foreign = [w for w in obs["words"] if w not in words]
        dup = sorted({w for w in obs["words"] if obs["words"].count(w) > 1})
        how = ""
        if not obs.get("has_doc", True):
            how = " (the object has no `doc` at all: its comment was never converted)"
        elif not obs.get("conversions", 1):
            how = f" (the object was never converted; its `doc` is {obs.get('raw_doc', '')[:60]!r})"
        return (f"entity {name!r}: rendered tracer words differ from its comment: missing={missing[:6]} "
                f"foreign={foreign[:6]} duplicated={dup[:6]} "
                f"{'reordered' if not missing and not foreign and not dup else ''}" + how), "words"
    if obs["metawords"]:
        return f"entity {name!r}: metadata shown in the rendered doc: {obs['metawords'][:4]}", "meta-shown"
    for k, vs in meta.items():
        if obs["meta"].get(k) != "\n".join(vs):
            return f"entity {name!r}: metadata {k!r} is {obs['meta'].get(k)!r}, comment says {vs!r}", "meta-not-set"
    return None, None


def attach_request(flags, marks, lines, files):
    if not files:
        return ["c03.attach", flags, *marks, *lines]
    r = ["c03.attachfs", flags, *marks, str(len(files))]
    for nm, ls in files.items():
        r += [nm, str(len(ls)), *ls]
    return r + list(lines)


def program_stream(ford, drv, rng, n, rep, hist, samples, distinct, replay_case=None, flags="-",
                   skip_attrs=("external_url",)):
    import ford.md_admonition as A

    captured = []
    orig_run = A.AdmonitionPreprocessor.run

    def spy(self, lines):
        captured.append(list(lines))
        return orig_run(self, lines)

    A.AdmonitionPreprocessor.run = spy
    n_corr = n_orc = n_ent = 0
    cases = []
    try:
        if replay_case is not None:
            cases.append((replay_case["lines"],
                          {k: (v[0], v[1], set(v[2]), list(v[3]) if len(v) > 3 else [])
                           for k, v in replay_case["expected"].items()},
                          tuple(replay_case["marks"]), set(replay_case.get("layout", [])),
                          replay_case.get("display"), replay_case.get("files") or {}))
        else:
            for k in range(n):
                g = ProgGen(rng)
                nodes = g.file()
                for variant in range(2):
                    marks = DEFAULT_MARKS if rng.random() < 0.5 else tuple(rng.sample(MARK_POOL, 4))
                    uniform = rng.choice([None, None] + STYLES) if variant else None
                    assign_styles(rng, nodes, uniform)
                    layout = set()
                    files: dict = {}
                    lines, expected = render(rng, nodes, marks, layout, files)
                    if marks != DEFAULT_MARKS:
                        layout.add("alternative-marker-characters")
                    # `display` decides which entities the pages list (private ones are pruned from the
                    # collections by default); the conversion of comments must not depend on it
                    display = DISPLAY_ALL if rng.random() < 0.5 else None
                    layout.add("display:" + ("all" if display else "default"))
                    cases.append((lines, expected, marks, layout, display, files))
        model = drv.batch([attach_request(flags, marks, lines, files) for lines, _, marks, _, _, files in cases])
        pipe_reqs, pipe_ctx = [], []
        summ_reqs, summ_ctx = [], []
        md_reqs, md_ctx = [], []
        conv_reqs, conv_ctx = [], []
        with common.scratch_dir() as d:
            for ci, ((lines, expected, marks, layout, display, files), mo) in enumerate(zip(cases, model)):
                inherited = {k for k, v in expected.items() if "public-component-of-extended-type" in v[2]}
                obs = observe(ford, d, lines, marks, A, captured, skip_attrs, display, inherited, files)
                for f in layout:
                    hist["layout:" + f] = hist.get("layout:" + f, 0) + 1
                case = {"stream": "program", "lines": lines, "marks": list(marks), "layout": sorted(layout),
                        "display": display, "files": files,
                        "expected": {k: [v[0], v[1], sorted(v[2]), v[3]] for k, v in expected.items()}}
                allfeat = set().union(*[v[2] for v in expected.values()]) if expected else set()
                if "error" in obs:
                    n_orc += 1
                    rep.failing_input(dict(case, why="the real code raised: " + obs["error"]), classify(allfeat))
                    if mo[0] == "ok":
                        n_corr += 1
                        rep.tie_broken(f"correspondence program: implementation raised {obs['error'][:80]}, model did not", case)
                    continue
                # ---- correspondence: attach
                m_ents = parse_entities(mo[1:]) if mo[0] == "ok" else None
                reg_ents = obs["ents"][:obs["n_registered"]]  # the file + its registration list, creation order
                i_ents = [(e["key"], e["doc_list"]) for e in reg_ents]
                if m_ents is None:
                    n_corr += 1
                    rep.tie_broken(f"correspondence program: model reader error {mo} but implementation parsed the file", case)
                else:
                    mm = [((n if n != "<file>" else "<file>"), dl) for n, _, dl in m_ents]
                    # module-procedure references are keyed name@interface on the implementation side
                    ii = [(k.split("@")[0], dl) for k, dl in i_ents]
                    if mm != ii:
                        n_corr += 1
                        diff = next(((a, b) for a, b in zip(mm, ii) if a != b), (len(mm), len(ii)))
                        rep.tie_broken(f"correspondence program/attach: model and implementation differ: {str(diff)[:200]}",
                                       dict(case, model=mm, impl=ii))
                    else:
                        for (n_, mmeta, _), e in zip(m_ents, reg_ents):
                            # (the attach model ends where parsing ends; what `correlate` does to the metadata
                            # afterwards is the conversion model's part, see program/convert)
                            want = {k: "\n".join(v) for k, v in mmeta.items() if k in STR_META or k == "summary"}
                            if want != e["meta_parsed"]:
                                n_corr += 1
                                rep.tie_broken(f"correspondence program/meta: entity {n_!r} model {want} vs implementation {e['meta_parsed']}", case)
                # ---- pipeline requests (model of dedent + admonition pre-processing on the real doc_list)
                for e in reg_ents:
                    dl = e["doc_list"]
                    if not "\n".join(dl).strip():
                        continue
                    src = textwrap.dedent("\n".join(dl)).split("\n")
                    if tuple(src) not in obs["handed"]:
                        n_corr += 1
                        rep.tie_broken(f"correspondence program/handed: Markdown was not handed dedent(doc_list) for {e['key']!r}", case)
                    pipe_reqs.append(["c03.pipeline", *dl])
                    pipe_ctx.append((impl_adm(A, src), case, e["key"]))
                # ---- request for the model of the shared Markdown instance: all comments in conversion order
                req = ["c03.mdstate", flags]
                for e in obs["conv_ents"]:
                    req.append("E")
                    req += ["L" + l for l in textwrap.dedent("\n".join(e["doc_list"])).split("\n")]
                md_reqs.append(req)
                md_ctx.append((case, [(e["key"], e["links"], [" ".join(x.split()) for x in e["foots"]],
                                       [" ".join(x.split()) for x in e["abbr_titles"]]) for e in obs["conv_ents"]]))
                # ---- request for the model of the conversion schedule: which registered entities are converted
                conv_reqs.append(["c03.convert", flags, *obs["conv_req"]])
                conv_ctx.append((case, obs["conv_impl"], obs["placeholder_impl"], obs["reset_impl"], obs["had_meta"]))
                # ---- request for the model of the summary rule: per converted entity (doc, URL, converted summary metadata)
                for e in obs["conv_ents"]:
                    if not isinstance(e["summary"], str) or "\t" in e["doc_full"]:
                        continue
                    conv = e["converted"]
                    ms = conv[1] if len(conv) > 1 else None
                    if e["summary_meta_set"] != (ms is not None) or len(conv) > 2:
                        n_corr += 1
                        rep.tie_broken(f"correspondence program/summary: entity {e['key']!r}: summary metadata set = "
                                       f"{e['summary_meta_set']}, but Markdown was called {len(conv)} time(s) for it", case)
                        continue
                    summ_reqs.append(["c03.summary", flags, e["doc_full"], "U" + e["url"] if e["url"] else "-",
                                      "-" if ms is None else "S" + ms])
                    summ_ctx.append((case, e["key"], e["summary"]))
                    hk = "summary-of-entity:" + ("summary-metadata" if ms is not None else
                                                 "no-paragraph" if "<p>" not in e["doc_full"].lower() else
                                                 "whole-doc" if e["summary"].strip() == e["doc_full"].strip() else "first-paragraph") \
                        + (":url" if e["url"] else ":no-url")
                    hist[hk] = hist.get(hk, 0) + 1
                # ---- property oracle
                seen = set()
                failed = False
                abbr_before: set = set()  # abbreviation tokens defined by comments converted so far
                reported: set = set()
                # in conversion order (what was converted earlier matters for the abbreviation class), then
                # every object that was never converted
                done: set = set()
                ordered = []
                for e in obs["conv_ents"] + obs["ents"]:
                    if id(e) not in done:
                        done.add(id(e))
                        ordered.append(e)
                for e in ordered:
                    n_ent += 1
                    exp = expected.get(e["key"])
                    if exp is None:
                        exp = ([], {}, set(), [])
                    seen.add(e["key"])
                    why, kind = oracle_entity(e["key"], exp, e)
                    if not why:
                        why = oracle_summary(e["key"], exp, e)
                        kind = "summary" if why else None
                    for f in exp[2]:
                        hist["doc:" + f] = hist.get("doc:" + f, 0) + 1
                    if exp[0]:
                        distinct.add(common.digest([e["key"], exp[0], sorted(exp[2]), lines]))
                    if why:
                        # one report per class and case: a listed class must not hide an unlisted failure
                        cls = classify(exp[2], e["key"], kind, sorted(abbr_before), e["raw_doc_list"], e)
                        if cls not in reported:
                            reported.add(cls)
                            failed = True
                            n_orc += 1
                            rep.failing_input(dict(case, why=why, entity=e["key"], observed_words=e["words"],
                                                   observed_doc_list=e["doc_list"],
                                                   observed_object={k: e[k] for k in ("kind", "parent", "origin",
                                                                                      "has_doc", "conversions")}), cls)
                    abbr_before |= {f.split(":", 1)[1] for f in exp[2] if f.startswith("abbr-def:")}
                lost = [k for k, v in expected.items() if k not in seen and v[0]]
                if lost and not failed:
                    n_orc += 1
                    rep.failing_input(dict(case, why=f"documented entities missing from the project: {lost[:5]}"), None)
                if len(samples) < 2 and len(lines) < 40 and any("note" in f for f in allfeat):
                    samples.append({"marks": list(marks), "lines": lines,
                                    "observed": [(e["key"], e["words"]) for e in obs["ents"] if e["words"]]})
        for g, (case, im) in zip(drv.batch(md_reqs), md_ctx):
            mo_ents = []
            for f in g[1:]:
                if f == "E":
                    mo_ents.append(([], [], []))
                elif f[:2] in ("H:", "F:", "A:") and mo_ents:
                    mo_ents[-1]["HFA".index(f[0])].append(f[2:] if f[0] == "H" else " ".join(f[2:].split()))
            bad = g[0] != "ok" or len(mo_ents) != len(im)
            if not bad:
                for (key, links, foots, titles), (ml, mf, ma) in zip(im, mo_ents):
                    if (links, foots, titles) != (ml, mf, ma):
                        bad = True
                        n_corr += 1
                        rep.tie_broken(f"correspondence program/mdstate: entity {key!r}: model of the shared Markdown "
                                       f"instance gives links/footnotes/abbr-titles {(ml, mf, ma)} vs implementation "
                                       f"{(links, foots, titles)}"[:400], case)
                        break
            elif bad:
                n_corr += 1
                rep.tie_broken(f"correspondence program/mdstate: model answered {g[:3]} for {len(im)} entities", case)
        for g, (case, im, ph_im, rs_im, had_meta) in zip(drv.batch(conv_reqs), conv_ctx):
            if g[0] != "ok" or "P" not in g or "R" not in g:
                n_corr += 1
                rep.tie_broken(f"correspondence program/convert: model answered {g[:3]}", case)
                continue
            iP, iR = g.index("P"), g.index("R")
            mo_conv, mo_ph = ["F"] + list(g[1:iP]), list(g[iP + 1:iR])
            mo_rs = [i for i in g[iR + 1:] if i in had_meta]  # a reset shows only where the comment set metadata
            if mo_conv != im:
                n_corr += 1
                rep.tie_broken(f"correspondence program/convert: the model of markdownable_items / Project.markdown "
                               f"converts the file and registered entities {mo_conv[1:][:30]} (once each, in "
                               f"registration order), the implementation converted {im[:30]}"[:400], case)
            elif mo_ph != ph_im:
                n_corr += 1
                rep.tie_broken(f"correspondence program/convert: registered entities carrying a `doc` before the "
                               f"conversion (inheritance placeholder): model {mo_ph[:20]} (the public components of "
                               f"extended types) vs implementation {ph_im[:20]}"[:400], case)
            elif mo_rs != rs_im:
                n_corr += 1
                rep.tie_broken(f"correspondence program/convert: registered entities whose metadata was emptied "
                               f"between parsing and conversion: model {mo_rs[:20]} vs implementation {rs_im[:20]}"[:400],
                               case)
        for g, (case, key, im) in zip(drv.batch(summ_reqs), summ_ctx):
            if g != ["ok", im]:
                n_corr += 1
                rep.tie_broken(f"correspondence program/summary: entity {key!r}: model of the summary rule of "
                               f"FortranBase.markdown gives {g[1:2]} vs implementation {im!r}"[:500], case)
        got = drv.batch(pipe_reqs)
        for g, (im, case, key) in zip(got, pipe_ctx):
            g = g[:2] if g[0] == "err" else g
            if g != im:
                n_corr += 1
                rep.tie_broken(f"correspondence program/pipeline: entity {key!r} model {g[:5]} vs implementation {im[:5]}", case)
    finally:
        A.AdmonitionPreprocessor.run = orig_run
    return len(cases), n_ent, len(pipe_reqs) + len(md_reqs) + len(conv_reqs) + len(summ_reqs), n_corr, n_orc


def run(tier: str, seed: int, replay: str | None = None) -> int:
    global NOTE_KINDS
    rep = Report(PROP, tier, seed)
    from translate import c03 as T

    table = {}

    def tr():
        table.update(T.translate())

    lean = lean_prove(PROP, translate=tr, thorough=(tier == "thorough"))
    for b in lean.broken():
        rep.tie_broken("proof: " + b)
    ford = common.import_ford()
    if not table:
        try:
            table.update(T.extract())
        except Exception:
            table.update({"types": [("note", "info")]})
    NOTE_KINDS = [k for k, _ in table["types"]]
    import dataclasses
    import ford.settings as S
    fl = {f.name for f in dataclasses.fields(S.EntitySettings)}
    NONFIELD_ATTRS[:] = sorted(a for a in dir(S.EntitySettings) if not a.startswith("_") and a.lower() not in fl)
    rng = random.Random(seed * 7919 + 3)
    drv = Driver()
    n_micro = 1500 if tier == "quick" else 20000
    n_prog = 300 if tier == "quick" else 3000
    hist: dict[str, int] = {}
    samples: list = []
    distinct: set = set()
    replay_case = None
    if replay:
        data = json.loads(Path(replay).read_text())
        for c in data.get("cases", []) + data.get("first_disagreements", []):
            if c.get("stream") == "program":
                replay_case = c
                break
    flags = variants(ford)
    hist["variant:repairs-present:" + flags] = 1
    ev_micro, bad_micro = (0, 0) if replay_case else micro_streams(ford, drv, rng, n_micro, rep, hist)
    if not replay_case:
        ev_r, bad_r = rmeta_stream(ford, drv, rng, n_micro, rep, hist, flags)
        ev_micro += ev_r
        bad_micro += bad_r
        ev_r, bad_r = docblock_stream(ford, drv, rng, n_micro, rep, hist)
        ev_micro += ev_r
        bad_micro += bad_r
        ev_r, bad_r = inquote_stream(ford, drv, rng, tier, rep, hist)
        ev_micro += ev_r
        bad_micro += bad_r
        ev_r, bad_r = summary_stream(ford, drv, rng, n_micro, rep, hist, flags)
        ev_micro += ev_r
        bad_micro += bad_r
    n_cases, n_ent, n_pipe, n_corr, n_orc = program_stream(ford, drv, rng, n_prog, rep, hist, samples, distinct,
                                                           replay_case, flags,
                                                           tuple(table.get("skip_attrs", ["external_url"])))
    rep.coverage.update(
        evaluations=ev_micro + n_cases + n_pipe,
        distinct_nontrivial=len(distinct),
        rule="program cases = generated Fortran files (modules, programs, procedures, types, components, bound/final "
             "procedures, generic interfaces, enums, variables) x per-entity doc style (following, inline, pre, alt, pre-alt, "
             "pre block continued with plain doc-marker lines, several preceding / following blocks of different forms) "
             "x marker characters x layout gaps "
             "x comment shape (rich body / one-line key: value / one-line word: text / footnotes, reference links, "
             "abbreviations with labels shared between comments / wide-indented / starting with a code block / "
             "`Word: text` after the header) x type extension, generic bindings, interface blocks with bodies x display "
             "x declarations with character literals holding comment look-alikes (one line / continued inside a literal, "
             "mixed quote characters) x parts of the text moved into (nested) include files "
             "x several `;`-separated declarations on one line (comment inline at the end / on the following lines / alt "
             "block, trailing `;`, dummy arguments) x derived types local to procedures (entities without URL); per "
             "converted entity also the summary rule (doc, URL, summary metadata -> meta.summary) and the summary oracle; "
             "counted: distinct (entity, tracer sequence, doc features, file) tuples whose entity has a non-empty doc comment",
        samples=samples,
        traces_validated_against_impl=ev_micro + n_cases + n_pipe,
        entities_checked=n_ent,
        correspondence_disagreements=n_corr + bad_micro,
        oracle_failures=n_orc,
        input_histogram=dict(sorted(hist.items())),
        generated_tables={"admonitionTypes": NOTE_KINDS, "entityFields": len(table.get("fields", []))},
    )
    rep.assumptions += [
        "Python-Markdown (block parser, admonition block processor, extensions), BeautifulSoup and CPython re are on the "
        "implementation side only; the theorems end at the text handed to Markdown, the word-level oracle covers the rest",
        "statement classification in the Attach model is a keyword reading of the parser cascade restricted to the "
        "statement forms of the generator (the cascade itself is C01's subject)",
        "ASCII input; tracer words are alphanumeric",
        "the model of the shared Markdown instance (MdState) covers only what refers to its per-document tables "
        "(reference links, footnotes, abbreviations) in the forms the generator emits: definitions on their own lines "
        "at the end of a comment, uses as whole blank-separated words of paragraph lines",
        "the MetaMarkdown instance is built with an absolute base_url (the output directory), as ford's command line does",
        "the lexical side of the reader (continuation lines, `;`, literals) and the queue mechanics of include() are "
        "C02's models (Reader.lean, Include.lean with the configuration last regenerated by translate/c02.py); C03 adds "
        "the marker hand-over to the nested reader and the consequences for documentation",
        "a statement continued over several lines carries no inline comment on its last line (on a line that starts "
        "inside a continued literal the reader keeps a trailing comment as code: C02's known finding); include files "
        "hold whole entities with their comments, never a part of a comment block or of a continued statement",
        "the summary model starts at the HTML that Markdown returned (entity.doc and the converted `summary:` value are "
        "inputs); str.strip is modelled for ASCII white space; a doc that contains a TAB is not sent to the model",
        "a line of several `;`-separated statements is only documented by comments that FOLLOW it (they belong to the "
        "last statement); a preceding block in front of such a line is not generated (undocumented which statement it "
        "would document)",
        "one source file per project: conversion order across files, type extension across modules of different "
        "files and external entities (`external_url`, the only skip attribute of markdownable_items) are not generated",
        "the entity-tree walk uses the harness's own list of child collections (CHILD_ATTRS); the HTML pages "
        "themselves are not rendered by this check",
    ]
    return rep.finish(lean)
