"""Abstract Fortran program model, renderer with surface-spelling choices, and the
canonical observation (`canon`) a reader of the documentation is entitled to.

Everything random is drawn from the `rng` passed in, so a (seed, index) pair
replays exactly.  Abstract programs are plain dicts/lists (JSON-able).

    P = gen_project(rng, size)                  abstract project
    files = render_project(P, rng)              {filename: text}  (spelling choices from rng)
    canon_project(P)                            expected observation
    observe_file(FortranSourceFile)             the same observation read off FORD's objects
"""
from __future__ import annotations

import random

NAMES = ["alpha", "beta", "gamma", "delta", "eps", "zeta", "eta", "theta", "iota", "kappa",
         "lam", "mu", "nu", "xi", "omi", "rho", "sigma", "tau", "ups", "phi", "chi", "psi", "omega"]

INTRINSIC_TYPES = ["integer", "real", "double precision", "complex", "logical", "character", "double complex"]
NUM_KINDS = ["4", "8", "dp", "real64", "kind(1.0d0)", "selected_real_kind(15)", "int32"]
CHAR_LENS = ["10", "*", ":", "n", "2*n"]
SIMPLE_ATTRS = ["allocatable", "pointer", "target", "save", "contiguous", "value", "asynchronous", "volatile"]
DIMS = ["(3)", "(:)", "(:,:)", "(n)", "(0:n-1)", "(2,3)", "(*)"]
INITS = {"integer": ["1", "42", "-3", "2*n"], "real": ["1.0", "0.5e0", "1.0_dp"], "logical": [".true.", ".false.", "1 == 2", "2 >= 1", "3 /= 4"],
         "character": ["'abc'", "\"x y\"", "'it''s'", "'a, b'", "'(/ 1 /)'", "\"0\"", "\"1\"", "'0'", "\"12\"", "\"2\""],
         "complex": ["(1.0, 2.0)"],
         "double precision": ["1.0d0"], "double complex": ["(1.0d0, 0.0d0)"]}
# elements of character array constructors: one character each (equal lengths, as Fortran requires), either
# delimiter, digits on purpose (FORD masks literals by `"0"`, `"1"`, ... while it parses a statement)
CHAR_ELEMS = ["\"0\"", "\"1\"", "\"2\"", "'0'", "'1'", "\"a\"", "'b'", "\" \"", "''''", "\"3\""]


def gen_array_init(rng, base, n=3):
    """array constructor with n elements, `[a, b, c]` or `(/ a, b, c /)`"""
    pool = CHAR_ELEMS if base == "character" else INITS[base]
    els = [rng.choice(pool) for _ in range(n)]
    o, c = rng.choice([("[", "]"), ("(/ ", " /)"), ("(/", "/)")])
    return o + rng.choice([", ", ","]).join(els) + c


# Fortran has no reserved words.  Every word below means something to one of FORD's statement patterns (or to
# the declaration decomposition); an identifier may begin with any of them (`isotope`, `typed`, `endpoint`,
# `data_t`, `function_table`, `use_count`).  KEYWORDS is the general list; CONFUSABLE gives, per entity role (the
# prefix the generator asks a name for), the words that the grammar allows *at the very position of the name* in
# some other statement (`type is (..)` vs `type isotope`, `module procedure p` vs `module procedures`,
# `end type` vs a variable `end_type`, `integer function f()` vs `integer function_f`, `block data` vs `block_x`).
KEYWORDS = ["is", "in", "out", "inout", "type", "class", "end", "endtype", "module", "submodule", "procedure", "program",
            "subroutine", "function", "interface", "abstract", "enum", "enumerator", "contains", "block", "blockdata",
            "associate", "common", "namelist", "final", "generic", "use", "call", "go", "goto", "format", "data",
            "dimension", "external", "intent", "optional", "parameter", "pointer", "private", "protected", "public",
            "save", "target", "value", "volatile", "asynchronous", "allocatable", "bind", "integer", "real", "double",
            "doubleprecision", "character", "complex", "logical", "result", "kind", "len", "only", "operator",
            "assignment", "sequence", "implicit", "none", "default", "select", "case", "if", "do", "where", "pure",
            "elemental", "recursive", "impure", "extends", "deferred", "nopass", "pass", "non_overridable", "import",
            "include", "print", "write", "read", "null", "intrinsic", "non_intrinsic", "precision", "to"]
CONFUSABLE = {
    "t": ["is", "is", "is", "default", "extends", "abstract", "public", "private", "bind",
          # a type name is also written inside the type prefix of a function statement, next to these words
          "pure", "module", "recursive", "elemental", "impure", "non_recursive"],
    "m": ["procedure", "subroutine", "function", "pure", "elemental", "recursive", "impure"],
    "v": ["function", "subroutine", "is", "default", "precision", "complex", "data", "type", "end", "procedure"],
    "p": ["is", "procedure", "function", "subroutine", "result", "bind", "type", "end"],
    "r": ["result", "bind", "function", "is"],
    "b": ["procedure", "generic", "final", "pass", "nopass", "deferred", "is"],
    "g": ["operator", "assignment", "read", "write", "procedure", "generic"],
    "e": ["enumerator", "enum", "bind", "end"],
    "nl": ["namelist", "common", "end"],
    "blk": ["common", "block", "data", "end"],
    "bd": ["data", "block", "end"],
    "prog": ["program", "end", "procedure", "function"],
}
KW_TAILS = ["_", "_t", "s", "x", "1", "_1", "otope", "land", "_stable"]


class Namer:
    """fresh identifiers (unique without regard to case).  `kwish` = probability that a name begins with a
    keyword (half of them with a keyword that is confusable in the role the name is asked for)."""

    def __init__(self, rng, kwish=0.22):
        self.rng = rng
        self.used = set()
        self.kwish = kwish
        self.n_kwish = 0

    def fresh(self, prefix=""):
        rng = self.rng
        for _ in range(1000):
            if prefix not in ("src", "c") and rng.random() < self.kwish:
                pool = CONFUSABLE.get(prefix)
                kw = rng.choice(pool) if pool and rng.random() < 0.6 else rng.choice(KEYWORDS)
                r = rng.random()
                if r < 0.35:
                    tail = rng.choice(KW_TAILS)
                elif r < 0.7:
                    tail = "_" + rng.choice(NAMES) + (str(rng.randint(1, 99)) if rng.random() < 0.5 else "")
                else:
                    tail = rng.choice(NAMES) + (str(rng.randint(1, 99)) if rng.random() < 0.5 else "")
                n = kw + tail
                if n in self.used or n in KEYWORDS:
                    continue
                self.used.add(n)
                self.n_kwish += 1
                return n
            n = prefix + rng.choice(NAMES) + (str(rng.randint(1, 99)) if rng.random() < 0.7 else "")
            if n not in self.used:
                self.used.add(n)
                return n
        raise RuntimeError("names exhausted")


# ---------------------------------------------------------------- generation

def gen_typespec(rng, types_visible, absints_visible, allow_proc=True):
    r = rng.random()
    if r < 0.62 or (not types_visible and r < 0.85):
        base = rng.choice(INTRINSIC_TYPES)
        spec = {"base": base, "kind": None, "len": None, "proto": None}
        if base == "character":
            if rng.random() < 0.75:
                spec["len"] = rng.choice(CHAR_LENS)
            if rng.random() < 0.2:
                spec["kind"] = rng.choice(["ck", "1", "kind('a')"])
        elif base in ("integer", "real", "complex", "logical"):
            if rng.random() < 0.5:
                spec["kind"] = rng.choice(NUM_KINDS)
        return spec
    if r < 0.85 and types_visible:
        return {"base": rng.choice(["type", "class"]), "kind": None, "len": None, "proto": rng.choice(types_visible)}
    if r < 0.9:
        return {"base": "class", "kind": None, "len": None, "proto": "*"}
    if allow_proc and absints_visible:
        return {"base": "procedure", "kind": None, "len": None, "proto": rng.choice(absints_visible)}
    return {"base": "integer", "kind": None, "len": None, "proto": None}


def gen_var(rng, nm, types_visible, absints_visible, role="local", like=None):
    """role: local | arg | component | modvar; `like`: an earlier variable of the same scope whose type
    specification is taken over (so that one declaration statement can declare both)"""
    if like is not None:
        spec = dict(like["type"])
    else:
        spec = gen_typespec(rng, types_visible, absints_visible, allow_proc=(role != "arg"))
    v = {"name": nm.fresh("v"), "type": spec, "attrs": [], "dims": None, "codims": None, "intent": "", "optional": False,
         "parameter": False, "init": None, "points": False}
    base = spec["base"]
    if base == "procedure":
        v["attrs"] = ["pointer"] + (["nopass"] if role == "component" else [])
        if rng.random() < 0.4:
            v["init"], v["points"] = "null()", True
        return v
    if base == "class":
        if role == "arg":
            v["intent"] = rng.choice(["in", "inout", ""])
        else:
            v["attrs"] = [rng.choice(["allocatable", "pointer"])]
        return v
    if rng.random() < 0.35:
        v["dims"] = rng.choice(DIMS)
    if role == "arg":
        v["intent"] = rng.choice(["in", "out", "inout", ""])
        v["optional"] = rng.random() < 0.25
        if v["dims"] in ("(:)", "(:,:)") and rng.random() < 0.3:
            v["attrs"].append("contiguous")
        elif v["dims"] is None and v["intent"] == "in" and not v["optional"] and rng.random() < 0.2:
            v["attrs"].append("value")
        gen_codims(rng, v, role)
        return v
    if v["dims"] == "(*)":
        v["dims"] = "(3)"
    if v["dims"] in ("(:)", "(:,:)"):
        v["attrs"].append(rng.choice(["allocatable", "pointer"]))
    elif spec["len"] == ":":
        v["attrs"].append("allocatable")
    elif spec["len"] in ("*",):
        spec["len"] = "10" if role != "modvar" else "*"
        if spec["len"] == "*":
            v["parameter"] = True
            v["init"] = rng.choice(INITS["character"])
    if spec["len"] in ("n", "2*n") and role in ("modvar", "component"):
        spec["len"] = "8"
    if v["dims"] in ("(n)", "(0:n-1)") and role in ("modvar", "component"):
        v["dims"] = "(4)"
    if not v["attrs"] and not v["parameter"] and base in INITS and v["dims"] is None and spec["len"] not in (":", "n", "2*n"):
        r = rng.random()
        if r < 0.2 and role == "modvar":
            v["parameter"], v["init"] = True, rng.choice(INITS[base])
        elif r < 0.4:
            v["init"] = rng.choice(INITS[base])
    if not v["attrs"] and not v["parameter"] and base in INITS and v["dims"] == "(3)" and v["init"] is None \
            and spec["len"] not in (":", "n", "2*n") and rng.random() < 0.35:
        v["init"] = gen_array_init(rng, base)
        if role == "modvar" and rng.random() < 0.5:
            v["parameter"] = True
    if not v["attrs"] and role in ("modvar", "local") and not v["parameter"] and rng.random() < 0.2:
        v["attrs"].append(rng.choice(["save", "target"] + (["volatile", "asynchronous"] if role == "modvar" else [])))
    if role in ("modvar", "local") and not v["parameter"] and rng.random() < 0.3:
        # several attributes on one entity (any order, any mix of declaration and attribute statements later)
        for a in rng.sample(["save", "target", "volatile", "asynchronous"], rng.choice([1, 2, 2, 3])):
            if a not in v["attrs"] and not (a == "target" and "pointer" in v["attrs"]):
                v["attrs"].append(a)
    gen_codims(rng, v, role)
    return v


COSHAPES = ["[*]", "[2,*]", "[0:*]", "[n, *]"]


def gen_codims(rng, v, role):
    """now and then the entity is a coarray (`a[*]`, `b(3)[2,*]`, `c(:)[:]`): a module variable, a saved or
    allocatable local, a dummy argument (not VALUE, not a pointer)"""
    if rng.random() >= 0.1 or v["parameter"] or "pointer" in v["attrs"] or "value" in v["attrs"] or v["init"] is not None:
        return
    if v["type"]["base"] in ("procedure", "class") or v["type"]["len"] == ":":
        return
    if "allocatable" in v["attrs"]:
        v["codims"] = rng.choice(["[:]", "[:,:]"])
    elif role == "modvar" or role == "arg" or (role == "local" and "save" in v["attrs"]):
        c = rng.choice(COSHAPES)
        v["codims"] = c if role == "arg" else c.replace("n, ", "3, ")


def gen_sibling_or_new(rng, nm, earlier, types_visible, absints_visible, role):
    """a new variable; with some probability of the same type as the previous one of the scope"""
    like = earlier[-1] if earlier and rng.random() < 0.35 else None
    return gen_var(rng, nm, types_visible, absints_visible, role=role, like=like)


def gen_proc(rng, nm, types_visible, absints_visible, depth=0, in_interface=False, module_prefix=False):
    kind = rng.choice(["subroutine", "function"])
    p = {"ent": "proc", "kind": kind, "name": nm.fresh("p"), "args": [], "prefixes": [], "result": None,
         "rettype": None, "rettype_prefix": False, "bindc": None, "decls": [], "locals": [], "types": [],
         "interfaces": [], "exec": [], "contains": [], "uses": [], "module_prefix": module_prefix, "doc": None}
    nargs = rng.choice([0, 0, 1, 2, 3])
    for _ in range(nargs):
        a = gen_sibling_or_new(rng, nm, p["args"], types_visible, absints_visible, "arg")
        a["declared"] = rng.random() < 0.9
        p["args"].append(a)
    if rng.random() < 0.3 and not in_interface:
        p["prefixes"].append(rng.choice(["pure", "elemental", "recursive", "impure elemental"]))
        if "elemental" in p["prefixes"][0] or p["prefixes"][0] == "pure":
            for a in p["args"]:
                a["declared"] = True
                if a["type"]["base"] not in ("class",):
                    a["intent"] = "in"
                a["optional"] = False
                a["codims"] = None
                if "elemental" in p["prefixes"][0]:
                    a["dims"] = None
                    a["attrs"] = []
    if kind == "function":
        if rng.random() < 0.5:
            p["result"] = nm.fresh("r")
        rt = gen_typespec(rng, types_visible, [], allow_proc=False)
        if rt["base"] == "class":
            rt = {"base": "integer", "kind": None, "len": None, "proto": None}
        if rt["len"] in (":", "*", "n", "2*n"):
            rt["len"] = "10"
        p["rettype"] = rt
        p["rettype_prefix"] = rng.random() < 0.5
    if rng.random() < 0.15 and not p["prefixes"] and depth == 0:
        p["bindc"] = rng.choice(["c", "c, name='%s'" % nm.fresh("c"), 'C, name="%s"' % nm.fresh("c")])
        for a in p["args"]:
            a["optional"] = False
            a["codims"] = None
    if not in_interface:
        types_visible = list(types_visible)
        if rng.random() < 0.2:
            # a derived type defined in the procedure itself (no bindings: there is no module procedure to bind)
            t = gen_type(rng, nm, list(types_visible), [], [])
            p["types"].append(t)
            types_visible.append(t["name"])
        for _ in range(rng.choice([0, 1, 2])):
            p["locals"].append(gen_sibling_or_new(rng, nm, p["locals"], types_visible, absints_visible, "local"))
        p["guard_types"] = list(types_visible)
        p["exec"] = gen_exec(rng, p)
        if depth == 0 and rng.random() < 0.3:
            for _ in range(rng.choice([1, 2])):
                p["contains"].append(gen_proc(rng, nm, types_visible, absints_visible, depth=1))
    return p


def gen_exec(rng, p):
    names = [a["name"] for a in p["args"]] + [l["name"] for l in p["locals"]]
    x = names[0] if names else "i"
    forms = [
        "%s = 1" % x, "call helper(%s)" % x, "print *, 'call fake(1); type :: t'", "if (%s > 0) then" % x + "\n%s = 2\nend if" % x,
        "do i = 1, 10\n%s = i\nend do" % x, "block\ninteger :: hidden_in_block\nhidden_in_block = 1\nend block",
        "associate (q => %s)\nq = 3\nend associate" % x, "write(*, '(a)') \"integer :: not_a_decl\"",
        "real_value = 1.0", "type_flag = .true.", "select case (i)\ncase (1)\n%s = 1\ncase default\n%s = 2\nend select" % (x, x),
        "10 format (i5)", "where (mask) arr = 0", "allocate(buf(10))", "if (%s > 0) call helper(%s)" % (x, x),
        "do while (i < 3)\ni = i + 1\nenddo", "integer_count = integer_count + 1", "end_flag = 1", "use_count = 2",
        "function_value = 3", "contains_x = 4", "module_x = 5", "interface_x = 6", "common_x = 7", "public_x = 8",
    ]
    out = [rng.choice(forms) for _ in range(rng.choice([0, 1, 2, 3]))]
    if rng.random() < 0.3:
        out.insert(rng.randrange(len(out) + 1), gen_select_type(rng, x, p.get("guard_types", [])))
    return out


GUARD_INTRINSIC = ["integer", "real", "real(8)", "real(kind=dp)", "logical", "complex", "character(len=*)", "character(*)",
                   "double precision", "integer(int32)"]


def gen_select_type(rng, x, type_names):
    """a SELECT TYPE construct: its guards `type is (..)`, `class is (..)`, `class default` begin with the
    keywords of a derived type definition / of a declaration and must not be documented as either"""
    kw = lambda s_: rng.choice([s_, s_, s_.upper(), s_.capitalize()])
    sp = lambda: rng.choice(["", " ", " ", "  "])
    lines = [kw("select") + rng.choice([" ", " ", ""]) + kw("type") + sp() + "("
             + rng.choice(["poly_item", "sel => poly_item", x]) + ")"]
    for _ in range(rng.choice([1, 2, 3])):
        r = rng.random()
        if r < 0.5 or not type_names:
            lines.append(kw("type") + rng.choice([" ", " ", "  "]) + kw("is") + sp() + "(" + sp() + rng.choice(GUARD_INTRINSIC) + sp() + ")")
        elif r < 0.75:
            lines.append(kw("type") + rng.choice([" ", "  "]) + kw("is") + sp() + "(" + sp() + rng.choice(type_names) + sp() + ")")
        else:
            lines.append(kw("class") + rng.choice([" ", "  "]) + kw("is") + sp() + "(" + sp() + rng.choice(type_names) + sp() + ")")
        lines.append(rng.choice(["%s = 1" % x, "call helper(%s)" % x, "print *, 'type is (integer)'", "continue"]))
    if rng.random() < 0.6:
        lines.append(kw("class") + rng.choice([" ", "  "]) + kw("default"))
        lines.append("%s = 0" % x)
    lines.append(kw("end") + rng.choice([" ", ""]) + kw("select"))
    return "\n".join(lines)


def gen_type(rng, nm, types_visible, procs_visible, absints_visible):
    t = {"ent": "type", "name": nm.fresh("t"), "extends": None, "attrs": [], "components": [], "bindings": [],
         "finals": [], "sequence": False, "doc": None}
    if types_visible and rng.random() < 0.3:
        t["extends"] = rng.choice(types_visible)
    if rng.random() < 0.15:
        t["attrs"].append("abstract")
    elif rng.random() < 0.1 and not t["extends"]:
        t["attrs"].append("bind(c)")
    for _ in range(rng.choice([0, 1, 2, 3])):
        t["components"].append(gen_var(rng, nm, types_visible, absints_visible, role="component"))
    if "bind(c)" in t["attrs"]:
        t["components"] = [c for c in t["components"] if not c["attrs"] and c["type"]["base"] in ("integer", "real")]
        return t
    if not t["extends"] and not t["attrs"] and rng.random() < 0.1:
        t["sequence"] = True
        return t
    if procs_visible and rng.random() < 0.6:
        nb = rng.choice([1, 2, 3])
        bnames = []
        for _ in range(nb):
            b = {"name": nm.fresh("b"), "generic": False, "deferred": False, "attrs": [], "proto": None,
                 "bindings": None}
            r = rng.random()
            if r < 0.35:
                b["bindings"] = [rng.choice(procs_visible)]
            elif r < 0.5 and "abstract" in t["attrs"] and absints_visible:
                b["deferred"] = True
                b["proto"] = rng.choice(absints_visible)
            if rng.random() < 0.3:
                b["attrs"].append(rng.choice(["nopass", "pass", "pass(self)", "non_overridable"]))
                if b["deferred"] and b["attrs"][-1] == "non_overridable":
                    b["attrs"] = []
            t["bindings"].append(b)
            bnames.append(b["name"])
        if len(bnames) >= 2 and rng.random() < 0.4:
            t["bindings"].append({"name": nm.fresh("g"), "generic": True, "deferred": False, "attrs": [],
                                  "proto": None, "bindings": bnames[:2]})
        elif rng.random() < 0.15:
            t["bindings"].append({"name": rng.choice(["operator(+)", "assignment(=)", "operator(.dot.)", "write(formatted)"]),
                                  "generic": True, "deferred": False, "attrs": [], "proto": None,
                                  "bindings": bnames[:1]})
        if rng.random() < 0.25:
            t["finals"] = [rng.choice(procs_visible) for _ in range(rng.choice([1, 2]))]
    return t


def gen_interface(rng, nm, types_visible, procs_visible):
    r = rng.random()
    it = {"ent": "interface", "form": None, "name": None, "bodies": [], "modprocs": [], "doc": None}
    if r < 0.3:
        it["form"] = "abstract"
        it["bodies"] = [gen_proc(rng, nm, types_visible, [], in_interface=True) for _ in range(rng.choice([1, 2]))]
    elif r < 0.5:
        it["form"] = "explicit"
        it["bodies"] = [gen_proc(rng, nm, types_visible, [], in_interface=True) for _ in range(rng.choice([1, 2]))]
    else:
        it["form"] = "generic"
        it["name"] = rng.choice([nm.fresh("g"), nm.fresh("g"), "operator(+)", "operator(.cross.)", "assignment(=)", "operator(==)"])
        if procs_visible and rng.random() < 0.7:
            k = min(len(procs_visible), rng.choice([1, 2]))
            it["modprocs"] = rng.sample(procs_visible, k)
        if not it["modprocs"] or rng.random() < 0.3:
            it["bodies"] = [gen_proc(rng, nm, types_visible, [], in_interface=True)]
    return it


def gen_scope_decls(rng, nm, scope, types_visible, absints_visible, role, n_vars):
    for _ in range(n_vars):
        scope["vars"].append(gen_sibling_or_new(rng, nm, scope["vars"], types_visible, absints_visible, role))


def gen_module(rng, nm, all_modules, size):
    m = {"ent": "module", "name": nm.fresh("m"), "uses": [], "vars": [], "types": [], "interfaces": [],
         "enums": [], "commons": [], "namelists": [], "procs": [], "doc": None}
    if all_modules and rng.random() < 0.5:
        m["uses"].append({"module": rng.choice(all_modules)["name"], "only": None})
    types_visible, absints_visible = [], []
    nproc = rng.randint(0, size)
    procnames = []
    if rng.random() < 0.5:
        ai = gen_interface(rng, nm, [], [])
        ai["form"] = "abstract"
        ai["name"] = None
        ai["modprocs"] = []
        if not ai["bodies"]:
            ai["bodies"] = [gen_proc(rng, nm, [], [], in_interface=True)]
        m["interfaces"].append(ai)
        absints_visible = [b["name"] for b in ai["bodies"]]
    # procedures first (names), so that types/interfaces can refer to them
    for _ in range(nproc):
        p = gen_proc(rng, nm, types_visible, absints_visible)
        m["procs"].append(p)
        procnames.append(p["name"])
    for _ in range(rng.randint(0, max(1, size - 1))):
        t = gen_type(rng, nm, list(types_visible), procnames, absints_visible)
        m["types"].append(t)
        types_visible.append(t["name"])
    gen_scope_decls(rng, nm, m, types_visible, absints_visible, "modvar", rng.randint(0, size + 1))
    for _ in range(rng.choice([0, 0, 1, 2])):
        it = gen_interface(rng, nm, types_visible, procnames)
        # one interface block per generic name (several blocks of one name merge in Fortran;
        # that case is not part of the abstract model)
        if it["form"] == "generic" and any(o.get("name") == it["name"] for o in m["interfaces"]):
            continue
        m["interfaces"].append(it)
    if rng.random() < 0.25:
        en = {"ent": "enum", "items": []}
        val = None
        for _ in range(rng.randint(1, 4)):
            val = rng.choice([None, None, str(rng.randint(0, 20))])
            en["items"].append({"name": nm.fresh("e"), "value": val})
        m["enums"].append(en)
    plain = [v["name"] for v in m["vars"] if not v["parameter"] and v["type"]["base"] in ("integer", "real", "logical")
             and not v["attrs"] and not v["dims"]]
    if len(plain) >= 2 and rng.random() < 0.4:
        m["namelists"].append({"name": nm.fresh("nl"), "vars": plain[:rng.randint(1, len(plain))]})
    return m


def gen_program(rng, nm, all_modules, size):
    p = {"ent": "program", "name": nm.fresh("prog") if rng.random() < 0.85 else None, "uses": [], "vars": [],
         "types": [], "interfaces": [], "enums": [], "commons": [], "namelists": [], "procs": [], "exec": [], "doc": None}
    for mod in all_modules[:2]:
        if rng.random() < 0.6:
            p["uses"].append({"module": mod["name"], "only": None})
    types_visible = []
    for _ in range(rng.choice([0, 0, 1, 2])):
        t = gen_type(rng, nm, list(types_visible), [], [])
        p["types"].append(t)
        types_visible.append(t["name"])
    gen_scope_decls(rng, nm, p, types_visible, [], "local", rng.randint(0, size))
    plain = [v["name"] for v in p["vars"] if v["type"]["base"] in ("integer", "real") and not v["attrs"] and not v["dims"] and not v["init"]]
    if len(plain) >= 2 and rng.random() < 0.4:
        p["commons"].append({"name": rng.choice([nm.fresh("blk"), None]), "vars": plain[:2]})
    fake = {"args": [], "locals": p["vars"], "guard_types": types_visible}
    p["exec"] = gen_exec(rng, fake)
    for _ in range(rng.choice([0, 0, 1, 2])):
        p["procs"].append(gen_proc(rng, nm, [], [], depth=1))
    return p


def gen_project(rng, size=3):
    nm = Namer(rng)
    P = {"files": []}
    modules = []
    nfiles = rng.randint(1, 3)
    for fi in range(nfiles):
        units = []
        for _ in range(rng.randint(1, 2)):
            r = rng.random()
            if r < 0.6:
                m = gen_module(rng, nm, modules, size)
                units.append(m)
                modules.append(m)
            elif r < 0.8:
                units.append(gen_proc(rng, nm, [], []))  # external procedure
            elif r < 0.9:
                bd = {"ent": "blockdata", "name": rng.choice([nm.fresh("bd"), None]), "vars": [], "commons": []}
                v1, v2 = nm.fresh("v"), nm.fresh("v")
                for v in (v1, v2):
                    bd["vars"].append({"name": v, "type": {"base": "integer", "kind": None, "len": None, "proto": None},
                                       "attrs": [], "dims": None, "intent": "", "optional": False, "parameter": False,
                                       "init": None, "points": False})
                bd["commons"].append({"name": nm.fresh("blk"), "vars": [v1, v2]})
                units.append(bd)
            else:
                units.append(None)  # placeholder for the program (at most one per file)
        if not any(u is None for u in units) and fi == nfiles - 1 and rng.random() < 0.6:
            units.append(None)
        seen_prog = False
        final = []
        for u in units:
            if u is None:
                if seen_prog:
                    continue
                seen_prog = True
                final.append(gen_program(rng, nm, modules, size))
            else:
                final.append(u)
        P["files"].append({"name": "f%d_%s.f90" % (fi, nm.fresh("src")), "units": final})
    # separate module procedures: an interface block of `module subroutine` / `module function` bodies in a
    # module, implemented in a submodule (as `module subroutine ...` or as `module procedure name`), now and
    # then with a second submodule whose parent is the first
    for f in list(P["files"]):
        for m in [u for u in f["units"] if u["ent"] == "module"]:
            if rng.random() < 0.25:
                subs = gen_submodules(rng, nm, m)
                if rng.random() < 0.5:
                    f["units"] += subs
                else:
                    P["files"].append({"name": "f%d_%s.f90" % (len(P["files"]), nm.fresh("src")), "units": subs})
    return P


def gen_submodules(rng, nm, m):
    it = {"ent": "interface", "form": "explicit", "name": None, "bodies": [], "modprocs": [], "doc": None}
    for _ in range(rng.choice([1, 2, 3])):
        it["bodies"].append(gen_proc(rng, nm, [], [], in_interface=True, module_prefix=True))
    m["interfaces"].append(it)
    sub = {"ent": "submodule", "name": nm.fresh("sm"), "ancestor": m["name"], "parent": None, "uses": [], "vars": [],
           "types": [], "interfaces": [], "enums": [], "commons": [], "namelists": [], "procs": [], "modprocs": [], "doc": None}
    gen_scope_decls(rng, nm, sub, [], [], "modvar", rng.choice([0, 0, 1, 2]))
    out = [sub]
    if rng.random() < 0.3:
        sub2 = dict(sub, name=nm.fresh("sm"), parent=sub["name"], vars=[], procs=[], modprocs=[])
        out.append(sub2)
    for b in it["bodies"]:
        target = rng.choice(out)
        if rng.random() < 0.5:
            # `module procedure name` ... `end procedure`: the characteristics come from the interface
            mp = {"name": b["name"], "locals": [], "exec": []}
            for _ in range(rng.choice([0, 1, 2])):
                mp["locals"].append(gen_sibling_or_new(rng, nm, mp["locals"], [], [], "local"))
            mp["exec"] = gen_exec(rng, {"args": b["args"], "locals": mp["locals"]})
            target["modprocs"].append(mp)
        else:
            q = dict(b, locals=[], exec=[], contains=[], types=[])
            for _ in range(rng.choice([0, 1, 2])):
                q["locals"].append(gen_sibling_or_new(rng, nm, q["locals"], [], [], "local"))
            q["exec"] = gen_exec(rng, q)
            target["procs"].append(q)
    return out


# ---------------------------------------------------------------- rendering

class Spell:
    """Surface spelling decisions; every choice comes from rng."""

    def __init__(self, rng):
        self.rng = rng
        self.case_mode = rng.choice(["lower", "upper", "mixed", "cap"])

    def kw(self, s):
        m = self.case_mode if self.rng.random() < 0.8 else self.rng.choice(["lower", "upper", "cap"])
        if m == "lower":
            return s
        if m == "upper":
            return s.upper()
        if m == "cap":
            return s.capitalize()
        return "".join(c.upper() if self.rng.random() < 0.5 else c for c in s)

    def ident(self, s):
        if self.rng.random() < 0.15:
            return s.upper()
        if self.rng.random() < 0.1:
            return s.capitalize()
        return s

    def sp(self):
        return self.rng.choice(["", "", " ", "  "])

    def sp1(self):
        return self.rng.choice([" ", " ", "  "])


def render_typespec(S, spec):
    base = spec["base"]
    rng = S.rng
    if base == "double precision":
        return S.kw("double") + rng.choice([" ", "  ", ""]) + S.kw("precision")
    if base == "double complex":
        return S.kw("double") + rng.choice([" ", "  "]) + S.kw("complex")
    if base in ("type", "class", "procedure"):
        return S.kw(base) + S.sp() + "(" + S.sp() + (S.ident(spec["proto"]) if spec["proto"] != "*" else "*") + S.sp() + ")"
    out = S.kw(base)
    if base == "character":
        ln, kd = spec["len"], spec["kind"]
        if ln is None and kd is None:
            return out
        if kd is None:
            forms = ["(%s)" % ln, "(" + S.kw("len") + S.sp() + "=" + S.sp() + ln + ")", "( %s )" % ln]
            if ln.isdigit():
                forms.append("*" + ln)
            if ln == "*":
                forms.append("*(*)")
            return out + S.sp() + rng.choice(forms)
        if ln is None:
            return out + "(" + S.kw("kind") + "=" + kd + ")"
        forms = ["(%s=%s, %s=%s)" % (S.kw("len"), ln, S.kw("kind"), kd), "(%s=%s,%s=%s)" % (S.kw("kind"), kd, S.kw("len"), ln),
                 "(%s, %s)" % (ln, kd), "(%s, %s=%s)" % (ln, S.kw("kind"), kd)]
        return out + rng.choice(forms)
    if spec["kind"] is not None:
        k = spec["kind"]
        forms = ["(%s)" % k, "(" + S.kw("kind") + S.sp() + "=" + S.sp() + k + ")", "( %s )" % k]
        if k.isdigit():
            forms.append("*" + k)
        return out + S.sp() + rng.choice(forms)
    return out


def charlen_spelling(S, ln):
    """the character length written after the entity name: `*10`, `*(10)`, `*(*)`, `* ( n )` (`character c*10` is an
    equivalent spelling of `character(len=10) c`; after the name it follows the array / coarray specification)"""
    rng = S.rng
    if ln.isdigit() and rng.random() < 0.5:
        return S.sp() + "*" + S.sp() + ln
    return S.sp() + "*" + S.sp() + "(" + S.sp() + ln + S.sp() + ")"


def entity_len_choice(S, spec):
    """(type specification to write, length to write after the entity name or None): for a character entity with a
    length the length may stand after the name only, or (redundantly) in both places"""
    if spec["base"] != "character" or spec["len"] is None:
        return spec, None
    r = S.rng.random()
    if r < 0.2:
        return dict(spec, len=None), spec["len"]
    if r < 0.3:
        return spec, spec["len"]
    return spec, None


def render_decl(S, v, allow_separate=True):
    """Returns (declaration statement, [separate attribute statements])."""
    rng = S.rng
    inline, separate = [], []
    name = S.ident(v["name"])
    dims_on_name = False
    codims_on_name = True
    if v.get("codims") and v["type"]["base"] != "procedure" and rng.random() < 0.3:
        codims_on_name = False
        inline.append(S.kw("codimension") + S.sp() + v["codims"])

    def place(attr_inline, attr_stmt):
        if allow_separate and attr_stmt is not None and rng.random() < 0.3:
            separate.append(attr_stmt)
        else:
            inline.append(attr_inline)

    for a in v["attrs"]:
        if a in ("nopass", "contiguous", "value", "volatile", "asynchronous") or v["type"]["base"] == "procedure":
            inline.append(S.kw(a))
        else:
            place(S.kw(a), S.kw(a) + rng.choice([" :: ", " "]) + name)
    if v["dims"]:
        r = rng.random()
        if r < 0.45:
            dims_on_name = True
        elif r < 0.8 or not allow_separate:
            inline.append(S.kw("dimension") + S.sp() + v["dims"])
        else:
            separate.append(S.kw("dimension") + rng.choice([" :: ", " "]) + name + v["dims"])
    if v["intent"]:
        it = {"in": "in", "out": "out", "inout": rng.choice(["inout", "in out"])}[v["intent"]]
        place(S.kw("intent") + S.sp() + "(" + S.sp() + S.kw(it) + S.sp() + ")",
              S.kw("intent") + "(" + S.kw(v["intent"]) + ")" + rng.choice([" :: ", " "]) + name)
    if v["optional"]:
        place(S.kw("optional"), S.kw("optional") + rng.choice([" :: ", " "]) + name)
    sep_param = False
    if v["parameter"]:
        if allow_separate and rng.random() < 0.25 and v["type"]["len"] != "*":
            sep_param = True
            separate.append(S.kw("parameter") + S.sp() + "(" + name + " = " + v["init"] + ")")
        else:
            inline.append(S.kw("parameter"))
    rng.shuffle(inline)
    spec, elen = entity_len_choice(S, v["type"])
    decl = render_typespec(S, spec)
    ent = name + (v["dims"] if dims_on_name else "") + (v["codims"] if v.get("codims") and codims_on_name else "") \
        + (charlen_spelling(S, elen) if elen is not None else "")
    if v["init"] is not None and not sep_param:
        ent += (" => " if v["points"] else rng.choice([" = ", "=", "  =  "])) + v["init"]
    need_colons = bool(inline) or (v["init"] is not None and not sep_param) or rng.random() < 0.7 or decl.rstrip().endswith(")") is False and False
    if inline:
        decl += "".join(S.sp() + "," + S.sp() + a for a in inline)
    if need_colons:
        decl += S.sp() + "::" + S.sp() + ent
    else:
        decl += " " + ent
    return decl, separate


def end_stmt(S, word, name):
    rng = S.rng
    forms = [S.kw("end"), S.kw("end") + " " + S.kw(word), S.kw("end") + S.kw(word) if " " not in word else S.kw("end") + " " + S.kw(word)]
    if name:
        forms += [S.kw("end") + " " + S.kw(word) + " " + S.ident(name), (S.kw("end") + S.kw(word) if " " not in word else S.kw("end") + " " + S.kw(word)) + " " + S.ident(name)]
    return rng.choice(forms)


class Out:
    def __init__(self, S):
        self.lines = []
        self.S = S
        self.ind = 0

    def add(self, stmt):
        rng = self.S.rng
        for ln in stmt.split("\n"):
            # layout variation: continue the statement after a comma (outside literals), optionally
            # with a comment or blank line in between and a leading `&`
            cands = [i for i, c in enumerate(ln) if c == "," and "'" not in ln[:i] and '"' not in ln[:i] and "!" not in ln]
            if cands and rng.random() < 0.12:
                i = rng.choice(cands)
                self.lines.append(" " * self.ind + ln[: i + 1] + rng.choice([" &", "&", " &  ! trailing comment"]))
                if rng.random() < 0.4:
                    self.lines.append(rng.choice(["", " " * self.ind + "! comment between continuation lines"]))
                self.lines.append(" " * (self.ind + 4) + rng.choice(["", "& ", "&"]) + ln[i + 1:].lstrip())
                continue
            self.lines.append(" " * self.ind + ln)
        if self.S.rng.random() < 0.08:
            self.lines.append("")
        if self.S.rng.random() < 0.08:
            self.lines.append(" " * self.ind + "! an ordinary comment; call nothing(); type :: t")


STMT_ATTRS = ("allocatable", "pointer", "target", "save", "volatile", "asynchronous")


def mergeable(a, b, allow_separate=False):
    """two entities that one type declaration statement can declare together.  Where attribute statements are
    allowed the entities may differ in their attributes, intent and OPTIONAL: what they do not share is given by
    separate attribute statements that name only some entities of the line."""
    if a["type"] != b["type"] or a["parameter"] != b["parameter"]:
        return False
    if a["attrs"] == b["attrs"] and a["intent"] == b["intent"] and a["optional"] == b["optional"]:
        return True
    if not allow_separate or a["type"]["base"] == "procedure":
        return False
    differing = set(a["attrs"]) ^ set(b["attrs"])
    return all(x in STMT_ATTRS for x in differing)


def render_merged(S, vs, allow_separate=False):
    """`type, attrs :: a(dims) = init, b = init, ...` (an equivalent spelling of the separate declarations).
    Returns (declaration statement, [separate attribute statements]): attributes, intent and OPTIONAL that not
    every entity of the line has - and now and then shared ones - are written as attribute statements naming
    exactly the entities that have them, several names per statement where possible."""
    rng = S.rng
    v = vs[0]
    names = [S.ident(w["name"]) for w in vs]
    separate = []

    def stmt(kw, who):
        # one statement for all of them, or one per entity
        if len(who) > 1 and rng.random() < 0.4:
            for n in who:
                separate.append(kw + rng.choice([" :: ", " "]) + n)
        else:
            separate.append(kw + rng.choice([" :: ", " "]) + rng.choice([", ", ","]).join(who))

    inline = []
    all_attrs = []
    for w in vs:
        for a in w["attrs"]:
            if a not in all_attrs:
                all_attrs.append(a)
    for a in all_attrs:
        who = [n for n, w in zip(names, vs) if a in w["attrs"]]
        shared = len(who) == len(vs)
        can_stmt = allow_separate and a in STMT_ATTRS and v["type"]["base"] != "procedure"
        if shared and not (can_stmt and rng.random() < 0.2):
            inline.append(S.kw(a))
        else:
            stmt(S.kw(a), who)
    intents = {w["intent"] for w in vs}
    if len(intents) == 1 and v["intent"] and not (allow_separate and rng.random() < 0.2):
        inline.append(S.kw("intent") + S.sp() + "(" + S.kw(v["intent"]) + ")")
    else:
        for it in sorted(i for i in intents if i):
            stmt(S.kw("intent") + S.sp() + "(" + S.sp() + S.kw(it) + S.sp() + ")", [n for n, w in zip(names, vs) if w["intent"] == it])
    opts = [n for n, w in zip(names, vs) if w["optional"]]
    if opts and len(opts) == len(vs) and not (allow_separate and rng.random() < 0.2):
        inline.append(S.kw("optional"))
    elif opts:
        stmt(S.kw("optional"), opts)
    if v["parameter"]:
        inline.append(S.kw("parameter"))
    rng.shuffle(inline)
    ents = []
    dim_stmt = []
    shared_dims = v["dims"] if v["dims"] and all(w["dims"] == v["dims"] for w in vs) and rng.random() < 0.4 else None
    if shared_dims:
        inline.insert(rng.randrange(len(inline) + 1), S.kw("dimension") + S.sp() + shared_dims)
    spec = v["type"]
    elens = [None] * len(vs)
    if spec["base"] == "character" and spec["len"] is not None:
        r = rng.random()
        if r < 0.15:
            spec, elens = dict(spec, len=None), [v["type"]["len"]] * len(vs)
        elif r < 0.3:
            elens = [v["type"]["len"] if rng.random() < 0.5 else None for _ in vs]
    for n, w, elen in zip(names, vs, elens):
        e = n
        if w["dims"] and not shared_dims:
            if allow_separate and w["init"] is None and rng.random() < 0.25:
                dim_stmt.append(n + w["dims"])
            else:
                e += w["dims"]
        if w.get("codims"):
            e += w["codims"]
        if elen is not None:
            e += charlen_spelling(S, elen)
        if w["init"] is not None:
            e += (" => " if w["points"] else rng.choice([" = ", "=", "  =  "])) + w["init"]
        ents.append(e)
    if dim_stmt:
        separate.append(S.kw("dimension") + rng.choice([" :: ", " "]) + rng.choice([", ", ","]).join(dim_stmt))
    rng.shuffle(separate)
    return (render_typespec(S, spec) + "".join(S.sp() + "," + S.sp() + a for a in inline) + S.sp() + "::" + S.sp()
            + rng.choice([", ", ",", " , "]).join(ents)), separate


def render_spec_vars(S, out, vars_, allow_separate=True):
    pending = []
    vars_ = list(vars_)
    i = 0
    while i < len(vars_):
        v = vars_[i]
        i += 1
        group = [v]
        while i < len(vars_) and len(group) < 3 and all(mergeable(g, vars_[i], allow_separate) for g in group) and S.rng.random() < 0.4:
            group.append(vars_[i])
            i += 1
        if len(group) > 1:
            d, sep = render_merged(S, group, allow_separate)
        else:
            d, sep = render_decl(S, v, allow_separate)
        out.add(d)
        pending += sep
        if pending and S.rng.random() < 0.5:
            out.add(pending.pop(0))
    for s in pending:
        out.add(s)


def render_proc(S, out, p, in_interface=False):
    rng = S.rng
    head = ""
    pre = list(p["prefixes"])
    if p.get("module_prefix"):
        pre.append("module")
    if p["kind"] == "function" and p["rettype_prefix"]:
        pre.append(("T", render_typespec(S, p["rettype"])))
    rng.shuffle(pre)
    for x in pre:
        head += (x[1] if isinstance(x, tuple) else S.kw(x)) + " "
    head += S.kw(p["kind"]) + S.sp1() + S.ident(p["name"])
    args = ("," + S.sp()).join(S.ident(a["name"]) for a in p["args"])
    if p["args"] or p["kind"] == "function" or rng.random() < 0.5:
        head += S.sp() + "(" + args + ")"
    suffix = []
    if p["kind"] == "function" and p["result"]:
        suffix.append(S.kw("result") + S.sp() + "(" + S.ident(p["result"]) + ")")
    if p["bindc"]:
        suffix.append(S.kw("bind") + S.sp() + "(" + p["bindc"] + ")")
    rng.shuffle(suffix)
    head += "".join(" " + s for s in suffix)
    out.add(head)
    out.ind += 2
    for u in p.get("uses", []):
        out.add(S.kw("use") + " " + u["module"])
    for t in p.get("types", []):
        render_type(S, out, t)
    decls = [a for a in p["args"] if a["declared"]]
    if p["kind"] == "function" and not p["rettype_prefix"]:
        rv = {"name": p["result"] or p["name"], "type": p["rettype"], "attrs": [], "dims": None, "intent": "",
              "optional": False, "parameter": False, "init": None, "points": False}
        decls.append(rv)
    decls += p["locals"]
    order = list(decls)
    rng.shuffle(order)
    render_spec_vars(S, out, order, allow_separate=not in_interface)
    for st in p["exec"]:
        out.add(st)
    if p["contains"]:
        out.ind -= 2
        out.add(S.kw("contains"))
        out.ind += 2
        for q in p["contains"]:
            render_proc(S, out, q)
    out.ind -= 2
    out.add(end_stmt(S, p["kind"], p["name"]))


def render_type(S, out, t):
    rng = S.rng
    attrs = []
    for a in t["attrs"]:
        attrs.append(S.kw(a) if a != "bind(c)" else S.kw("bind") + "(" + rng.choice(["c", "C"]) + ")")
    if t["extends"]:
        attrs.append(S.kw("extends") + S.sp() + "(" + S.ident(t["extends"]) + ")")
    rng.shuffle(attrs)
    if attrs:
        head = S.kw("type") + "".join(S.sp() + "," + S.sp() + a for a in attrs) + S.sp() + "::" + S.sp() + S.ident(t["name"])
    else:
        head = S.kw("type") + rng.choice([" :: ", " ", "::"]) + S.ident(t["name"])
    out.add(head)
    out.ind += 2
    if t["sequence"]:
        out.add(S.kw("sequence"))
    render_spec_vars(S, out, t["components"], allow_separate=False)
    if t["bindings"] or t["finals"]:
        out.ind -= 2
        out.add(S.kw("contains"))
        out.ind += 2
        plain = [b for b in t["bindings"] if not b["generic"] and not b["deferred"] and not b["attrs"] and not b["bindings"]]
        merged = set()
        if len(plain) >= 2 and rng.random() < 0.4:
            out.add(S.kw("procedure") + " :: " + ", ".join(S.ident(b["name"]) for b in plain[:2]))
            merged = {plain[0]["name"], plain[1]["name"]}
        for b in t["bindings"]:
            if b["name"] in merged:
                continue
            if b["generic"]:
                out.add(S.kw("generic") + " :: " + b["name"] + " => " + ", ".join(b["bindings"]))
                continue
            s = S.kw("procedure")
            if b["proto"]:
                s += "(" + S.ident(b["proto"]) + ")"
            at = [S.kw(a) for a in b["attrs"]] + ([S.kw("deferred")] if b["deferred"] else [])
            rng.shuffle(at)
            s += "".join(", " + a for a in at)
            s += " :: " if (at or b["proto"] or rng.random() < 0.7) else " "
            s += S.ident(b["name"])
            if b["bindings"]:
                s += " => " + S.ident(b["bindings"][0])
            out.add(s)
        if t["finals"]:
            out.add(S.kw("final") + " :: " + ", ".join(t["finals"]))
    out.ind -= 2
    out.add(end_stmt(S, "type", t["name"]))


def render_interface(S, out, it):
    rng = S.rng
    if it["form"] == "abstract":
        out.add(S.kw("abstract") + " " + S.kw("interface"))
    elif it["form"] == "explicit":
        out.add(S.kw("interface"))
    else:
        out.add(S.kw("interface") + " " + it["name"])
    out.ind += 2
    for b in it["bodies"]:
        render_proc(S, out, b, in_interface=True)
    if it["modprocs"]:
        kw = rng.choice([S.kw("module") + " " + S.kw("procedure"), S.kw("procedure"), S.kw("module") + " " + S.kw("procedure") + " ::"])
        if rng.random() < 0.5 or len(it["modprocs"]) == 1:
            out.add(kw + " " + ", ".join(S.ident(x) for x in it["modprocs"]))
        else:
            for x in it["modprocs"]:
                out.add(kw + " " + S.ident(x))
    out.ind -= 2
    nm = it["name"] if it["form"] == "generic" and rng.random() < 0.5 else None
    out.add(S.kw("end") + " " + S.kw("interface") + (" " + nm if nm else "") if rng.random() < 0.8 else S.kw("endinterface"))


def render_scope(S, out, m, has_exec=False):
    rng = S.rng
    for u in m.get("uses", []):
        out.add(S.kw("use") + rng.choice([" ", " :: ", ", intrinsic :: "][:2]) + S.ident(u["module"]))
    if rng.random() < 0.7:
        out.add(S.kw("implicit") + " " + S.kw("none"))
    blocks = []
    for it in m.get("interfaces", []):
        if it["form"] == "abstract":
            blocks.append(("i", it))
    for t in m.get("types", []):
        blocks.append(("t", t))
    rest = [("i", it) for it in m.get("interfaces", []) if it["form"] != "abstract"] + [("e", e) for e in m.get("enums", [])]
    rng.shuffle(rest)
    vars_ = list(m.get("vars", []))
    # variables may depend on types / abstract interfaces: place them after those
    for kind, b in blocks:
        (render_interface if kind == "i" else render_type)(S, out, b)
    render_spec_vars(S, out, vars_)
    for kind, b in rest:
        if kind == "i":
            render_interface(S, out, b)
        else:
            out.add(S.kw("enum") + S.sp() + "," + S.sp() + S.kw("bind") + S.sp() + "(" + rng.choice("cC") + ")")
            out.ind += 2
            for e in b["items"]:
                out.add(S.kw("enumerator") + rng.choice([" :: ", " "]) + S.ident(e["name"]) + (" = " + e["value"] if e["value"] is not None else ""))
            out.ind -= 2
            out.add(S.kw("end") + rng.choice([" ", ""]) + S.kw("enum"))
    for c in m.get("commons", []):
        out.add(S.kw("common") + (" /" + S.sp() + S.ident(c["name"]) + S.sp() + "/ " if c["name"] else " ") + ", ".join(S.ident(v) for v in c["vars"]))
    for n in m.get("namelists", []):
        out.add(S.kw("namelist") + " /" + S.ident(n["name"]) + "/ " + ", ".join(S.ident(v) for v in n["vars"]))


def render_unit(S, out, u):
    rng = S.rng
    e = u["ent"]
    if e == "module":
        out.add(S.kw("module") + S.sp1() + S.ident(u["name"]))
        out.ind += 2
        render_scope(S, out, u)
        out.ind -= 2
        if u["procs"]:
            out.add(S.kw("contains"))
            out.ind += 2
            for p in u["procs"]:
                render_proc(S, out, p)
            out.ind -= 2
        out.add(end_stmt(S, "module", u["name"]))
    elif e == "program":
        out.add(S.kw("program") + (" " + S.ident(u["name"]) if u["name"] else ""))
        out.ind += 2
        render_scope(S, out, u)
        for st in u["exec"]:
            out.add(st)
        out.ind -= 2
        if u["procs"]:
            out.add(S.kw("contains"))
            out.ind += 2
            for p in u["procs"]:
                render_proc(S, out, p)
            out.ind -= 2
        out.add(end_stmt(S, "program", u["name"]))
    elif e == "submodule":
        anc = S.ident(u["ancestor"]) + ((S.sp() + ":" + S.sp() + S.ident(u["parent"])) if u["parent"] else "")
        out.add(S.kw("submodule") + S.sp() + "(" + S.sp() + anc + S.sp() + ")" + S.sp() + S.ident(u["name"]))
        out.ind += 2
        render_scope(S, out, u)
        out.ind -= 2
        if u["procs"] or u["modprocs"]:
            out.add(S.kw("contains"))
            out.ind += 2
            todo = [("p", p) for p in u["procs"]] + [("m", p) for p in u["modprocs"]]
            rng.shuffle(todo)
            for kind, p in todo:
                if kind == "p":
                    render_proc(S, out, p)
                else:
                    out.add(S.kw("module") + S.sp1() + S.kw("procedure") + rng.choice([" ", "  ", " :: ", "::"]) + S.ident(p["name"]))
                    out.ind += 2
                    render_spec_vars(S, out, p["locals"])
                    for st in p["exec"]:
                        out.add(st)
                    out.ind -= 2
                    out.add(end_stmt(S, "procedure", p["name"]))
            out.ind -= 2
        out.add(end_stmt(S, "submodule", u["name"]))
    elif e == "proc":
        render_proc(S, out, u)
    elif e == "blockdata":
        out.add(S.kw("block") + rng.choice([" ", ""]) + S.kw("data") + (" " + S.ident(u["name"]) if u["name"] else ""))
        out.ind += 2
        render_spec_vars(S, out, u["vars"], allow_separate=False)
        for c in u["commons"]:
            out.add(S.kw("common") + " /" + S.ident(c["name"]) + "/ " + ", ".join(c["vars"]))
        out.ind -= 2
        out.add(rng.choice([S.kw("end"), S.kw("end") + " " + S.kw("block") + " " + S.kw("data")]) + ((" " + S.ident(u["name"])) if u["name"] and False else ""))


def render_project(P, rng):
    files = {}
    for f in P["files"]:
        S = Spell(rng)
        out = Out(S)
        for u in f["units"]:
            render_unit(S, out, u)
            if rng.random() < 0.5:
                out.lines.append("")
        files[f["name"]] = "\n".join(out.lines) + "\n"
    return files


# ---------------------------------------------------------------- canonical observation

def nsp(s):
    return None if s is None else "".join(str(s).split()).lower()


def canon_var(v):
    sp = v["type"]
    base = sp["base"]
    strlen = sp["len"]
    if base == "character" and strlen is None:
        strlen = "1"
    return {
        "name": v["name"].lower(),
        "vartype": base,
        "kind": nsp(sp["kind"]),
        "strlen": nsp(strlen) if base == "character" else None,
        "proto": nsp(sp["proto"]) if sp["proto"] else None,
        "attribs": sorted(nsp(a) for a in v["attrs"]),
        "dims": nsp(v["dims"]) or "",
        "codims": nsp(v.get("codims")) or "",
        "intent": v["intent"],
        "optional": bool(v["optional"]),
        "parameter": bool(v["parameter"]),
        "initial": nsp(v["init"]),
    }


def implicit_var(name):
    """FORD documents an undeclared dummy argument with its implicit type."""
    first = name.lower()[0]
    vt = "integer" if first in "ijklmn" else "real"
    return {"name": name.lower(), "vartype": vt, "kind": None, "strlen": None, "proto": None, "attribs": [],
            "dims": "", "codims": "", "intent": "", "optional": False, "parameter": False, "initial": None}


def byname(lst):
    return sorted(lst, key=lambda x: x["name"])


def canon_proc(p, in_interface=False):
    args = []
    for a in p["args"]:
        args.append(canon_var(a) if a["declared"] else implicit_var(a["name"]))
    c = {"obj": "proc", "proctype": p["kind"], "name": p["name"].lower(), "args": args,
         "attribs": sorted(x for pre in p["prefixes"] for x in pre.split()) + (["module"] if p.get("module_prefix") else []),
         "bindC": nsp(p["bindc"]),
         "variables": byname(canon_var(v) for v in p["locals"]),
         "types": sorted((canon_type(t) for t in p.get("types", [])), key=lambda x: x["name"]),
         "procs": sorted((canon_proc(q) for q in p["contains"]), key=lambda x: x["name"])}
    c["attribs"] = sorted(c["attribs"])
    if p["kind"] == "function":
        rv = {"name": p["result"] or p["name"], "type": p["rettype"], "attrs": [], "dims": None, "intent": "",
              "optional": False, "parameter": False, "init": None, "points": False}
        c["retvar"] = canon_var(rv)
    return c


def canon_type(t):
    return {"obj": "type", "name": t["name"].lower(), "extends": nsp(t["extends"]),
            "attribs": sorted(nsp(a) for a in t["attrs"]), "sequence": t["sequence"],
            "variables": byname(canon_var(v) for v in t["components"]),
            "boundprocs": sorted(({"name": b["name"].lower(), "generic": b["generic"], "deferred": b["deferred"],
                                   "attribs": sorted(nsp(a) for a in b["attrs"]), "proto": nsp(b["proto"]),
                                   "bindings": [x.lower() for x in (b["bindings"] or [b["name"]])]} for b in t["bindings"]),
                                 key=lambda x: x["name"]),
            "finalprocs": [x.lower() for x in t["finals"]]}


def canon_interfaces(m):
    generic, absint, explicit = [], [], []
    for it in m.get("interfaces", []):
        bodies = [canon_proc(b, True) for b in it["bodies"]]
        if it["form"] == "abstract":
            absint += bodies
        elif it["form"] == "explicit":
            explicit += bodies
        else:
            generic.append({"name": it["name"].lower(), "bodies": sorted(bodies, key=lambda x: x["name"]),
                            "modprocs": [x.lower() for x in it["modprocs"]]})
    key = lambda x: x["name"]
    return sorted(generic, key=key), sorted(absint, key=key), sorted(explicit, key=key)


def canon_scope(m):
    g, a, e = canon_interfaces(m)
    enums = []
    for en in m.get("enums", []):
        vals, prev = [], -1
        for it in en["items"]:
            val = int(it["value"]) if it["value"] is not None else prev + 1
            prev = val
            vals.append({"name": it["name"].lower(), "value": str(val)})
        enums.append(vals)
    return {"variables": byname(canon_var(v) for v in m.get("vars", [])),
            "types": sorted((canon_type(t) for t in m.get("types", [])), key=lambda x: x["name"]),
            "interfaces": g, "absinterfaces": a, "explicit_interfaces": e, "enums": enums,
            "common": [{"name": (c["name"] or "").lower(), "vars": [v.lower() for v in c["vars"]]} for c in m.get("commons", [])],
            "namelists": [{"name": n["name"].lower(), "vars": [v.lower() for v in n["vars"]]} for n in m.get("namelists", [])],
            "uses": sorted(u["module"].lower() for u in m.get("uses", []))}


def canon_unit(u):
    e = u["ent"]
    if e == "proc":
        return canon_proc(u)
    if e == "blockdata":
        return {"obj": "blockdata", "name": (u["name"] or "").lower(), "variables": byname(canon_var(v) for v in u["vars"]),
                "common": [{"name": c["name"].lower(), "vars": [v.lower() for v in c["vars"]]} for c in u["commons"]]}
    c = {"obj": e, "name": (u["name"] or "").lower()}
    c.update(canon_scope(u))
    c["procs"] = sorted((canon_proc(p) for p in u["procs"]), key=lambda x: x["name"])
    if e == "submodule":
        c["ancestor"] = u["ancestor"].lower()
        c["parent"] = (u["parent"] or "").lower()
        c["modprocs"] = sorted(({"name": p["name"].lower(), "variables": byname(canon_var(v) for v in p["locals"])}
                                for p in u["modprocs"]), key=lambda x: x["name"])
    return c


def canon_project(P):
    return {f["name"]: [canon_unit(u) for u in f["units"]] for f in P["files"]}


# ---------------------------------------------------------------- observation of FORD objects

SPECIAL = {"optional", "parameter"}


def split_shape(text):
    """what FORD records behind the name of an entity (`(3)`, `[*]`, `(2,3)[2,*]`) -> (array specification +
    coarray specification, whatever follows): a leading balanced `(..)`, then a balanced `[..]`"""
    def group(t, o, c):
        if not t.startswith(o):
            return "", t
        depth = 0
        for i, ch in enumerate(t):
            depth += ch == o
            depth -= ch == c
            if depth == 0:
                return t[:i + 1], t[i + 1:]
        return "", t
    dims, rest = group(text, "(", ")")
    codims, rest = group(rest, "[", "]")
    return dims, codims, rest


def entity_length(rest):
    """`*10`, `*(10)`, `*(*)`, `*(2*n)` behind the array / coarray specification of a character entity -> the length
    it gives that entity (Fortran: the length after the name overrides the one of the type specification); None when
    the text is not such a length"""
    if not rest.startswith("*"):
        return None
    ln = rest[1:]
    if ln.startswith("("):
        depth = 0
        for i, ch in enumerate(ln):
            depth += ch == "("
            depth -= ch == ")"
            if depth == 0:
                return ln[1:i] if i == len(ln) - 1 and i > 1 else None
        return None
    return ln if ln.isdigit() else None


def obs_var(v):
    if not hasattr(v, "vartype"):
        return {"name": str(getattr(v, "name", v)).lower(), "notvar": type(v).__name__}
    attribs = [nsp(a) for a in v.attribs]
    # FORD keeps what follows the name of an entity as written (it shows `character(len=1) :: c*10`, a declaration
    # equivalent to the source): array specification, coarray specification, character length
    dims, codims, rest = split_shape(nsp(v.dimension) or "")
    strlen = nsp(v.strlen)
    if v.vartype == "character" and entity_length(rest) is not None:
        strlen, rest = entity_length(rest), ""
    keep = []
    optional = bool(v.optional)
    parameter = bool(v.parameter)
    intent = v.intent or ""
    for a in attribs:
        if a.startswith("dimension("):
            dims = a[len("dimension"):]
        elif a.startswith("codimension["):
            codims = a[len("codimension"):]
        elif a == "optional":
            optional = True
        elif a == "parameter":
            parameter = True
        elif a.startswith("intent("):
            intent = a[7:-1]
        else:
            keep.append(a)
    proto = None
    if v.proto:
        p0 = v.proto[0]
        proto = nsp(getattr(p0, "name", p0))
    return {"name": v.name.lower(), "vartype": v.vartype, "kind": nsp(v.kind),
            "strlen": strlen, "proto": proto, "attribs": sorted(keep), "dims": dims + rest, "codims": codims,
            "intent": intent, "optional": optional, "parameter": parameter, "initial": nsp(v.initial)}


def obs_arg(a, declared_names):
    if hasattr(a, "vartype"):
        o = obs_var(a)
        if a.name.lower() not in declared_names:
            return {"name": a.name.lower(), "implicit": True}
        return o
    return {"name": str(getattr(a, "name", a)).lower(), "notvar": type(a).__name__}


def obs_proc(p, abstract_proc=None):
    ap = abstract_proc
    declared = None
    args = []
    for a in p.args:
        args.append(obs_var(a) if hasattr(a, "vartype") else {"name": str(a).lower(), "str": True})
    o = {"obj": "proc", "proctype": p.proctype.lower(), "name": p.name.lower(), "args": args,
         "attribs": sorted(nsp(a) for a in p.attribs), "bindC": nsp(p.bindC),
         "variables": byname(obs_var(v) for v in p.variables),
         "types": sorted((obs_type(t) for t in (getattr(p, "types", []) or [])), key=lambda x: x["name"]),
         "procs": sorted((obs_proc(q) for q in list(getattr(p, "subroutines", [])) + list(getattr(p, "functions", []))),
                         key=lambda x: x["name"])}
    if p.proctype.lower() == "function":
        o["retvar"] = obs_var(p.retvar) if hasattr(p.retvar, "vartype") else {"name": str(p.retvar).lower(), "str": True}
    extra = {}
    for lst in ("interfaces", "absinterfaces", "enums", "common", "namelists"):
        n = len(getattr(p, lst, []) or [])
        if n:
            extra[lst] = n
    if extra:
        o["unexpected_children"] = extra
    return o


def obs_type(t):
    return {"obj": "type", "name": t.name.lower(), "extends": nsp(getattr(t.extends, "name", t.extends)),
            "attribs": sorted(nsp(a) for a in t.attribs), "sequence": bool(t.sequence),
            "variables": byname(obs_var(v) for v in t.variables),
            "boundprocs": sorted(({"name": b.name.lower(), "generic": bool(b.generic), "deferred": bool(b.deferred),
                                   "attribs": sorted(nsp(a) for a in b.attribs), "proto": nsp(getattr(b.proto, "name", b.proto)),
                                   "bindings": [str(getattr(x, "name", x)).lower() for x in b.bindings]} for b in t.boundprocs),
                                 key=lambda x: x["name"]),
            "finalprocs": [str(getattr(f, "name", f)).lower() for f in t.finalprocs]}


def obs_scope(m):
    generic, explicit = [], []
    for it in m.interfaces:
        if getattr(it, "generic", False):
            bodies = sorted((obs_proc(r) for r in list(it.subroutines) + list(it.functions)), key=lambda x: x["name"])
            generic.append({"name": it.name.lower(), "bodies": bodies, "modprocs": [mp.name.lower() for mp in it.modprocs]})
        else:
            explicit.append(obs_proc(it.procedure))
    absint = [obs_proc(it.procedure) for it in m.absinterfaces]
    key = lambda x: x["name"]
    enums = [[{"name": v.name.lower(), "value": nsp(v.initial)} for v in e.variables] for e in getattr(m, "enums", [])]
    return {"variables": byname(obs_var(v) for v in m.variables),
            "types": sorted((obs_type(t) for t in m.types), key=key),
            "interfaces": sorted(generic, key=key), "absinterfaces": sorted(absint, key=key),
            "explicit_interfaces": sorted(explicit, key=key), "enums": enums,
            "common": [{"name": (c.name or "").lower(), "vars": [str(getattr(v, "name", v)).lower() for v in c.variables]} for c in getattr(m, "common", [])],
            "namelists": [{"name": n.name.lower(), "vars": [str(getattr(v, "name", v)).lower() for v in n.variables]} for n in getattr(m, "namelists", [])],
            "uses": sorted(str(getattr(u[0], "name", u[0])).lower() if isinstance(u, (list, tuple)) else str(getattr(u, "name", u)).lower() for u in m.uses)}


def uname(n):
    """FORD shows unnamed units as '<em>unnamed</em>' / ''."""
    n = (n or "").lower()
    return "" if n == "<em>unnamed</em>" else n


def obs_file(f):
    """Units of a FortranSourceFile in source order are not recorded by FORD (separate lists);
    returned as a dict keyed by (obj, name)."""
    units = []
    for m in f.modules:
        c = {"obj": "module", "name": m.name.lower()}
        c.update(obs_scope(m))
        c["procs"] = sorted((obs_proc(p) for p in list(m.subroutines) + list(m.functions)), key=lambda x: x["name"])
        units.append(c)
    for m in f.submodules:
        c = {"obj": "submodule", "name": m.name.lower()}
        c.update(obs_scope(m))
        c["procs"] = sorted((obs_proc(p) for p in list(m.subroutines) + list(m.functions)), key=lambda x: x["name"])
        c["ancestor"] = str(getattr(m.ancestor_module, "name", m.ancestor_module) or "").lower()
        c["parent"] = str(getattr(m.parent_submodule, "name", m.parent_submodule) or "").lower()
        c["modprocs"] = sorted(({"name": p.name.lower(), "variables": byname(obs_var(v) for v in p.variables)}
                                for p in m.modprocedures), key=lambda x: x["name"])
        units.append(c)
    for p in f.programs:
        c = {"obj": "program", "name": uname(p.name)}
        c.update(obs_scope(p))
        c["procs"] = sorted((obs_proc(q) for q in list(p.subroutines) + list(p.functions)), key=lambda x: x["name"])
        units.append(c)
    for p in list(f.subroutines) + list(f.functions):
        units.append(obs_proc(p))
    for b in f.blockdata:
        units.append({"obj": "blockdata", "name": uname(b.name), "variables": byname(obs_var(v) for v in b.variables),
                      "common": [{"name": (c.name or "").lower(), "vars": [str(getattr(v, "name", v)).lower() for v in c.variables]} for c in b.common]})
    return units


def unit_key(u):
    return (u["obj"], u["name"])


def diff(a, b, path=""):
    """First difference between two JSON-like values (None when equal)."""
    if type(a) != type(b):
        return f"{path}: {a!r} != {b!r}"
    if isinstance(a, dict):
        for k in sorted(set(a) | set(b)):
            if k not in a or k not in b:
                return f"{path}.{k}: {'missing in expected' if k not in a else 'missing in observed'} ({(b if k not in a else a)[k]!r})"
            d = diff(a[k], b[k], f"{path}.{k}")
            if d:
                return d
        return None
    if isinstance(a, list):
        if len(a) != len(b):
            na = [x.get("name") if isinstance(x, dict) else x for x in a]
            nb = [x.get("name") if isinstance(x, dict) else x for x in b]
            return f"{path}: length {len(a)} != {len(b)} (expected {na}, observed {nb})"
        for i, (x, y) in enumerate(zip(a, b)):
            d = diff(x, y, f"{path}[{x.get('name', i) if isinstance(x, dict) else i}]")
            if d:
                return d
        return None
    return None if a == b else f"{path}: expected {a!r} observed {b!r}"


def diff_all(a, b, path="", limit=12):
    """EVERY difference between two JSON-like values (a list of texts in the format of `diff`, [] when equal): a
    difference that belongs to a listed defect must not hide another one in the same file"""
    out = []

    def go(a, b, path):
        if len(out) >= limit:
            return
        if type(a) != type(b):
            out.append(f"{path}: {a!r} != {b!r}")
        elif isinstance(a, dict):
            for k in sorted(set(a) | set(b)):
                if k not in a or k not in b:
                    out.append(f"{path}.{k}: {'missing in expected' if k not in a else 'missing in observed'} ({(b if k not in a else a)[k]!r})")
                else:
                    go(a[k], b[k], f"{path}.{k}")
        elif isinstance(a, list):
            if len(a) != len(b):
                out.append(diff(a, b, path))
            else:
                for i, (x, y) in enumerate(zip(a, b)):
                    go(x, y, f"{path}[{x.get('name', i) if isinstance(x, dict) else i}]")
        elif a != b:
            out.append(f"{path}: expected {a!r} observed {b!r}")

    go(a, b, path)
    return out[:limit]
