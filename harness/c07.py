"""C07 - cross-references resolve to the entity Fortran scoping designates.

Stream `reuse`: abstract projects in name-reuse mode (harness/c07_gen.py) are
rendered to source files, parsed and correlated by the real FORD in-process
(`Project(settings)`, `Project.correlate()`); for every reference slot the
object FORD stored is mapped back to the abstract entity (or `text`).
  (a) correspondence: equal, slot by slot, to the Lean model `corrProject` run on
      the same abstract project; the four variants (shared/copied host tables x
      host-over-local/local-over-host procedures) are all run and the one that
      agrees everywhere is the variant the working tree implements;
  (b) property oracle: equal to the entity designated by Fortran scoping, computed
      by `c07_gen.oracle` (independent of the model), which is itself cross-checked
      with the Lean specification `specProject`.
Failing slots are classified into the known defect classes (known_findings/C07.json)
by decidable predicates on the abstract project.
"""
from __future__ import annotations

import json
import random
from pathlib import Path

from . import common
from . import c07_gen as G
from .common import Driver, Report, lean_prove

PROP = "C07"
# alias, hostOverLocal, blockUse ; "000" = repaired, "111" = as found.  blockUse = a USE statement
# inside a BLOCK construct is filed in the enclosing code unit
VARIANTS = ["000", "110", "100", "010", "001", "111", "101", "011"]
_VN = {"00": "repaired (copied host tables, local over host)", "11": "asIs (shared host tables, host over local)",
       "10": "shared host tables, local over host", "01": "copied host tables, host over local"}
VARIANT_NAME = {v: _VN[v[:2]] + ("; USE inside a BLOCK is filed in the enclosing unit" if v[2] == "1"
                                 else "; USE inside a BLOCK imports nothing into the enclosing unit") for v in VARIANTS}
UNOBS = "unobserved"


def translate():
    from translate import c07 as T

    T.generate()


def build_ford(ford, root: Path, files: dict):
    import ford.sourceform as sf
    from ford.fortran_project import Project
    from ford.settings import ProjectSettings

    src = root / "src"
    if src.exists():
        for p in src.iterdir():
            p.unlink()
    src.mkdir(parents=True, exist_ok=True)
    for name, text in files.items():
        (src / name).write_text(text)
    sf.namelist = sf.NameSelector()
    settings = ProjectSettings(src_dir=[src], preprocess=False, warn=False,
                               display=["public", "private", "protected"])
    with common.quiet():
        return Project(settings)


def byname(lst, name):
    for o in lst:
        if o.name.lower() == name.lower():
            return o
    raise KeyError(name)


def register(F: G.Flat, project):
    """Map abstract scopes/entities/slots to FORD objects (before correlate)."""
    ent_of = {}
    readers = {}
    top = {}
    for m in project.modules:
        top[("module", m.name.lower())] = m
    for p in project.programs:
        top[("program", p.name.lower())] = p
    for p in project.procedures:
        top[(p.obj if p.obj in ("function", "subroutine") else p.proctype.lower(), p.name.lower())] = p
    objs = {}
    leaked = set()  # block-local entities / variables FORD files in the enclosing unit
    for sidx, rec in enumerate(F.scopes):
        node = rec["node"]
        if rec.get("block"):
            objs[sidx] = None
            continue
        if rec["parent"] is None:
            key = rec["path"][0]
            obj = top.get(key)
            if obj is None:
                # external procedures: obj == 'proc'
                obj = next(p for p in project.procedures if p.name.lower() == key[1])
        else:
            par = objs[rec["parent"]]
            obj = byname(par.functions if node["kind"] == "function" else par.subroutines, node["name"])
        objs[sidx] = obj
        ent_of[id(obj)] = rec["ent"]
        for n, e in rec["local"]["t"].items():
            ent_of[id(byname(obj.types, n))] = e
        for n, e in rec["local"]["a"].items():
            ent_of[id(byname(obj.absinterfaces, n))] = e
        for n, e in rec["local"]["p"].items():
            cls = F.ents[e]["cls"]
            if cls == "proc":
                continue  # registered with its own scope
            want_generic = cls == "generic"
            o = next(i for i in obj.interfaces if i.name.lower() == n and bool(getattr(i, "generic", False)) == want_generic)
            ent_of[id(o)] = e
        generics = [i for i in obj.interfaces if getattr(i, "generic", False)]
        for i in rec["slots"]:
            g = F.slots[i]["get"]
            k = g[0]
            if k == "extends":
                t = obj.types[g[1]]
                readers[i] = (lambda t=t: t.extends)
            elif k == "comp":
                v = obj.types[g[1]].variables[g[2]]
                readers[i] = (lambda v=v: v.proto[0])
            elif k == "bind":
                b = byname(obj.types[g[1]].boundprocs, g[2])
                readers[i] = (lambda b=b: b.bindings[0])
            elif k == "defer":
                b = byname(obj.types[g[1]].boundprocs, g[2])
                readers[i] = (lambda b=b: b.proto)
            elif k == "final":
                f = obj.types[g[1]].finalprocs[g[2]]
                readers[i] = (lambda f=f: f.procedure)
            elif k == "ctor":
                t = obj.types[g[1]]
                readers[i] = (lambda t=t: t.constructor)
            elif k == "modproc":
                mp = generics[g[1]].modprocs[g[2]]
                readers[i] = (lambda mp=mp: mp.procedure)
            elif k == "var":
                v = byname(obj.variables, g[1])
                readers[i] = (lambda v=v: v.proto[0])
            elif k == "arg":
                v = obj.args[g[1]]
                readers[i] = (lambda v=v: v.proto[0])
            elif k == "ret":
                v = obj.retvar
                readers[i] = (lambda v=v: v.proto[0])
        _register_blocks(F, sidx, obj, ent_of, readers, leaked)
    return ent_of, readers, objs, leaked


def _blocks_of(F, sidx):
    """the BLOCK scopes in the execution part of code unit `sidx`, in source order (nested ones included)"""
    out = []
    for b in F.scopes[sidx]["blocks"]:
        out.append(b)
        out += _blocks_of(F, b)
    return out


def _register_blocks(F, sidx, obj, ent_of, readers, leaked):
    """FORD has no object for a BLOCK.  Whatever the implementation under test nevertheless files
    in the enclosing unit `obj` beyond the unit's own declarations is matched, by name and in
    source order, with the block-local declarations: the objects get the block entities' ids, the
    references they hold become observable (optional slots)."""
    blocks = _blocks_of(F, sidx)
    if not blocks:
        return
    node = F.scopes[sidx]["node"]
    extra_t = list(obj.types[len(node["types"]):])
    extra_a = list(obj.absinterfaces[len(node["absints"]):])
    extra_i = list(obj.interfaces[len(node["ifaces"]) + len(node["generics"]):])
    own_vars = {v["name"].lower() for v in node["vars"]}
    for b in blocks:
        rec = F.scopes[b]
        bn = rec["node"]
        tobj = {}
        for ti, t in enumerate(bn["types"]):
            o = next((x for x in extra_t if x.name.lower() == t["name"].lower()), None)
            if o is not None:
                extra_t.remove(o)
                ent_of[id(o)] = rec["local"]["t"][t["name"].lower()]
                leaked.add(ent_of[id(o)])
                tobj[ti] = o
        for a in bn["absints"]:
            o = next((x for x in extra_a if x.name.lower() == a.lower()), None)
            if o is not None:
                extra_a.remove(o)
                ent_of[id(o)] = rec["local"]["a"][a.lower()]
                leaked.add(ent_of[id(o)])
        for a in bn["ifaces"]:
            o = next((x for x in extra_i if x.name.lower() == a.lower()), None)
            if o is not None:
                extra_i.remove(o)
                ent_of[id(o)] = rec["local"]["p"][a.lower()]
                leaked.add(ent_of[id(o)])
        for i in rec["slots"]:
            g = F.slots[i]["get"]
            if g[0] == "extends" and g[1] in tobj:
                readers[i] = (lambda t=tobj[g[1]]: t.extends)
            elif g[0] == "comp" and g[1] in tobj and g[2] < len(tobj[g[1]].variables):
                readers[i] = (lambda v=tobj[g[1]].variables[g[2]]: v.proto[0])
            elif g[0] == "var" and g[1].lower() not in own_vars:
                v = next((x for x in obj.variables if x.name.lower() == g[1].lower()), None)
                if v is not None:
                    leaked.add(f"variable {g[1]}")
                    readers[i] = (lambda v=v: v.proto[0])


def observe(F: G.Flat, project):
    """Run correlate; slot -> ent | None (text) | ('?', description); or the string 'raise'."""
    alias_obs = []
    try:
        ent_of, readers, objs, leaked = register(F, project)
    except (StopIteration, KeyError, IndexError, AttributeError) as e:
        # a unit / entity of the generated (valid) project is missing from FORD's object tree:
        # the file was not parsed, or a declaration was filed somewhere else
        return ("crash", f"object tree differs from the project ({type(e).__name__}: {e})"), alias_obs, set()
    try:
        with common.quiet():
            project.correlate()
    except RuntimeError as e:
        if "Could not find interface procedure" in str(e):
            return "raise", alias_obs, leaked
        return ("crash", f"{type(e).__name__}: {e}"), alias_obs, leaked
    except AttributeError as e:
        # FortranType.correlate: `proc.procedure.num_lines` of a finaliser that was not found
        if "num_lines" in str(e):
            return "raise", alias_obs, leaked
        return ("crash", f"{type(e).__name__}: {e}"), alias_obs, leaked
    except Exception as e:  # correlate() must not fail on a valid project; reported as a broken tie
        return ("crash", f"{type(e).__name__}: {e}"), alias_obs, leaked
    obs = {}
    for i, rd in readers.items():
        o = rd()
        if o is None or isinstance(o, str):
            obs[i] = None
        elif id(o) in ent_of:
            obs[i] = ent_of[id(o)]
        else:
            obs[i] = ("?", f"{type(o).__name__}:{getattr(o, 'name', '')}")
    # direct look at the aliasing the model threads through the traversal
    for i, sl in enumerate(F.slots):
        if sl.get("optional") and i not in obs:
            obs[i] = UNOBS
    for sidx, rec in enumerate(F.scopes):
        if rec["parent"] is not None and not rec.get("block"):
            c, p = objs[sidx], objs[rec["parent"]]
            alias_obs.append(getattr(c, "all_types", None) is getattr(p, "all_types", 0)
                             and getattr(c, "all_absinterfaces", None) is getattr(p, "all_absinterfaces", 0))
    return obs, alias_obs, leaked


def parse_res(fields):
    """slot -> ent | None, and under the key "reg" the set of block-local declarations the model
    says are filed in an enclosing unit"""
    if not fields or fields[0] != "ok":
        raise common.Infra(f"model answered {fields[:2]}")
    out = {"reg": set()}
    for f in fields[1:]:
        if f.startswith("r:"):
            out["reg"].add(int(f[2:]))
            continue
        k, v = f.split("=")
        out[int(k)] = None if v == "-" else int(v)
    return out


def describe(F, e):
    if e is None:
        return "text"
    if isinstance(e, tuple):
        return f"unregistered object {e[1]}"
    d = F.ents[e]
    return f"{d['cls']} {d['name']} declared in {d['path'][0] if d['path'] else 'file'}"


def case_of(P, files, F, i, exp, obs, why):
    sl = F.slots[i]
    return {"stream": "reuse", "project": P, "files": files,
            "slot": {"id": i, "owner": "/".join(f"{k}:{n}" for k, n in F.scopes[sl["scope"]]["path"]),
                     "what": sl["what"], "name": sl["name"]},
            "expected": describe(F, exp), "observed": describe(F, obs), "why": why}


def run(tier: str, seed: int, replay: str | None = None) -> int:
    rep = Report(PROP, tier, seed)
    lean = lean_prove(PROP, translate=translate, thorough=(tier == "thorough"))
    for b in lean.broken():
        rep.tie_broken("proof: " + b)
    ford = common.import_ford()
    drv = Driver()
    rng = random.Random(seed * 104729 + 7)
    n_cases = 1500 if tier == "quick" else 12000
    n_chain = 400 if tier == "quick" else 3000
    n_ren = 400 if tier == "quick" else 3000
    n_blk = 350 if tier == "quick" else 3000
    cases = []
    if replay:
        data = json.loads(Path(replay).read_text())
        for c in data.get("cases", []) + data.get("first_disagreements", []):
            if "project" in c and "files" in c:
                cases.append((c["project"], c["files"]))
    # the witnesses of the known findings are always replayed first
    kf = json.loads((common.VERIF / "known_findings" / f"{PROP}.json").read_text()).get("findings", [])
    for f in kf:  # open and fixed ones alike (a fixed witness is a regression case)
        w = f.get("witness", {})
        if "project" in w:
            cases.append((w["project"], {"w.f90": "\n".join(_render_units(w["project"])) + "\n"}))
    n_fixed = len(cases)
    for k in range(n_cases):
        P = G.gen_project(rng, size=rng.choice([1, 2, 3]))
        cases.append((P, G.render_project(P, rng)))
    for k in range(n_chain):
        P = G.gen_chain_project(rng)
        files = G.render_project(P, rng)
        if rng.random() < 0.5:
            # units in reverse file order / separate files: correlation order must come from USE, not from the files
            files = {f"g{9 - j}.f90": "\n".join(_render_units({"units": [u]})) + "\n" for j, u in enumerate(P["units"])}
        cases.append((P, files))

    for k in range(n_ren):
        # renames on USE statements (with and without ONLY) next to same-named entities
        P = G.gen_rename_project(rng)
        cases.append((P, G.render_project(P, rng)))

    for k in range(n_blk):
        # BLOCK constructs declaring / use-associating names that also exist outside them
        P = G.gen_block_project(rng)
        cases.append((P, G.render_project(P, rng)))

    flats = [G.Flat(P) for P, _ in cases]
    reqs = []
    req_at = []  # per case: variant -> index of its request (a project without a USE inside a BLOCK
    #              is the same input for both values of the third switch)
    for F in flats:
        has_block_use = any(rec.get("block") and rec["node"]["uses"] for rec in F.scopes)
        at = {}
        for v in VARIANTS:
            if v[2] == "1" and not has_block_use:
                at[v] = at[v[:2] + "0"]
                continue
            at[v] = len(reqs)
            reqs.append(["c07.run", v] + F.tokens)
        at["spec"] = len(reqs)
        reqs.append(["c07.spec"] + F.tokens)
        req_at.append(at)
    answers = drv.batch(reqs)

    mism = {v: 0 for v in VARIANTS}
    first_mism = {v: None for v in VARIANTS}
    hist = {"cases": 0, "raise": 0, "slots": 0, "slots_resolved": 0, "slots_text": 0, "oracle_skipped_not_fortran": 0,
            "oracle_checked": 0, "oracle_fail": 0, "alias_pairs": 0, "alias_pairs_shared": 0,
            "crash": 0, "block_slots_recorded_by_ford": 0, "block_declarations_filed_in_enclosing_unit": 0}
    kinds_hist: dict[str, int] = {}
    reuse_hist = {"sibling_same_type_name": 0, "inner_proc_shadows_host": 0, "two_modules_same_name": 0,
                  "module_vs_external": 0, "case_only_difference": 0, "undeclared_name_referenced": 0,
                  "use_rename_without_only": 0, "use_rename_with_only": 0, "renamed_away_name_referenced_in_scope": 0,
                  "renamed_away_name_referenced_expect_text": 0, "renamed_away_name_referenced_expect_other_entity": 0,
                  "variants_distinguishing_case": 0,
                  "projects_with_block": 0, "blocks": 0, "nested_blocks": 0, "block_use_statements": 0,
                  "block_local_name_also_visible_outside": 0, "block_local_name_referenced_outside": 0,
                  "block_local_name_referenced_outside_expect_text": 0,
                  "block_local_name_referenced_outside_expect_other_entity": 0,
                  "block_used_name_referenced_outside": 0, "block_use_distinguishing_case": 0}
    distinct = set()
    samples = []
    spec_diff = 0
    fails = []
    pending = []
    with common.scratch_dir() as d:
        for k, ((P, files), F) in enumerate(zip(cases, flats)):
            parsed = {}
            for v in VARIANTS + ["spec"]:
                if req_at[k][v] not in parsed:
                    parsed[req_at[k][v]] = parse_res(answers[req_at[k][v]])
            model = {v: parsed[req_at[k][v]] for v in VARIANTS}
            spec = parsed[req_at[k]["spec"]]
            exp, where, frames = G.oracle(F)
            project = build_ford(ford, d, files)
            obs, alias_obs, leaked = observe(F, project)
            hist["cases"] += 1
            hist["alias_pairs"] += len(alias_obs)
            hist["alias_pairs_shared"] += sum(alias_obs)
            _reuse_stats(F, frames, reuse_hist)
            _rename_stats(F, exp, reuse_hist)
            _block_stats(F, frames, exp, reuse_hist)

            def _key(m):
                return json.dumps(sorted((str(a), sorted(b) if isinstance(b, set) else b) for a, b in m.items()))

            if len({_key(model[v]) for v in VARIANTS}) > 1:
                reuse_hist["variants_distinguishing_case"] += 1
            if _key(model["000"]) != _key(model["001"]):
                reuse_hist["block_use_distinguishing_case"] += 1
            # Lean spec vs python oracle (both independent of the mechanism)
            for i, e in exp.items():
                if F.slots[i].get("optional"):
                    continue  # references inside a BLOCK are not part of the model's encoding
                if e != G.SKIP and not F.slots[i].get("ctor") and spec.get(i, "missing") != e:
                    spec_diff += 1
                    rep.tie_broken(f"oracle cross-check: Lean spec {spec.get(i)} vs harness oracle {e} on slot {i} of case {k}",
                                   case_of(P, files, F, i, e, spec.get(i), "Lean specProject and harness oracle differ"))
            if obs == "raise":
                hist["raise"] += 1
                for v in VARIANTS:
                    pred = any(model[v][i] is None for i, sl in enumerate(F.slots) if sl.get("must"))
                    if not pred:
                        mism[v] += 1
                        first_mism[v] = first_mism[v] or {"stream": "reuse", "project": P, "files": files,
                                                          "why": "FORD raised (unknown specific procedure / finaliser), model resolves all of them"}
                continue
            if isinstance(obs, tuple) and obs[0] == "crash":
                # correlate() failed on a valid project: no variant of the model predicts that
                hist["crash"] += 1
                for v in VARIANTS:
                    mism[v] += 1
                    first_mism[v] = first_mism[v] or {"stream": "reuse", "project": P, "files": files,
                                                      "why": f"parse / Project.correlate() failed: {obs[1]}"}
                continue
            hist["block_declarations_filed_in_enclosing_unit"] += len(leaked)
            for v in VARIANTS:
                if any(model[v][i] is None for i, sl in enumerate(F.slots) if sl.get("must")):
                    mism[v] += 1
                    first_mism[v] = first_mism[v] or {"stream": "reuse", "project": P, "files": files,
                                                      "why": "model predicts the exception for an unknown specific procedure / finaliser, FORD did not raise"}
                    continue
                # the parse step: which block-local declarations are filed in the enclosing unit
                if {x for x in leaked if isinstance(x, int)} != model[v]["reg"] or any(isinstance(x, str) for x in leaked):
                    mism[v] += 1
                    if first_mism[v] is None:
                        first_mism[v] = {"stream": "reuse", "project": P, "files": files,
                                         "why": f"model variant {v}: block-local declarations filed in the enclosing unit "
                                                f"{sorted(describe(F, e) for e in model[v]['reg'])}, FORD files "
                                                f"{sorted(describe(F, e) if isinstance(e, int) else e for e in leaked)}"}
                    continue
                for i in range(len(F.slots)):
                    if F.slots[i].get("optional"):
                        if obs.get(i, UNOBS) == UNOBS:
                            continue
                        # the model: FORD records no reference inside a BLOCK
                        mism[v] += 1
                        if first_mism[v] is None:
                            first_mism[v] = case_of(P, files, F, i, None, obs.get(i), f"model variant {v}: no reference is recorded "
                                                    "inside a BLOCK; FORD records one")
                        break
                    if model[v].get(i, "missing") != obs.get(i, "unobserved"):
                        mism[v] += 1
                        if first_mism[v] is None:
                            first_mism[v] = case_of(P, files, F, i, model[v].get(i), obs.get(i), f"model variant {v} vs FORD")
                        break
            if len(F.slots) >= 3:
                distinct.add(common.digest(F.tokens))
            for i, sl in enumerate(F.slots):
                if sl.get("optional"):
                    if obs.get(i, UNOBS) == UNOBS:
                        continue
                    hist["block_slots_recorded_by_ford"] += 1
                hist["slots"] += 1
                kinds_hist[sl["get"][0]] = kinds_hist.get(sl["get"][0], 0) + 1
                o = obs.get(i)
                if o is None:
                    hist["slots_text"] += 1
                else:
                    hist["slots_resolved"] += 1
                e = exp[i]
                if e == G.SKIP:
                    hist["oracle_skipped_not_fortran"] += 1
                    continue
                hist["oracle_checked"] += 1
                if o != e:
                    hist["oracle_fail"] += 1
                    pending.append((k, i, e, o, {v: model[v].get(i, "missing") for v in VARIANTS}, (frames, where)))
            if len(samples) < 2 and len(F.slots) >= 4:
                samples.append({"files": files, "slots": [
                    {"owner": "/".join(n for _, n in F.scopes[sl["scope"]]["path"]), "what": sl["what"], "name": sl["name"],
                     "ford": describe(F, obs.get(i)), "expected": "not Fortran" if exp[i] == G.SKIP else describe(F, exp[i])}
                    for i, sl in enumerate(F.slots) if obs.get(i, UNOBS) != UNOBS][:12]})
    drv.close()
    agreeing = [v for v in VARIANTS if mism[v] == 0]
    variant = agreeing[0] if agreeing else None
    if variant is None:
        best = min(VARIANTS, key=lambda v: mism[v])
        rep.tie_broken(f"correspondence reuse: no model variant agrees with the implementation "
                       f"(disagreeing cases per variant {mism}); closest {best}", first_mism[best])
    else:
        # a variant that is not excluded by any case is only decided if some case distinguishes them
        if len(agreeing) > 1 and reuse_hist["variants_distinguishing_case"] == 0:
            rep.tie_broken("correspondence reuse: no generated case distinguishes the model variants")
        if variant[:2] + "0" in agreeing and variant[:2] + "1" in agreeing and not replay:
            rep.tie_broken("correspondence reuse: no generated case decides whether a USE statement inside a BLOCK "
                           "is filed in the enclosing unit")
        try:
            from translate import c07 as T
            tv = T.code_variant()
            tv = None if tv is None else tv + T.block_variant()
            if tv is not None and tv != variant and len(agreeing) == 1:
                rep.tie_broken(f"translator reads variant {tv} from the source of FortranCodeUnit.correlate, "
                               f"differential execution decides {variant}")
        except Exception as e:  # translator failure is already reported by lean_prove
            pass
    # A failing slot belongs to a known defect class only if (1) the decidable class predicate on
    # the abstract project holds and (2) the model variant the tree corresponds to (the closest one
    # when none agrees everywhere) puts exactly FORD's wrong entity into that slot - i.e. the
    # failure is the one the defect switches of the model reproduce.  Everything else is new.
    vref = variant if variant is not None else min(VARIANTS, key=lambda v: mism[v])
    for k, i, e, o, mv, (frames, where) in pending:
        cls = G.classify(flats[k], frames, where, i, o if not isinstance(o, tuple) else None, block_use=(vref[2] == "1"))
        if cls is not None and mv[vref] != o:
            cls = None
        if cls == "C07-shared-type-tables-leak" and vref[0] == "0":
            cls = None
        if cls == "C07-host-procedure-beats-local" and vref[1] == "0":
            cls = None
        fails.append((k, i, cls))
        P, files = cases[k]
        rep.failing_input(case_of(P, files, flats[k], i, e, o, "slot does not hold the entity Fortran scoping designates"), cls)
    by_cls: dict[str, int] = {}
    for _, _, cls in fails:
        by_cls[str(cls)] = by_cls.get(str(cls), 0) + 1
    rep.coverage.update(
        evaluations=hist["slots"] + hist["raise"],
        distinct_nontrivial=len(distinct),
        rule="one evaluation = one reference slot of one generated project compared (model vs FORD object, and oracle vs FORD object); "
             "non-trivial project = at least 3 reference slots, distinct by digest of the abstract encoding",
        samples=samples,
        traces_validated_against_impl=hist["cases"],
        variant_decided=VARIANT_NAME.get(variant, "none"),
        variant_disagreeing_cases=mism,
        histogram=hist,
        slot_kind_histogram=dict(sorted(kinds_hist.items())),
        name_reuse_histogram=reuse_hist,
        oracle_failures_by_class=by_cls,
        oracle_crosscheck_differences=spec_diff,
        fixed_cases=n_fixed,
        random_cases=n_cases,
        chain_cases=n_chain,
        rename_cases=n_ren,
        block_cases=n_blk,
    )
    rep.assumptions += [
        "implicit typing, IMPORT statements, submodules, common blocks and namelists are outside the abstract projects",
        "BLOCK constructs: derived types without CONTAINS part, abstract interfaces, interface blocks, variables, USE statements "
        "and nested BLOCKs; FORD has no object for a BLOCK and records no reference inside it - such references are evaluated "
        "(oracle: the BLOCK's own frame first) only when the implementation under test does record them",
        "all abstract modules have default accessibility PUBLIC (accessibility is C04/C06)",
        "interface bodies declare nothing and are not scopes of the abstract project",
        "the threaded tables of the model stand for the single dict object FORD shares between a unit and its nested units; "
        "the identity `child.all_types is parent.all_types` is observed directly (alias_pairs_shared)",
    ]
    return rep.finish(lean)


def _render_units(P):
    out = []
    for u in P["units"]:
        G.render_scope(u, out)
    return out


def _block_stats(F, frames, exp, h):
    """how often BLOCK constructs meet the names around them"""
    blocks = [k for k, rec in enumerate(F.scopes) if rec.get("block")]
    if not blocks:
        return
    h["projects_with_block"] += 1
    for b in blocks:
        rec = F.scopes[b]
        h["blocks"] += 1
        if F.scopes[rec["parent"]].get("block"):
            h["nested_blocks"] += 1
        h["block_use_statements"] += len(rec["node"]["uses"])
        owner = rec["owner"]
        local = {(ns, n) for ns in "tpa" for n in rec["local"][ns]}
        used = {(ns, n) for ns in "tpa" for n in F.use_frames.get(b, {}).get(ns, {})}
        # the name is also visible from the enclosing unit (shadowing inside the BLOCK)
        s = owner
        seen = set()
        while s is not None:
            for ns, n in local:
                if n in frames[s]["t" if ns == "t" else "p"] or (ns != "t" and n in frames[s]["a"]):
                    seen.add((ns, n))
            s = F.scopes[s]["parent"]
        h["block_local_name_also_visible_outside"] += len(seen)
        # references outside the BLOCK (in the owning unit or in units nested in it) to a name the BLOCK declares / uses
        inside = set()
        stack = [owner]
        while stack:
            x = stack.pop()
            inside.add(x)
            stack += F.scopes[x]["kids"]
        for i, sl in enumerate(F.slots):
            if sl["scope"] not in inside or sl.get("ctor") or sl.get("optional"):
                continue
            ns = "t" if sl["kind"] == "ty" else "p"
            n = sl["name"].lower()
            if (ns, n) in local or (ns == "p" and ("a", n) in local):
                h["block_local_name_referenced_outside"] += 1
                if exp[i] is None:
                    h["block_local_name_referenced_outside_expect_text"] += 1
                elif exp[i] != G.SKIP:
                    h["block_local_name_referenced_outside_expect_other_entity"] += 1
            if (ns, n) in used or (ns == "p" and ("a", n) in used):
                h["block_used_name_referenced_outside"] += 1


def _rename_stats(F, exp, h):
    """how often the generated projects exercise renames on USE statements, and references to a
    name that a USE without ONLY renamed away in the very scope of the reference"""
    for sidx, rec in enumerate(F.scopes):
        gone = set()
        for u in rec["node"]["uses"]:
            if u["only"] is None and u.get("ren"):
                h["use_rename_without_only"] += 1
                gone |= {r.lower() for l, r in u["ren"] if l.lower() != r.lower()}
            elif u["only"] is not None and any(l.lower() != r.lower() for l, r in u["only"]):
                h["use_rename_with_only"] += 1
        if not gone:
            continue
        for i in rec["slots"]:
            if F.slots[i]["name"].lower() in gone and not F.slots[i].get("ctor"):
                h["renamed_away_name_referenced_in_scope"] += 1
                if exp[i] is None:
                    h["renamed_away_name_referenced_expect_text"] += 1
                elif exp[i] != G.SKIP:
                    h["renamed_away_name_referenced_expect_other_entity"] += 1


def _reuse_stats(F, frames, h):
    names_by_unit: dict = {}
    ext = {rec["path"][0][1] for rec in F.scopes if rec["parent"] is None and rec["node"]["kind"] in ("function", "subroutine")}
    modnames = {}
    seen_case = False
    for sidx, rec in enumerate(F.scopes):
        for ns in "tpa":
            for n in rec["local"][ns]:
                if rec["parent"] is None and rec["node"]["kind"] == "module":
                    modnames.setdefault((ns, n), set()).add(sidx)
                    if n in ext and ns == "p":
                        h["module_vs_external"] += 1
    if any(len(v) > 1 for v in modnames.values()):
        h["two_modules_same_name"] += 1
    for sidx, rec in enumerate(F.scopes):
        kids = rec["kids"]
        for a in range(len(kids)):
            for b in range(a + 1, len(kids)):
                if set(F.scopes[kids[a]]["local"]["t"]) & set(F.scopes[kids[b]]["local"]["t"]):
                    h["sibling_same_type_name"] += 1
        if rec["parent"] is not None:
            par = F.scopes[rec["parent"]]
            if set(rec["local"]["p"]) & set(par["local"]["p"]):
                h["inner_proc_shadows_host"] += 1
    for sl in F.slots:
        if sl["name"].lower() in ("td", "pd"):
            h["undeclared_name_referenced"] += 1
        if sl["name"] != sl["name"].lower():
            seen_case = True
    if seen_case:
        h["case_only_difference"] += 1
