"""C07 - cross-references resolve to the entity Fortran scoping designates.

Stream `reuse`: abstract projects in name-reuse mode (harness/c07_gen.py) are
rendered to source files, parsed and correlated by the real FORD in-process
(`Project(settings)`, `Project.correlate()`); for every reference slot the
object FORD stored is mapped back to the abstract entity (or `text`).
  (a) correspondence: equal, slot by slot, to the Lean model `corrProjectS` (+ `genericRes`) run
      on the same abstract project; all variants (shared/copied host tables x
      host-over-local/local-over-host procedures x ...) are run and the one that
      agrees everywhere is the variant the working tree implements;
  (b) property oracle: equal to the entity designated by Fortran scoping, computed
      by `c07_gen.oracle` (independent of the model), which is itself cross-checked
      with the Lean specification `specProject`.
Failing slots are classified into the known defect classes (known_findings/C07.json)
by decidable predicates on the abstract project.

Further streams: re-export chains, renames on USE, BLOCK constructs, type-bound procedures named
like procedures of the scope (specific / deferred / generic bindings, inheritance and overriding),
dummy procedures declared by interface bodies, submodules (host association from the parent,
separate module procedures, equal submodule names under different modules).  The model variants
have seven switches (see VARIANTS); all variants of a case go to the Lean driver in one request
(`c07.multi`).  Two traces of the implementation are inputs of the model: the order in which the
derived types are correlated and the order of the project's list of submodules.

Stream `access` (harness/c07_access.py): what a USE statement can see - module defaults, access attributes and
statements, the constructor idiom, re-export - against the Lean model ScopeAccess and an oracle of its own.
"""
from __future__ import annotations

import json
import random
from pathlib import Path

from . import common
from . import c07_gen as G
from . import c07_access as A
from .common import Driver, Report, lean_prove

PROP = "C07"
# alias, hostOverLocal, blockUse, sharedSpecifics, ancOverLocal, parentByName, dropPrivate ; "0000000" = repaired,
# "1111111" = as found.
#   dropPrivate = an extension does not inherit the PRIVATE type-bound procedures of its parent type
#   blockUse = a USE statement inside a BLOCK construct is filed in the enclosing code unit
#   sharedSpecifics = the copy of a generic binding an extension inherits shares the list of its
#                     specifics with the parent type's generic binding
#   ancOverLocal = the tables of the parent (ancestor module / parent submodule) overwrite the local
#                  declarations of a submodule
#   parentByName = the parent submodule is looked up by its name alone (whatever its ancestor module)
VARIANTS = [a + b + c + d + e + f for a in ("00", "11", "10", "01") for b in "01" for c in "01" for d in "01" for e in "01"
            for f in "01"]
_VN = {"00": "repaired (copied host tables, local over host)", "11": "asIs (shared host tables, host over local)",
       "10": "shared host tables, local over host", "01": "copied host tables, host over local"}
VARIANT_NAME = {v: _VN[v[:2]] + ("; USE inside a BLOCK is filed in the enclosing unit" if v[2] == "1"
                                 else "; USE inside a BLOCK imports nothing into the enclosing unit")
                + ("; inherited generic bindings share the parent's list of specifics" if v[3] == "1"
                   else "; inherited generic bindings have their own list of specifics")
                + ("; a submodule's local declarations are overwritten by its parent's" if v[4] == "1"
                   else "; a submodule's local declarations shadow its parent's")
                + ("; parent submodule found by name alone" if v[5] == "1"
                   else "; parent submodule found by ancestor module and name")
                + ("; PRIVATE bindings of the parent type are not inherited" if v[6] == "1"
                   else "; PRIVATE bindings are inherited") for v in VARIANTS}
UNOBS = "unobserved"


def translate():
    from translate import c07 as T

    T.generate()


def build_ford(ford, root: Path, files: dict):
    import ford.sourceform as sf
    from ford.fortran_project import Project
    from ford.settings import ProjectSettings

    src = root / "src"
    if src.exists():
        for p in src.iterdir():
            p.unlink()
    src.mkdir(parents=True, exist_ok=True)
    for name, text in files.items():
        (src / name).write_text(text)
    sf.namelist = sf.NameSelector()
    settings = ProjectSettings(src_dir=[src], preprocess=False, warn=False,
                               display=["public", "private", "protected"])
    # the HTML rendering of the source text (pygments) has no part in name resolution: switched off
    # in the harness process (a third of the parse time)
    hl = sf.highlight
    sf.highlight = lambda *a, **k: ""
    try:
        with common.quiet():
            return Project(settings)
    finally:
        sf.highlight = hl


def byname(lst, name):
    for o in lst:
        if o.name.lower() == name.lower():
            return o
    raise KeyError(name)


def register(F: G.Flat, project):
    """Map abstract scopes/entities/slots to FORD objects (before correlate)."""
    ent_of = {}
    readers = {}
    top = {}
    for m in project.modules:
        top[("module", m.name.lower())] = m
    for p in project.programs:
        top[("program", p.name.lower())] = p
    for sm in project.submodules:
        top[("submodule", sm.name.lower(), str(getattr(sm.ancestor_module, "name", sm.ancestor_module)).lower())] = sm
    for p in project.procedures:
        top[(p.obj if p.obj in ("function", "subroutine") else p.proctype.lower(), p.name.lower())] = p
    objs = {}
    leaked = set()  # block-local entities / variables FORD files in the enclosing unit
    for sidx, rec in enumerate(F.scopes):
        node = rec["node"]
        if rec.get("block"):
            objs[sidx] = None
            continue
        if rec["parent"] is None:
            key = rec["path"][0]
            if node["kind"] == "submodule":
                key = ("submodule", key[1], node["ancestor"].lower())
                if key not in top:
                    raise KeyError(f"submodule {key[1]} of {key[2]}")
            obj = top.get(key)
            if obj is None:
                # external procedures: obj == 'proc'
                obj = next(p for p in project.procedures if p.name.lower() == key[1])
        else:
            par = objs[rec["parent"]]
            if node.get("mp") == "procedure":
                obj = byname(par.modprocedures, node["name"])
            else:
                obj = byname(par.functions if node["kind"] == "function" else par.subroutines, node["name"])
        objs[sidx] = obj
        ent_of[id(obj)] = rec["ent"]
        for n, e in rec["local"]["t"].items():
            ent_of[id(byname(obj.types, n))] = e
        for n, e in rec["local"]["a"].items():
            ent_of[id(byname(obj.absinterfaces, n))] = e
        dummy_names = [d["name"].lower() for d in node.get("dummies", [])]
        for n, e in rec["local"]["p"].items():
            cls = F.ents[e]["cls"]
            if cls == "proc":
                continue  # registered with its own scope
            if cls == "dummy":
                # the interface body has become the argument (`FortranProcedure._cleanup`); the
                # interface object that stays in `all_procs` is mapped through its `.procedure`
                a = obj.args[len(node["args"]) + dummy_names.index(n)]
                if a.name.lower() != n or not hasattr(a, "all_procs"):
                    raise KeyError(f"dummy procedure {n} is not the argument object")
                ent_of[id(a)] = e
                continue
            if cls == "ifbody":
                o = next(r for i in obj.interfaces if getattr(i, "generic", False) for r in i.routines if r.name.lower() == n)
                ent_of[id(o)] = e
                continue
            want_generic = cls == "generic"
            o = next(i for i in obj.interfaces if i.name.lower() == n and bool(getattr(i, "generic", False)) == want_generic)
            ent_of[id(o)] = e
        generics = [i for i in obj.interfaces if getattr(i, "generic", False)]
        for tr in F.types:
            if tr["scope"] == sidx:
                t = obj.types[tr["ti"]]
                for n, e in tr["own"].items():
                    ent_of[id(byname(t.boundprocs, n))] = e
        for i in rec["slots"]:
            g = F.slots[i]["get"]
            k = g[0]
            if k == "extends":
                t = obj.types[g[1]]
                readers[i] = (lambda t=t: t.extends)
            elif k == "comp":
                v = obj.types[g[1]].variables[g[2]]
                readers[i] = (lambda v=v: v.proto[0])
            elif k == "bind":
                b = byname(obj.types[g[1]].boundprocs, g[2])
                readers[i] = (lambda b=b: b.bindings[0])
            elif k == "defer":
                b = byname(obj.types[g[1]].boundprocs, g[2])
                readers[i] = (lambda b=b: b.proto)
            elif k == "ancestor":
                readers[i] = (lambda o=obj: o.ancestor_module)
            elif k == "parentsub":
                readers[i] = (lambda o=obj: o.parent_submodule)
            elif k == "mpair":
                kn = node["kids"][g[1]]
                ko = byname(obj.modprocedures, kn["name"]) if kn.get("mp") == "procedure" else \
                    byname(obj.functions if kn["kind"] == "function" else obj.subroutines, kn["name"])
                readers[i] = (lambda ko=ko: ko.module)
            elif k == "defbind":
                b = byname(obj.types[g[1]].boundprocs, g[2])
                readers[i] = (lambda b=b: b.bindings[0])
            elif k == "gspec":
                b = byname(obj.types[g[1]].boundprocs, g[2])
                readers[i] = (lambda b=b, j=g[3]: b.bindings[j])
            elif k == "final":
                f = obj.types[g[1]].finalprocs[g[2]]
                readers[i] = (lambda f=f: f.procedure)
            elif k == "ctor":
                t = obj.types[g[1]]
                readers[i] = (lambda t=t: t.constructor)
            elif k == "modproc":
                mp = generics[g[1]].modprocs[g[2]]
                readers[i] = (lambda mp=mp: mp.procedure)
            elif k == "var":
                v = byname(obj.variables, g[1])
                readers[i] = (lambda v=v: v.proto[0])
            elif k == "arg":
                v = obj.args[g[1]]
                readers[i] = (lambda v=v: v.proto[0])
            elif k == "ret":
                v = obj.retvar
                readers[i] = (lambda v=v: v.proto[0])
        _register_blocks(F, sidx, obj, ent_of, readers, leaked)
    # the order of the project's list of submodules (the parent submodule is searched in it)
    F.sub_order = [ent_of[id(sm)] for sm in project.submodules if id(sm) in ent_of]
    return ent_of, readers, objs, leaked


def _blocks_of(F, sidx):
    """the BLOCK scopes in the execution part of code unit `sidx`, in source order (nested ones included)"""
    out = []
    for b in F.scopes[sidx]["blocks"]:
        out.append(b)
        out += _blocks_of(F, b)
    return out


def _register_blocks(F, sidx, obj, ent_of, readers, leaked):
    """FORD has no object for a BLOCK.  Whatever the implementation under test nevertheless files
    in the enclosing unit `obj` beyond the unit's own declarations is matched, by name and in
    source order, with the block-local declarations: the objects get the block entities' ids, the
    references they hold become observable (optional slots)."""
    blocks = _blocks_of(F, sidx)
    if not blocks:
        return
    node = F.scopes[sidx]["node"]
    extra_t = list(obj.types[len(node["types"]):])
    extra_a = list(obj.absinterfaces[len(node["absints"]):])
    extra_i = list(obj.interfaces[len(node["ifaces"]) + len(node["generics"]):])
    own_vars = {v["name"].lower() for v in node["vars"]}
    for b in blocks:
        rec = F.scopes[b]
        bn = rec["node"]
        tobj = {}
        for ti, t in enumerate(bn["types"]):
            o = next((x for x in extra_t if x.name.lower() == t["name"].lower()), None)
            if o is not None:
                extra_t.remove(o)
                ent_of[id(o)] = rec["local"]["t"][t["name"].lower()]
                leaked.add(ent_of[id(o)])
                tobj[ti] = o
        for a in bn["absints"]:
            o = next((x for x in extra_a if x.name.lower() == a.lower()), None)
            if o is not None:
                extra_a.remove(o)
                ent_of[id(o)] = rec["local"]["a"][a.lower()]
                leaked.add(ent_of[id(o)])
        for a in bn["ifaces"]:
            o = next((x for x in extra_i if x.name.lower() == a.lower()), None)
            if o is not None:
                extra_i.remove(o)
                ent_of[id(o)] = rec["local"]["p"][a.lower()]
                leaked.add(ent_of[id(o)])
        for i in rec["slots"]:
            g = F.slots[i]["get"]
            if g[0] == "extends" and g[1] in tobj:
                readers[i] = (lambda t=tobj[g[1]]: t.extends)
            elif g[0] == "comp" and g[1] in tobj and g[2] < len(tobj[g[1]].variables):
                readers[i] = (lambda v=tobj[g[1]].variables[g[2]]: v.proto[0])
            elif g[0] == "var" and g[1].lower() not in own_vars:
                v = next((x for x in obj.variables if x.name.lower() == g[1].lower()), None)
                if v is not None:
                    leaked.add(f"variable {g[1]}")
                    readers[i] = (lambda v=v: v.proto[0])


def observe(F: G.Flat, project):
    """Run correlate; slot -> ent | None (text) | ('?', description); or the string 'raise'."""
    alias_obs = []
    F.type_order = None
    F.sub_order = None
    try:
        ent_of, readers, objs, leaked = register(F, project)
    except (StopIteration, KeyError, IndexError, AttributeError) as e:
        # a unit / entity of the generated (valid) project is missing from FORD's object tree:
        # the file was not parsed, or a declaration was filed somewhere else
        return ("crash", f"object tree differs from the project ({type(e).__name__}: {e})"), alias_obs, set()
    # the order in which the derived types are correlated (an input of the model of the generic
    # bindings: with shared lists of specifics the last extension to be correlated wins)
    import ford.sourceform as sf
    order = []
    orig = sf.FortranType.correlate

    def logged(self, project_):
        order.append(id(self))
        return orig(self, project_)

    import ford.fortran_project as fp
    warns = (sf.warn, fp.warn)
    sf.FortranType.correlate = logged
    sf.warn = fp.warn = lambda *a, **k: None  # (formatting the warnings costs more than the correlation)
    try:
        return _observe(F, project, ent_of, readers, objs, leaked, alias_obs)
    finally:
        sf.FortranType.correlate = orig
        sf.warn, fp.warn = warns
        F.type_order = [ent_of[x] for x in order if x in ent_of]


def _observe(F, project, ent_of, readers, objs, leaked, alias_obs):
    try:
        with common.quiet():
            project.correlate()
    except RuntimeError as e:
        if "Could not find interface procedure" in str(e):
            return "raise", alias_obs, leaked
        return ("crash", f"{type(e).__name__}: {e}"), alias_obs, leaked
    except AttributeError as e:
        # FortranType.correlate: `proc.procedure.num_lines` of a finaliser that was not found
        if "num_lines" in str(e):
            return "raise", alias_obs, leaked
        return ("crash", f"{type(e).__name__}: {e}"), alias_obs, leaked
    except Exception as e:  # correlate() must not fail on a valid project; reported as a broken tie
        return ("crash", f"{type(e).__name__}: {e}"), alias_obs, leaked
    obs = {}
    for i, rd in readers.items():
        o = rd()
        if o is None or isinstance(o, (str, bool)):
            obs[i] = None
        elif id(o) in ent_of:
            obs[i] = ent_of[id(o)]
        elif type(o).__name__ == "FortranModuleProcedureInterface" and id(getattr(o, "procedure", None)) in ent_of \
                and F.ents[ent_of[id(o.procedure)]]["cls"] == "dummy":
            # the interface object of a dummy procedure (its body is the argument object)
            obs[i] = ent_of[id(o.procedure)]
        else:
            obs[i] = ("?", f"{type(o).__name__}:{getattr(o, 'name', '')}")
    # direct look at the aliasing the model threads through the traversal
    for i, sl in enumerate(F.slots):
        if sl.get("optional") and i not in obs:
            obs[i] = UNOBS
    for sidx, rec in enumerate(F.scopes):
        if rec["parent"] is not None and not rec.get("block"):
            c, p = objs[sidx], objs[rec["parent"]]
            alias_obs.append(getattr(c, "all_types", None) is getattr(p, "all_types", 0)
                             and getattr(c, "all_absinterfaces", None) is getattr(p, "all_absinterfaces", 0))
    return obs, alias_obs, leaked


def parse_res(fields):
    """slot -> ent | None, and under the key "reg" the set of block-local declarations the model
    says are filed in an enclosing unit"""
    if not fields or fields[0] != "ok":
        raise common.Infra(f"model answered {fields[:2]}")
    out = {"reg": set()}
    for f in fields[1:]:
        if f.startswith("r:"):
            out["reg"].add(int(f[2:]))
            continue
        k, v = f.split("=")
        out[int(k)] = None if v == "-" else int(v)
    return out


def split_multi(fields):
    """answer of `c07.multi`: ok (# <variant | spec> <field>*)*  ->  {name: fields}"""
    if not fields or fields[0] != "ok":
        raise common.Infra(f"model answered {fields[:2]}")
    out = {}
    cur = None
    it = iter(fields[1:])
    for f in it:
        if f == "#":
            cur = out.setdefault(next(it), [])
        else:
            cur.append(f)
    return out


def describe(F, e):
    if e is None:
        return "text"
    if isinstance(e, tuple):
        return f"unregistered object {e[1]}"
    d = F.ents[e]
    return f"{d['cls']} {d['name']} declared in {d['path'][0] if d['path'] else 'file'}"


def case_of(P, files, F, i, exp, obs, why):
    sl = F.slots[i]
    return {"stream": "reuse", "project": P, "files": files,
            "slot": {"id": i, "owner": "/".join(f"{k}:{n}" for k, n in F.scopes[sl["scope"]]["path"]),
                     "what": sl["what"], "name": sl["name"]},
            "expected": describe(F, exp), "observed": describe(F, obs), "why": why}


def run(tier: str, seed: int, replay: str | None = None) -> int:
    rep = Report(PROP, tier, seed)
    lean = lean_prove(PROP, translate=translate, thorough=(tier == "thorough"))
    for b in lean.broken():
        rep.tie_broken("proof: " + b)
    ford = common.import_ford()
    drv = Driver()
    rng = random.Random(seed * 104729 + 7)
    n_cases = 1500 if tier == "quick" else 12000
    n_chain = 400 if tier == "quick" else 3000
    n_ren = 400 if tier == "quick" else 3000
    n_blk = 350 if tier == "quick" else 3000
    n_bnd = 300 if tier == "quick" else 3000
    n_dum = 300 if tier == "quick" else 3000
    n_sub = 300 if tier == "quick" else 3000
    cases = []
    access_replay = []
    if replay:
        data = json.loads(Path(replay).read_text())
        for c in data.get("cases", []) + data.get("first_disagreements", []):
            if "project" in c and "files" in c:
                if c.get("stream") == "access":
                    access_replay.append(c)
                else:
                    cases.append((c["project"], c["files"]))
    # the witnesses of the known findings are always replayed first
    kf = json.loads((common.VERIF / "known_findings" / f"{PROP}.json").read_text()).get("findings", [])
    for f in kf:  # open and fixed ones alike (a fixed witness is a regression case)
        w = f.get("witness", {})
        if "project" in w:
            cases.append((w["project"], {"w.f90": "\n".join(_render_units(w["project"])) + "\n"}))
    n_fixed = len(cases)
    for k in range(n_cases):
        P = G.gen_project(rng, size=rng.choice([1, 2, 3]))
        cases.append((P, G.render_project(P, rng)))
    for k in range(n_chain):
        P = G.gen_chain_project(rng)
        files = G.render_project(P, rng)
        if rng.random() < 0.5:
            # units in reverse file order / separate files: correlation order must come from USE, not from the files
            files = {f"g{9 - j}.f90": "\n".join(_render_units({"units": [u]})) + "\n" for j, u in enumerate(P["units"])}
        cases.append((P, files))

    for k in range(n_ren):
        # renames on USE statements (with and without ONLY) next to same-named entities
        P = G.gen_rename_project(rng)
        cases.append((P, G.render_project(P, rng)))

    for k in range(n_blk):
        # BLOCK constructs declaring / use-associating names that also exist outside them
        P = G.gen_block_project(rng)
        cases.append((P, G.render_project(P, rng)))

    for k in range(n_bnd):
        # type-bound procedures (specific, deferred, generic; inherited and overridden) named like
        # procedures of the scope
        P = G.gen_bound_project(rng)
        cases.append((P, G.render_project(P, rng)))

    for k in range(n_dum):
        # dummy procedures declared by interface bodies next to same-named host procedures
        P = G.gen_dummy_project(rng)
        cases.append((P, G.render_project(P, rng)))

    for k in range(n_sub):
        # submodules: host association from the parent, separate module procedures, same-named
        # submodules under different modules
        P = G.gen_sub_project(rng)
        files = G.render_project(P, rng)
        if rng.random() < 0.4:
            # one unit per file, any file order: the project's list of submodules is in file order
            order = list(range(len(P["units"])))
            rng.shuffle(order)
            files = {f"h{j}.f90": "\n".join(_render_units({"units": [P["units"][u]]})) + "\n" for j, u in enumerate(order)}
        cases.append((P, files))

    flats = [G.Flat(P) for P, _ in cases]
    # the implementation first: the order in which FORD correlates the derived types is an input of
    # the model of the generic bindings
    observed = []
    with common.scratch_dir() as d:
        for (P, files), F in zip(cases, flats):
            project = build_ford(ford, d, files)
            observed.append(observe(F, project))
    # one request per case: the canonical variants of the case (a project without a USE inside a BLOCK
    # is the same input for both values of the third switch, one without a generic binding in a type
    # hierarchy for both values of the fourth, one without submodules for the last two) and the
    # specification
    reqs = []
    canon_of = []
    for F in flats:
        has_block_use = any(rec.get("block") and rec["node"]["uses"] for rec in F.scopes)
        has_inherit = any(r["gslots"] for r in F.types) and any(r["ext"] is not None for r in F.types)
        has_sub = bool(F.subs)
        toks = F.tokens + ["|"] + F.type_tokens(F.type_order) + ["|"] + F.sub_tokens(F.sub_order)
        has_priv = any(r["priv"] for r in F.types) and any(r["ext"] is not None for r in F.types)
        cn = {v: v[:2] + (v[2] if has_block_use else "0") + (v[3] if has_inherit else "0") + (v[4:6] if has_sub else "00")
              + (v[6] if has_priv else "0")
              for v in VARIANTS}
        vs = sorted(set(cn.values()))
        canon_of.append(cn)
        reqs.append(["c07.multi", str(len(vs))] + vs + toks)
    answers = drv.batch(reqs)

    mism = {v: 0 for v in VARIANTS}
    first_mism = {v: None for v in VARIANTS}
    hist = {"cases": 0, "raise": 0, "slots": 0, "slots_resolved": 0, "slots_text": 0, "oracle_skipped_not_fortran": 0,
            "oracle_checked": 0, "oracle_fail": 0, "alias_pairs": 0, "alias_pairs_shared": 0,
            "crash": 0, "block_slots_recorded_by_ford": 0, "block_declarations_filed_in_enclosing_unit": 0}
    kinds_hist: dict[str, int] = {}
    reuse_hist = {"sibling_same_type_name": 0, "inner_proc_shadows_host": 0, "two_modules_same_name": 0,
                  "module_vs_external": 0, "case_only_difference": 0, "undeclared_name_referenced": 0,
                  "use_rename_without_only": 0, "use_rename_with_only": 0, "renamed_away_name_referenced_in_scope": 0,
                  "renamed_away_name_referenced_expect_text": 0, "renamed_away_name_referenced_expect_other_entity": 0,
                  "variants_distinguishing_case": 0,
                  "projects_with_block": 0, "blocks": 0, "nested_blocks": 0, "block_use_statements": 0,
                  "block_local_name_also_visible_outside": 0, "block_local_name_referenced_outside": 0,
                  "block_local_name_referenced_outside_expect_text": 0,
                  "block_local_name_referenced_outside_expect_other_entity": 0,
                  "block_used_name_referenced_outside": 0, "block_use_distinguishing_case": 0,
                  "shared_specifics_distinguishing_case": 0, "submodule_local_distinguishing_case": 0,
                  "submodule_parent_distinguishing_case": 0, "private_binding_distinguishing_case": 0,
                  "private_bindings": 0, "generic_specific_is_inherited_private_binding": 0, "submodules": 0, "submodules_of_submodules": 0,
                  "submodule_name_under_two_modules": 0, "separate_module_procedures": 0,
                  "submodule_local_name_also_in_ancestor": 0, "submodule_local_name_also_in_ancestor_referenced": 0,
                  "binding_name_is_visible_procedure_name": 0, "deferred_binding_name_is_visible_procedure_name": 0,
                  "binding_without_target": 0, "generic_bindings": 0, "generic_specific_inherited": 0,
                  "generic_specific_overridden_in_extension": 0, "generic_specific_is_visible_procedure_name": 0,
                  "dummy_procedures": 0, "dummy_procedure_shadows_host_name": 0, "dummy_procedure_name_referenced": 0,
                  "dummy_procedure_name_referenced_from_internal": 0, "generic_interface_bodies": 0,
                  "generic_interface_body_name_referenced": 0}
    distinct = set()
    samples = []
    spec_diff = 0
    fails = []
    pending = []
    if True:
        for k, ((P, files), F) in enumerate(zip(cases, flats)):
            raw = split_multi(answers[k])
            parsed = {name: parse_res(["ok"] + fields) for name, fields in raw.items()}
            model = {v: parsed[canon_of[k][v]] for v in VARIANTS}
            spec = parsed["spec"]
            exp, where, frames = G.oracle(F)
            obs, alias_obs, leaked = observed[k]
            hist["cases"] += 1
            hist["alias_pairs"] += len(alias_obs)
            hist["alias_pairs_shared"] += sum(alias_obs)
            _reuse_stats(F, frames, reuse_hist)
            _rename_stats(F, exp, reuse_hist)
            _block_stats(F, frames, exp, reuse_hist)
            _periphery_stats(F, frames, exp, reuse_hist)

            def _key(v):
                return raw[canon_of[k][v]]

            if len({tuple(f) for n_, f in raw.items() if n_ != "spec"}) > 1:
                reuse_hist["variants_distinguishing_case"] += 1
            if _key("0000000") != _key("0010000"):
                reuse_hist["block_use_distinguishing_case"] += 1
            if _key("0000000") != _key("0001000"):
                reuse_hist["shared_specifics_distinguishing_case"] += 1
            if _key("0000000") != _key("0000100"):
                reuse_hist["submodule_local_distinguishing_case"] += 1
            if _key("0000000") != _key("0000010"):
                reuse_hist["submodule_parent_distinguishing_case"] += 1
            if _key("0000000") != _key("0000001"):
                reuse_hist["private_binding_distinguishing_case"] += 1
            # Lean spec vs python oracle (both independent of the mechanism)
            for i, e in exp.items():
                if F.slots[i].get("optional"):
                    continue  # references inside a BLOCK are not part of the model's encoding
                if e != G.SKIP and not F.slots[i].get("ctor") and spec.get(i, "missing") != e:
                    spec_diff += 1
                    rep.tie_broken(f"oracle cross-check: Lean spec {spec.get(i)} vs harness oracle {e} on slot {i} of case {k}",
                                   case_of(P, files, F, i, e, spec.get(i), "Lean specProject and harness oracle differ"))
            if obs == "raise":
                hist["raise"] += 1
                for v in VARIANTS:
                    pred = any(model[v][i] is None for i, sl in enumerate(F.slots) if sl.get("must"))
                    if not pred:
                        mism[v] += 1
                        first_mism[v] = first_mism[v] or {"stream": "reuse", "project": P, "files": files,
                                                          "why": "FORD raised (unknown specific procedure / finaliser), model resolves all of them"}
                continue
            if isinstance(obs, tuple) and obs[0] == "crash":
                # correlate() failed on a valid project: no variant of the model predicts that
                hist["crash"] += 1
                for v in VARIANTS:
                    mism[v] += 1
                    first_mism[v] = first_mism[v] or {"stream": "reuse", "project": P, "files": files,
                                                      "why": f"parse / Project.correlate() failed: {obs[1]}"}
                continue
            hist["block_declarations_filed_in_enclosing_unit"] += len(leaked)
            for v in VARIANTS:
                if any(model[v][i] is None for i, sl in enumerate(F.slots) if sl.get("must")):
                    mism[v] += 1
                    first_mism[v] = first_mism[v] or {"stream": "reuse", "project": P, "files": files,
                                                      "why": "model predicts the exception for an unknown specific procedure / finaliser, FORD did not raise"}
                    continue
                # the parse step: which block-local declarations are filed in the enclosing unit
                if {x for x in leaked if isinstance(x, int)} != model[v]["reg"] or any(isinstance(x, str) for x in leaked):
                    mism[v] += 1
                    if first_mism[v] is None:
                        first_mism[v] = {"stream": "reuse", "project": P, "files": files,
                                         "why": f"model variant {v}: block-local declarations filed in the enclosing unit "
                                                f"{sorted(describe(F, e) for e in model[v]['reg'])}, FORD files "
                                                f"{sorted(describe(F, e) if isinstance(e, int) else e for e in leaked)}"}
                    continue
                for i in range(len(F.slots)):
                    if F.slots[i].get("optional"):
                        if obs.get(i, UNOBS) == UNOBS:
                            continue
                        # the model: FORD records no reference inside a BLOCK
                        mism[v] += 1
                        if first_mism[v] is None:
                            first_mism[v] = case_of(P, files, F, i, None, obs.get(i), f"model variant {v}: no reference is recorded "
                                                    "inside a BLOCK; FORD records one")
                        break
                    if model[v].get(i, "missing") != obs.get(i, "unobserved"):
                        mism[v] += 1
                        if first_mism[v] is None:
                            first_mism[v] = case_of(P, files, F, i, model[v].get(i), obs.get(i), f"model variant {v} vs FORD")
                        break
            if len(F.slots) >= 3:
                distinct.add(common.digest(F.tokens))
            for i, sl in enumerate(F.slots):
                if sl.get("optional"):
                    if obs.get(i, UNOBS) == UNOBS:
                        continue
                    hist["block_slots_recorded_by_ford"] += 1
                hist["slots"] += 1
                kinds_hist[sl["get"][0]] = kinds_hist.get(sl["get"][0], 0) + 1
                o = obs.get(i)
                if o is None:
                    hist["slots_text"] += 1
                else:
                    hist["slots_resolved"] += 1
                e = exp[i]
                if e == G.SKIP:
                    hist["oracle_skipped_not_fortran"] += 1
                    continue
                hist["oracle_checked"] += 1
                if F.canon(o) != F.canon(e):  # (an implementation and its interface are one procedure)
                    hist["oracle_fail"] += 1
                    pending.append((k, i, e, o, {v: model[v].get(i, "missing") for v in VARIANTS}, (frames, where)))
            if len(samples) < 2 and len(F.slots) >= 4:
                samples.append({"files": files, "slots": [
                    {"owner": "/".join(n for _, n in F.scopes[sl["scope"]]["path"]), "what": sl["what"], "name": sl["name"],
                     "ford": describe(F, obs.get(i)), "expected": "not Fortran" if exp[i] == G.SKIP else describe(F, exp[i])}
                    for i, sl in enumerate(F.slots) if obs.get(i, UNOBS) != UNOBS][:12]})
    # stream `access`: use association sees exactly the PUBLIC identifiers of a module (c07_access.py)
    import sys
    acc_cov = A.run_stream(rep, ford, drv, sys.modules[__name__], random.Random(seed * 7919 + 13), tier, access_replay)
    drv.close()
    agreeing = [v for v in VARIANTS if mism[v] == 0]
    variant = agreeing[0] if agreeing else None
    if variant is None:
        best = min(VARIANTS, key=lambda v: mism[v])
        rep.tie_broken(f"correspondence reuse: no model variant agrees with the implementation "
                       f"(disagreeing cases per variant {mism}); closest {best}", first_mism[best])
    else:
        # a variant that is not excluded by any case is only decided if some case distinguishes them
        if len(agreeing) > 1 and reuse_hist["variants_distinguishing_case"] == 0:
            rep.tie_broken("correspondence reuse: no generated case distinguishes the model variants")
        def undecided(pos):
            return variant[:pos] + "0" + variant[pos + 1:] in agreeing and variant[:pos] + "1" + variant[pos + 1:] in agreeing

        if undecided(2) and not replay:
            rep.tie_broken("correspondence reuse: no generated case decides whether a USE statement inside a BLOCK "
                           "is filed in the enclosing unit")
        if undecided(3) and not replay:
            rep.tie_broken("correspondence reuse: no generated case decides whether an inherited generic binding "
                           "shares the list of its specifics with the parent type's")
        if undecided(4) and not replay:
            rep.tie_broken("correspondence reuse: no generated case decides whether the parent's tables overwrite "
                           "the local declarations of a submodule")
        if undecided(6) and not replay:
            rep.tie_broken("correspondence reuse: no generated case decides whether an extension inherits the PRIVATE "
                           "bindings of its parent type")
        if undecided(5) and not replay:
            rep.tie_broken("correspondence reuse: no generated case decides whether the parent submodule is looked "
                           "up by its name alone")
        try:
            from translate import c07 as T
            tv = T.code_variant()
            tv = None if tv is None else tv + T.block_variant() + T.generic_variant() + T.sub_variant() + T.private_variant()
            if tv is not None and tv != variant and len(agreeing) == 1:
                rep.tie_broken(f"the translator's witness projects show variant {tv} (translate/c07.py: probe_host / "
                               f"probe_blocks / probe_generic / probe_sub / probe_private), differential execution decides {variant}")
        except Exception as e:  # translator failure is already reported by lean_prove
            pass
    # A failing slot belongs to a known defect class only if (1) the decidable class predicate on
    # the abstract project holds and (2) the model variant the tree corresponds to (the closest one
    # when none agrees everywhere) puts exactly FORD's wrong entity into that slot - i.e. the
    # failure is the one the defect switches of the model reproduce.  Everything else is new.
    vref = variant if variant is not None else min(VARIANTS, key=lambda v: mism[v])
    for k, i, e, o, mv, (frames, where) in pending:
        cls = G.classify(flats[k], frames, where, i, o if not isinstance(o, tuple) else None, block_use=(vref[2] == "1"),
                         shared=(vref[3] == "1"), sub_local=(vref[4] == "1"), sub_parent=(vref[5] == "1"),
                         alias=(vref[0] == "1"), host_over_local=(vref[1] == "1"), drop_private=(vref[6] == "1"))
        if cls is not None and mv[vref] != o:
            cls = None
        if cls == "C07-shared-type-tables-leak" and vref[0] == "0":
            cls = None
        if cls == "C07-host-procedure-beats-local" and vref[1] == "0":
            cls = None
        fails.append((k, i, cls))
        P, files = cases[k]
        rep.failing_input(case_of(P, files, flats[k], i, e, o, "slot does not hold the entity Fortran scoping designates"), cls)
    by_cls: dict[str, int] = {}
    for _, _, cls in fails:
        by_cls[str(cls)] = by_cls.get(str(cls), 0) + 1
    rep.coverage.update(
        evaluations=hist["slots"] + hist["raise"] + acc_cov["histogram"]["slots"],
        distinct_nontrivial=len(distinct) + acc_cov["distinct_nontrivial"],
        rule="one evaluation = one reference slot of one generated project compared (model vs FORD object, and oracle vs FORD object); "
             "non-trivial project = at least 3 reference slots, distinct by digest of the abstract encoding",
        samples=samples,
        traces_validated_against_impl=hist["cases"],
        variant_decided=VARIANT_NAME.get(variant, "none"),
        variant_disagreeing_cases=mism,
        histogram=hist,
        slot_kind_histogram=dict(sorted(kinds_hist.items())),
        name_reuse_histogram=reuse_hist,
        oracle_failures_by_class=by_cls,
        oracle_crosscheck_differences=spec_diff,
        fixed_cases=n_fixed,
        random_cases=n_cases,
        chain_cases=n_chain,
        rename_cases=n_ren,
        block_cases=n_blk,
        bound_procedure_cases=n_bnd,
        dummy_procedure_cases=n_dum,
        submodule_cases=n_sub,
        access_stream=acc_cov,
    )
    rep.assumptions += [
        "implicit typing, IMPORT statements, common blocks and namelists are outside the abstract projects; submodules: depth <= 2, a module does not implement its own module procedure interfaces, every implementation is a subroutine",
        "BLOCK constructs: derived types without CONTAINS part, abstract interfaces, interface blocks, variables, USE statements "
        "and nested BLOCKs; FORD has no object for a BLOCK and records no reference inside it - such references are evaluated "
        "(oracle: the BLOCK's own frame first) only when the implementation under test does record them",
        "the abstract modules of the older streams have default accessibility PUBLIC; stream `access`: three or four modules "
        "with either default, a bare PRIVATE stands in front of the declarations (a late one is C04-late-bare-private), a "
        "PRIVATE statement names declared identifiers only (hiding a use-associated identifier is C06-private-imported-reexported), "
        "every identifier is named by at most one access statement, PROTECTED and module variables as imported entities are outside",
        "interface bodies are not scopes of the abstract project (they have no declarations of their own); an interface body "
        "inside a generic interface and one that declares a dummy procedure are local procedure-like entities of the scope",
        "type-bound procedures: all bindings are NOPASS, PRIVATE ones only in the type chains of the bound-procedure stream (new binding names of module-level types); generic bindings are public and have names that no other binding has "
        "(a generic binding is never overridden or extended); the order in which FORD correlates the derived types is "
        "observed and handed to the model of the generic bindings",
        "the threaded tables of the model stand for the single dict object FORD shares between a unit and its nested units; "
        "the identity `child.all_types is parent.all_types` is observed directly (alias_pairs_shared)",
    ]
    return rep.finish(lean)


def _render_units(P):
    out = []
    for u in P["units"]:
        G.render_scope(u, out)
    return out


def _block_stats(F, frames, exp, h):
    """how often BLOCK constructs meet the names around them"""
    blocks = [k for k, rec in enumerate(F.scopes) if rec.get("block")]
    if not blocks:
        return
    h["projects_with_block"] += 1
    for b in blocks:
        rec = F.scopes[b]
        h["blocks"] += 1
        if F.scopes[rec["parent"]].get("block"):
            h["nested_blocks"] += 1
        h["block_use_statements"] += len(rec["node"]["uses"])
        owner = rec["owner"]
        local = {(ns, n) for ns in "tpa" for n in rec["local"][ns]}
        used = {(ns, n) for ns in "tpa" for n in F.use_frames.get(b, {}).get(ns, {})}
        # the name is also visible from the enclosing unit (shadowing inside the BLOCK)
        s = owner
        seen = set()
        while s is not None:
            for ns, n in local:
                if n in frames[s]["t" if ns == "t" else "p"] or (ns != "t" and n in frames[s]["a"]):
                    seen.add((ns, n))
            s = F.scopes[s]["parent"]
        h["block_local_name_also_visible_outside"] += len(seen)
        # references outside the BLOCK (in the owning unit or in units nested in it) to a name the BLOCK declares / uses
        inside = set()
        stack = [owner]
        while stack:
            x = stack.pop()
            inside.add(x)
            stack += F.scopes[x]["kids"]
        for i, sl in enumerate(F.slots):
            if sl["scope"] not in inside or sl.get("ctor") or sl.get("optional"):
                continue
            ns = "t" if sl["kind"] == "ty" else "p"
            n = sl["name"].lower()
            if (ns, n) in local or (ns == "p" and ("a", n) in local):
                h["block_local_name_referenced_outside"] += 1
                if exp[i] is None:
                    h["block_local_name_referenced_outside_expect_text"] += 1
                elif exp[i] != G.SKIP:
                    h["block_local_name_referenced_outside_expect_other_entity"] += 1
            if (ns, n) in used or (ns == "p" and ("a", n) in used):
                h["block_used_name_referenced_outside"] += 1


def _periphery_stats(F, frames, exp, h):
    """how often binding names meet procedure names, generic bindings meet inheritance, dummy
    procedures and interface bodies of generic interfaces meet same-named entities"""
    def visible_proc(sidx, n):
        s = sidx
        while s is not None:
            if n in frames[s]["p"] or n in frames[s]["a"]:
                return True
            s = F.scopes[s]["parent"]
        return False

    parent = getattr(F, "type_parent", {})
    for r in F.types:
        t = F.scopes[r["scope"]]["node"]["types"][r["ti"]]
        for b in t["binds"]:
            if b["target"] is None:
                h["binding_without_target"] += 1
            elif visible_proc(r["scope"], b["name"].lower()):
                h["binding_name_is_visible_procedure_name"] += 1
        for b in t["deferred"]:
            if visible_proc(r["scope"], b["name"].lower()):
                h["deferred_binding_name_is_visible_procedure_name"] += 1
        h["generic_bindings"] += len(t.get("gbinds", []))
        h["private_bindings"] += len(r["priv"])
        for i in r["gslots"]:
            n = F.slots[i]["name"].lower()
            if exp[i] not in (None, G.SKIP) and exp[i] != r["own"].get(n):
                h["generic_specific_inherited"] += 1
                if any(exp[i] in d["priv"] for d in F.types):
                    h["generic_specific_is_inherited_private_binding"] += 1
            if visible_proc(r["scope"], n):
                h["generic_specific_is_visible_procedure_name"] += 1
            for d in F.types:
                if d is not r and n in d["own"]:
                    a = parent.get(d["ent"])
                    seen = set()
                    while a is not None and a not in seen:
                        seen.add(a)
                        if a == r["ent"]:
                            h["generic_specific_overridden_in_extension"] += 1
                            break
                        a = parent.get(a)
    for x in F.subs:
        h["submodules"] += 1
        if x["parent"]:
            h["submodules_of_submodules"] += 1
        nm = F.scopes[x["scope"]]["node"]["name"].lower()
        if len({y["anc"] for y in F.subs if F.scopes[y["scope"]]["node"]["name"].lower() == nm}) >= 2:
            h["submodule_name_under_two_modules"] += 1
        h["separate_module_procedures"] += len(x["pairs"])
        hosts = list(F.chain(x["scope"]))[1:]
        inside = set()
        stack = [x["scope"]]
        while stack:
            y = stack.pop()
            inside.add(y)
            stack += F.scopes[y]["kids"]
        for ns in "tpa":
            for n in F.scopes[x["scope"]]["local"][ns]:
                spaces = ["t"] if ns == "t" else ["p", "a"]
                if any(n in frames[k][q] for k in hosts for q in spaces):
                    h["submodule_local_name_also_in_ancestor"] += 1
                    for i, sl in enumerate(F.slots):
                        if sl["scope"] in inside and sl["name"].lower() == n and (sl["kind"] == "ty") == (ns == "t") \
                                and sl["kind"] in ("ty", "pr", "pa"):
                            h["submodule_local_name_also_in_ancestor_referenced"] += 1
    for sidx, rec in enumerate(F.scopes):
        if rec.get("block"):
            continue
        node = rec["node"]
        below = set()
        stack = [sidx]
        while stack:
            x = stack.pop()
            below.add(x)
            stack += F.scopes[x]["kids"]
        for d in node.get("dummies", []):
            n = d["name"].lower()
            h["dummy_procedures"] += 1
            if rec["parent"] is not None and visible_proc(rec["parent"], n):
                h["dummy_procedure_shadows_host_name"] += 1
            for i, sl in enumerate(F.slots):
                if sl["scope"] in below and sl["kind"] == "pa" and sl["name"].lower() == n and exp[i] == rec["local"]["p"][n]:
                    h["dummy_procedure_name_referenced"] += 1
                    if sl["scope"] != sidx:
                        h["dummy_procedure_name_referenced_from_internal"] += 1
        for g in node.get("generics", []):
            for b in g.get("bodies", []):
                h["generic_interface_bodies"] += 1
                for i, sl in enumerate(F.slots):
                    if sl["scope"] in below and sl["kind"] in ("pa", "pr") and exp[i] == rec["local"]["p"][b.lower()]:
                        h["generic_interface_body_name_referenced"] += 1


def _rename_stats(F, exp, h):
    """how often the generated projects exercise renames on USE statements, and references to a
    name that a USE without ONLY renamed away in the very scope of the reference"""
    for sidx, rec in enumerate(F.scopes):
        gone = set()
        for u in rec["node"]["uses"]:
            if u["only"] is None and u.get("ren"):
                h["use_rename_without_only"] += 1
                gone |= {r.lower() for l, r in u["ren"] if l.lower() != r.lower()}
            elif u["only"] is not None and any(l.lower() != r.lower() for l, r in u["only"]):
                h["use_rename_with_only"] += 1
        if not gone:
            continue
        for i in rec["slots"]:
            if F.slots[i]["name"].lower() in gone and not F.slots[i].get("ctor"):
                h["renamed_away_name_referenced_in_scope"] += 1
                if exp[i] is None:
                    h["renamed_away_name_referenced_expect_text"] += 1
                elif exp[i] != G.SKIP:
                    h["renamed_away_name_referenced_expect_other_entity"] += 1


def _reuse_stats(F, frames, h):
    names_by_unit: dict = {}
    ext = {rec["path"][0][1] for rec in F.scopes if rec["parent"] is None and rec["node"]["kind"] in ("function", "subroutine")}
    modnames = {}
    seen_case = False
    for sidx, rec in enumerate(F.scopes):
        for ns in "tpa":
            for n in rec["local"][ns]:
                if rec["parent"] is None and rec["node"]["kind"] == "module":
                    modnames.setdefault((ns, n), set()).add(sidx)
                    if n in ext and ns == "p":
                        h["module_vs_external"] += 1
    if any(len(v) > 1 for v in modnames.values()):
        h["two_modules_same_name"] += 1
    for sidx, rec in enumerate(F.scopes):
        kids = rec["kids"]
        for a in range(len(kids)):
            for b in range(a + 1, len(kids)):
                if set(F.scopes[kids[a]]["local"]["t"]) & set(F.scopes[kids[b]]["local"]["t"]):
                    h["sibling_same_type_name"] += 1
        if rec["parent"] is not None:
            par = F.scopes[rec["parent"]]
            if set(rec["local"]["p"]) & set(par["local"]["p"]):
                h["inner_proc_shadows_host"] += 1
    for sl in F.slots:
        if sl["name"].lower() in ("td", "pd"):
            h["undeclared_name_referenced"] += 1
        if sl["name"] != sl["name"].lower():
            seen_case = True
    if seen_case:
        h["case_only_difference"] += 1
