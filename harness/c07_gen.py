"""C07 - abstract Fortran projects in name-reuse mode, their rendering, the flat
encoding for the Lean model, the scoping oracle and the FORD-object observation.

Abstract scope (plain dicts, JSON-able):
  kind      module | program | function | subroutine
  name      spelling at the declaration
  uses      [{"mod": str, "only": None | [[local, remote], ...]}]
  types     [{"name", "extends": str|None, "comps": [var], "binds": [{"name","target"}],
              "deferred": [{"name","proto"}], "finals": [str]}]
  absints   [str]          abstract interface with one subroutine of that name
  ifaces    [str]          interface block (non generic) with one interface body
  generics  [{"name", "modprocs": [str]}]
  vars      [var]          var = {"name", "vk": type|class|procedure, "proto": str}
  args      [var]  ret: var | None          (procedures)
  kids      [scope]        nested procedures in source order

Every name of a type comes from TY, every procedure-like name from PR (three
names each, any letter case), so that equal names meet in module vs. internal
procedure, sibling procedures, two modules, module vs. external procedure.
"""
from __future__ import annotations

TY = ["ta", "tb", "tc"]
PR = ["pa", "pb", "pc"]
TY_REF = TY + ["td"]  # td / pd are declared nowhere
PR_REF = PR + ["pd"]


def spell(rng, n):
    r = rng.random()
    if r < 0.6:
        return n
    if r < 0.8:
        return n.upper()
    return n.capitalize()


class Ctr:
    def __init__(self):
        self.n = 0

    def next(self, p):
        self.n += 1
        return f"{p}{self.n}"


def gen_var(rng, ctr, prefix="v"):
    r = rng.random()
    if r < 0.55:
        return {"name": ctr.next(prefix), "vk": rng.choice(["type", "type", "class"]), "proto": spell(rng, rng.choice(TY_REF))}
    return {"name": ctr.next(prefix), "vk": "procedure", "proto": spell(rng, rng.choice(PR_REF))}


def gen_type(rng, ctr, name, earlier, local_all, cands=()):
    t = {"name": spell(rng, name), "extends": None, "comps": [], "binds": [], "deferred": [], "finals": []}
    if rng.random() < 0.4:
        allowed = [n for n in TY_REF if n in earlier or n not in local_all]
        if allowed:
            t["extends"] = spell(rng, rng.choice(allowed))
    for _ in range(rng.choice([0, 1, 1, 2])):
        t["comps"].append(gen_var(rng, ctr, "c"))
    for _ in range(rng.choice([0, 0, 1, 2])):
        t["binds"].append({"name": ctr.next("b"), "target": spell(rng, rng.choice(PR_REF))})
    if rng.random() < 0.25:
        t["deferred"].append({"name": ctr.next("b"), "proto": spell(rng, rng.choice(PR_REF))})
    if rng.random() < 0.25:
        if cands and rng.random() < 0.93:
            t["finals"].append(spell(rng, rng.choice(sorted(cands))))
        elif rng.random() < 0.15:
            t["finals"].append(spell(rng, rng.choice(PR_REF)))
    return t


def gen_scope(rng, ctr, kind, name, depth, nmods, visible_p, root_kind=None, reexp=None):
    """visible_p: lower-cased procedure names certainly present in FORD's all_procs of
    the host (used to choose resolvable `module procedure` names)."""
    s = {"kind": kind, "name": name, "uses": [], "types": [], "absints": [], "ifaces": [], "generics": [],
         "vars": [], "args": [], "ret": None, "kids": []}
    top = depth == 0
    root_kind = root_kind or kind
    # uses
    reexp = reexp if reexp is not None else {}
    deep = depth == 2 and nmods >= 2
    if nmods and rng.random() < (0.65 if top else 0.3 if depth == 1 else 0.6):
        for _ in range(rng.choice([1, 1, 2])):
            # innermost scopes prefer the most recent module (dependency only through a deep USE)
            m = f"m{nmods - 1}" if deep and rng.random() < 0.6 else f"m{rng.randrange(nmods)}"
            if rng.random() < 0.25:
                only = None
            else:
                only = []
                seen_rem, seen_loc = set(), set()
                for _ in range(rng.choice([1, 2, 2, 3])):
                    pool = TY if rng.random() < 0.5 else PR
                    rem = rng.choice(pool)
                    again = reexp.get(m, [])
                    if again and rng.random() < (0.8 if deep else 0.5):
                        # a name the used module itself obtains by USE (re-export chains)
                        rem = rng.choice(again)
                        pool = TY if rem in TY else PR
                    loc = rem if rng.random() < 0.7 else rng.choice(pool)
                    if rem in seen_rem or loc in seen_loc:
                        continue
                    seen_rem.add(rem)
                    seen_loc.add(loc)
                    only.append([spell(rng, loc), spell(rng, rem)])
                if not only:
                    only = None
            s["uses"].append({"mod": spell(rng, m), "only": only})
            if top and kind == "module":
                mine = reexp.setdefault(name.lower(), [])
                if only is None:
                    mine += list(reexp.get(m, [])) + [rng.choice(TY), rng.choice(PR)]
                else:
                    mine += [l.lower() for l, _ in only]
    # local names
    ntypes = rng.choice([0, 1, 1, 2]) if top else rng.choice([0, 0, 1, 1, 2])
    tnames = rng.sample(TY, ntypes)
    pnames = rng.sample(PR, rng.choice([0, 1, 2, 2, 3]) if top else rng.choice([0, 0, 1, 2]))
    if kind in ("function", "subroutine"):
        pnames = [n for n in pnames if n != name.lower()]  # a procedure's own name is taken in its scope
    can_nest = depth == 0 or (depth == 1 and root_kind == "module")
    kid_names, other = [], []
    for n in pnames:
        if can_nest and rng.random() < 0.6:
            kid_names.append(n)
        else:
            other.append(n)
    for n in other:
        r = rng.random()
        if r < 0.45:
            s["absints"].append(spell(rng, n))
        elif r < 0.7:
            s["ifaces"].append(spell(rng, n))
        else:
            s["generics"].append({"name": spell(rng, n), "modprocs": []})
    # a generic that has the name of a type (constructor overloading)
    if rng.random() < 0.2:
        s["generics"].append({"name": spell(rng, rng.choice(TY)), "modprocs": []})
    local_p = {n for n in kid_names} | {g["name"].lower() for g in s["generics"]} | {n.lower() for n in s["ifaces"]}
    for _ in range(rng.choice([0, 1, 2, 3])):
        s["vars"].append(gen_var(rng, ctr))
    if kind in ("function", "subroutine"):
        for _ in range(rng.choice([0, 0, 1, 2])):
            s["args"].append(gen_var(rng, ctr, "x"))
        if kind == "function":
            s["ret"] = gen_var(rng, ctr, "r") if rng.random() < 0.6 else {"name": ctr.next("r"), "vk": "integer", "proto": None}
    # specific procedures of the generics: names FORD can certainly find, sometimes any name
    cands = sorted((set(kid_names) | {n.lower() for n in s["ifaces"]} | set(visible_p)) - {g["name"].lower() for g in s["generics"]})
    for i, n in enumerate(tnames):
        s["types"].append(gen_type(rng, ctr, n, set(tnames[:i]), set(tnames), cands))
    for g in s["generics"]:
        for _ in range(rng.choice([0, 1, 1, 2])):
            if cands and rng.random() < 0.95:
                g["modprocs"].append(spell(rng, rng.choice(cands)))
            elif rng.random() < 0.2:
                g["modprocs"].append(spell(rng, rng.choice(PR_REF)))
    vis = set(visible_p) | local_p
    for n in kid_names:
        k = rng.choice(["function", "subroutine"])
        s["kids"].append(gen_scope(rng, ctr, k, spell(rng, n), depth + 1, nmods, vis, root_kind, reexp))
    return s


def gen_project(rng, size=3):
    ctr = Ctr()
    units = []
    nmods = rng.choice([1, 2, 3, 3]) if size >= 2 else 1
    reexp = {}
    for i in range(nmods):
        units.append(gen_scope(rng, ctr, "module", spell(rng, f"m{i}"), 0, i, set(), None, reexp))
    if rng.random() < 0.8:
        units.append(gen_scope(rng, ctr, "program", "prog", 0, nmods, set(), None, reexp))
    ext = rng.sample(PR, rng.choice([0, 1, 1, 2]))
    for n in ext:
        units.append(gen_scope(rng, ctr, rng.choice(["function", "subroutine"]), spell(rng, n), 0, nmods, set(), None, reexp))
    return {"units": units}


def empty_scope(kind, name):
    return {"kind": kind, "name": name, "uses": [], "types": [], "absints": [], "ifaces": [], "generics": [],
            "vars": [], "args": [], "ret": None, "kids": []}


def gen_chain_project(rng):
    """Re-export chains: m0 declares, m1 obtains by USE and re-exports, a scope nested two levels
    deep in m2 (or in the program) use-associates the names from m1 and refers to them, while m2
    may declare same-named entities itself (use-association in the innermost scope over host
    association).  m2 has no shallower USE of m1."""
    ctr = Ctr()
    tys = rng.sample(TY, rng.choice([1, 2]))
    prs = rng.sample(PR, rng.choice([1, 2]))
    m0 = empty_scope("module", spell(rng, "m0"))
    for n in tys:
        m0["types"].append({"name": spell(rng, n), "extends": None, "comps": [], "binds": [], "deferred": [], "finals": []})
    for n in prs:
        r = rng.random()
        if r < 0.5:
            m0["kids"].append(empty_scope("subroutine", spell(rng, n)))
        elif r < 0.8:
            m0["absints"].append(spell(rng, n))
        else:
            m0["ifaces"].append(spell(rng, n))
    m1 = empty_scope("module", spell(rng, "m1"))
    names = tys + prs
    renamed = {}
    if rng.random() < 0.4:
        m1["uses"].append({"mod": spell(rng, "m0"), "only": None})
        exported = list(names)
    else:
        only = []
        exported = []
        for n in names:
            if rng.random() < 0.8:
                pool = TY if n in TY else PR
                loc = n if rng.random() < 0.7 else rng.choice(pool)
                if loc in exported:
                    continue
                only.append([spell(rng, loc), spell(rng, n)])
                exported.append(loc)
        m1["uses"].append({"mod": spell(rng, "m0"), "only": only or None})
        if not only:
            exported = list(names)
    for _ in range(rng.choice([0, 1])):
        m1["vars"].append(gen_var(rng, ctr))
    host_kind = rng.choice(["module", "module", "program"])
    m2 = empty_scope(host_kind, spell(rng, "m2") if host_kind == "module" else "prog")
    if rng.random() < 0.4:
        m2["uses"].append({"mod": spell(rng, "m0"), "only": None if rng.random() < 0.5 else [[spell(rng, n), spell(rng, n)] for n in names[:1]]})
    # same-named host entities
    for n in exported:
        if rng.random() < 0.4:
            if n in TY:
                m2["types"].append({"name": spell(rng, n), "extends": None, "comps": [], "binds": [], "deferred": [], "finals": []})
            elif n not in [k["name"].lower() for k in m2["kids"]]:
                m2["kids"].append(empty_scope("subroutine", spell(rng, n)))

    def refs(sc):
        for n in rng.sample(exported + [rng.choice(TY_REF), rng.choice(PR_REF)], min(len(exported) + 2, rng.choice([2, 3, 4]))):
            if n in TY_REF:
                sc["vars"].append({"name": ctr.next("v"), "vk": rng.choice(["type", "class"]), "proto": spell(rng, n)})
            else:
                sc["vars"].append({"name": ctr.next("v"), "vk": "procedure", "proto": spell(rng, n)})

    taken = {k["name"].lower() for k in m2["kids"]}
    free = [n for n in PR if n not in taken]
    if host_kind == "module" and free:
        outer = empty_scope(rng.choice(["subroutine", "function"]), spell(rng, free[0]))
        if outer["kind"] == "function":
            outer["ret"] = {"name": ctr.next("r"), "vk": "integer", "proto": None}
        inner_names = [n for n in PR if n != free[0]]
        inner = empty_scope("subroutine", spell(rng, rng.choice(inner_names)))
        inner["uses"].append({"mod": spell(rng, "m1"), "only": None if rng.random() < 0.5 else
                              [[spell(rng, n), spell(rng, n)] for n in rng.sample(exported, min(len(exported), rng.choice([1, 2])))] or None})
        refs(inner)
        if rng.random() < 0.5:
            refs(outer)
        outer["kids"].append(inner)
        m2["kids"].append(outer)
    elif free:
        inner = empty_scope("subroutine", spell(rng, free[0]))
        inner["uses"].append({"mod": spell(rng, "m1"), "only": None})
        refs(inner)
        m2["kids"].append(inner)
    refs(m2)
    units = [m0, m1, m2]
    if rng.random() < 0.3:
        rng.shuffle(units)  # file order is not dependency order
        # keep the abstract order a dependency order for the model / oracle
        units.sort(key=lambda u: {"m0": 0, "m1": 1}.get(u["name"].lower(), 2))
    return {"units": units}


# ------------------------------------------------------------------ rendering

def render_var(v, extra=""):
    if v["vk"] in ("type", "class"):
        return f"{v['vk']}({v['proto']}), pointer :: {v['name']}"
    if v["vk"] == "procedure":
        return f"procedure({v['proto']}), pointer{extra} :: {v['name']}"
    return f"integer :: {v['name']}"


def render_arg(v):
    if v["vk"] in ("type", "class"):
        return f"{v['vk']}({v['proto']}) :: {v['name']}"
    if v["vk"] == "procedure":
        return f"procedure({v['proto']}) :: {v['name']}"
    return f"integer :: {v['name']}"


def render_scope(s, out, ind=0):
    p = "  " * ind
    k = s["kind"]
    if k == "function":
        out.append(f"{p}function {s['name']}({', '.join(a['name'] for a in s['args'])}) result({s['ret']['name']})")
    elif k == "subroutine":
        out.append(f"{p}subroutine {s['name']}({', '.join(a['name'] for a in s['args'])})")
    else:
        out.append(f"{p}{k} {s['name']}")
    q = p + "  "
    for u in s["uses"]:
        if u["only"] is None:
            out.append(f"{q}use {u['mod']}")
        else:
            items = [l if l.lower() == r.lower() and l == r else f"{l} => {r}" for l, r in u["only"]]
            out.append(f"{q}use {u['mod']}, only: {', '.join(items)}")
    for t in s["types"]:
        attrs = ""
        if t["deferred"]:
            attrs += ", abstract"
        if t["extends"]:
            attrs += f", extends({t['extends']})"
        out.append(f"{q}type{attrs} :: {t['name']}")
        for c in t["comps"]:
            out.append(f"{q}  {render_var(c, ', nopass')}")
        if t["binds"] or t["deferred"] or t["finals"]:
            out.append(f"{q}contains")
            for b in t["binds"]:
                out.append(f"{q}  procedure, nopass :: {b['name']} => {b['target']}")
            for b in t["deferred"]:
                out.append(f"{q}  procedure({b['proto']}), deferred, nopass :: {b['name']}")
            for f in t["finals"]:
                out.append(f"{q}  final :: {f}")
        out.append(f"{q}end type")
    for a in s["absints"]:
        out += [f"{q}abstract interface", f"{q}  subroutine {a}()", f"{q}  end subroutine", f"{q}end interface"]
    for a in s["ifaces"]:
        out += [f"{q}interface", f"{q}  subroutine {a}()", f"{q}  end subroutine", f"{q}end interface"]
    for g in s["generics"]:
        out.append(f"{q}interface {g['name']}")
        kw = "module procedure" if k == "module" else "procedure"
        for mp in g["modprocs"]:
            out.append(f"{q}  {kw} {mp}")
        out.append(f"{q}end interface")
    for v in s["vars"]:
        out.append(f"{q}{render_var(v)}")
    for a in s["args"]:
        out.append(f"{q}{render_arg(a)}")
    if s["ret"]:
        out.append(f"{q}{render_arg(s['ret'])}")
    if s["kids"]:
        out.append(f"{p}contains")
        for c in s["kids"]:
            render_scope(c, out, ind + 1)
    out.append(f"{p}end {k}")


def render_project(P, rng):
    """{filename: text}; units are distributed over 1..3 files."""
    nfiles = rng.choice([1, 2, 3])
    files = {f"f{i}.f90": [] for i in range(nfiles)}
    for u in P["units"]:
        out = files[f"f{rng.randrange(nfiles)}.f90"]
        render_scope(u, out)
    return {k: "\n".join(v) + "\n" for k, v in files.items() if v}


# ------------------------------------------------------------------ flattening

class Flat:
    """Entities, slots and model tokens of an abstract project.

    ents[e]  = {"cls": type|proc|absint|iface|generic, "name": lower, "path": [...]}
    slots[i] = {"kind": ty|pr|pa, "phase": e|l, "name", "scope": scope index, "what": description,
                "get": accessor on the FORD side}
    scopes[k] = {"path", "parent": index|None, "unit": index of the top-level unit, "node": abstract scope,
                 "local": {ns: {lname: ent}}, "slots": [ids]}
    """

    def __init__(self, P):
        self.ents = []
        self.slots = []
        self.scopes = []
        self.tokens = []
        for ui, u in enumerate(P["units"]):
            self.tokens.append("M" if u["kind"] == "module" else "N")
            e = self.new_ent("unit" if u["kind"] in ("module", "program") else "extproc", u["name"], [])
            self.scope(u, e, None, [], None)

    def new_ent(self, cls, name, path):
        self.ents.append({"cls": cls, "name": name.lower(), "path": list(path)})
        return len(self.ents) - 1

    def new_slot(self, sidx, kind, phase, name, what, get):
        self.slots.append({"kind": kind, "phase": phase, "name": name, "scope": sidx, "what": what, "get": get})
        i = len(self.slots) - 1
        self.scopes[sidx]["slots"].append(i)
        self.tokens += ["X", str(i), kind, phase, name]
        return i

    def var_slot(self, sidx, v, phase, what, get):
        if v["vk"] in ("type", "class"):
            self.new_slot(sidx, "ty", phase, v["proto"], what, get)
        elif v["vk"] == "procedure":
            self.new_slot(sidx, "pa", phase, v["proto"], what, get)

    def scope(self, s, ent, parent, ppath, unit):
        path = ppath + [(s["kind"], s["name"].lower())]
        sidx = len(self.scopes)
        if unit is None:
            unit = sidx
        rec = {"path": path, "parent": parent, "unit": unit, "node": s, "ent": ent,
               "local": {"t": {}, "p": {}, "a": {}}, "slots": [], "kids": []}
        self.scopes.append(rec)
        if parent is not None:
            self.scopes[parent]["kids"].append(sidx)
        self.tokens += ["(", s["name"], str(ent), "1" if s["kind"] == "function" else "0"]
        for u in s["uses"]:
            if u["only"] is None:
                self.tokens += ["U", u["mod"], "-"]
            else:
                self.tokens += ["U", u["mod"], str(len(u["only"]))]
                for l, r in u["only"]:
                    self.tokens += [l, r]
        spath = ["/".join(f"{k}:{n}" for k, n in path)]
        for t in s["types"]:
            e = self.new_ent("type", t["name"], spath)
            rec["local"]["t"][t["name"].lower()] = e
            self.tokens += ["D", "t", t["name"], str(e)]
        for a in s["absints"]:
            e = self.new_ent("absint", a, spath)
            rec["local"]["a"][a.lower()] = e
            self.tokens += ["D", "a", a, str(e)]
        kid_ents = []
        for c in s["kids"]:
            e = self.new_ent("proc", c["name"], spath)
            rec["local"]["p"][c["name"].lower()] = e
            kid_ents.append(e)
        for a in s["ifaces"]:
            e = self.new_ent("iface", a, spath)
            rec["local"]["p"][a.lower()] = e
            self.tokens += ["D", "p", a, str(e)]
        for g in s["generics"]:
            e = self.new_ent("generic", g["name"], spath)
            rec["local"]["p"][g["name"].lower()] = e
            self.tokens += ["D", "p", g["name"], str(e)]
        # slots -------------------------------------------------------------
        for ti, t in enumerate(s["types"]):
            tn = t["name"].lower()
            if t["extends"]:
                self.new_slot(sidx, "ty", "e", t["extends"], f"type {tn} extends", ("extends", ti))
            for ci, c in enumerate(t["comps"]):
                self.var_slot(sidx, c, "e", f"type {tn} component {c['name']}", ("comp", ti, ci))
            for bi, b in enumerate(t["binds"]):
                self.new_slot(sidx, "pr", "e", b["target"], f"type {tn} binding {b['name']}", ("bind", ti, b["name"]))
            for bi, b in enumerate(t["deferred"]):
                self.new_slot(sidx, "pa", "e", b["proto"], f"type {tn} deferred binding {b['name']} interface", ("defer", ti, b["name"]))
            for fi, f in enumerate(t["finals"]):
                i = self.new_slot(sidx, "pr", "e", f, f"type {tn} final", ("final", ti, fi))
                self.slots[i]["must"] = True
            i = self.new_slot(sidx, "pr", "e", t["name"], f"type {tn} constructor", ("ctor", ti))
            self.slots[i]["ctor"] = True
        for gi, g in enumerate(s["generics"]):
            for mi, mp in enumerate(g["modprocs"]):
                i = self.new_slot(sidx, "pr", "l", mp, f"generic {g['name'].lower()} specific {mi}", ("modproc", gi, mi))
                self.slots[i]["must"] = True
        for vi, v in enumerate(s["vars"]):
            self.var_slot(sidx, v, "l", f"variable {v['name']}", ("var", v["name"]))
        for ai, a in enumerate(s["args"]):
            self.var_slot(sidx, a, "l", f"argument {a['name']}", ("arg", ai))
        if s["ret"]:
            self.var_slot(sidx, s["ret"], "l", "result", ("ret",))
        for c, e in zip(s["kids"], kid_ents):
            self.scope(c, e, sidx, path, unit)
        self.tokens.append(")")


# ------------------------------------------------------------------ oracle

CLASH = "CLASH"
SKIP = "SKIP"


def oracle(F: Flat):
    """Expected content of every slot by Fortran scoping, computed on the abstract project
    without reference to FORD's tables: dict slot -> ent | None | SKIP (reference is not
    Fortran: name clash in the deciding scope, or the designated entity cannot be referenced
    in that position)."""
    exports = {}
    frames = {}

    def frame_of(sidx):
        rec = F.scopes[sidx]
        fr = {ns: {n: {e} for n, e in tab.items()} for ns, tab in rec["local"].items()}
        for u in rec["node"]["uses"]:
            ex = exports.get(u["mod"].lower())
            if ex is None:
                continue
            for ns in "tpa":
                if u["only"] is None:
                    for n, es in ex[ns].items():
                        fr[ns].setdefault(n, set()).update(es)
                else:
                    for l, r in u["only"]:
                        if r.lower() in ex[ns]:
                            fr[ns].setdefault(l.lower(), set()).update(ex[ns][r.lower()])
        return fr

    # units in order; modules export their top-level frame
    for sidx, rec in enumerate(F.scopes):
        frames[sidx] = frame_of(sidx)
        if rec["parent"] is None and rec["node"]["kind"] == "module":
            exports[rec["node"]["name"].lower()] = frames[sidx]

    def chain(sidx):
        while sidx is not None:
            yield sidx
            sidx = F.scopes[sidx]["parent"]

    exp = {}
    where = {}
    for i, sl in enumerate(F.slots):
        n = sl["name"].lower()
        found = None
        at = None
        if sl.get("ctor"):
            fr = frames[sl["scope"]]
            es = fr["p"].get(n, set()) | fr["a"].get(n, set())
            loc = [e for e in es if F.ents[e]["cls"] == "generic"]
            if len(es) == 1 and loc:
                exp[i] = loc[0]
                where[i] = sl["scope"]
            else:
                exp[i] = SKIP
            continue
        for s in chain(sl["scope"]):
            fr = frames[s]
            es = set(fr["t"].get(n, set())) if sl["kind"] == "ty" else set(fr["p"].get(n, set())) | set(fr["a"].get(n, set()))
            if es:
                found = es
                at = s
                break
        if found is None:
            exp[i] = None
        elif len(found) > 1:
            exp[i] = SKIP
        else:
            e = next(iter(found))
            cls = F.ents[e]["cls"]
            if sl["kind"] == "pa" and cls == "generic":
                exp[i] = SKIP
            elif sl["kind"] == "pr" and cls in ("absint", "generic"):
                exp[i] = SKIP
            else:
                exp[i] = e
                where[i] = at
    return exp, where, frames


def classify(F: Flat, frames, where, i, observed):
    """Known defect class of a failing slot (decidable on the abstract project), or None."""
    sl = F.slots[i]
    n = sl["name"].lower()
    anc = set()
    s = sl["scope"]
    while s is not None:
        anc.add(s)
        s = F.scopes[s]["parent"]
    unit = F.scopes[sl["scope"]]["unit"]
    chain_frames = [s for s in anc]
    depth = {s: len(F.scopes[s]["path"]) for s in anc}
    # (1) shared dict objects: a type / abstract interface of that name is declared in or
    #     use-associated into a scope of the same top-level unit that does not enclose the reference
    if sl["kind"] in ("ty", "pa"):
        ns = "t" if sl["kind"] == "ty" else "a"
        for k, rec in enumerate(F.scopes):
            if rec["unit"] == unit and k not in anc and n in frames[k][ns]:
                if observed is not None and observed in frames[k][ns][n]:
                    return "C07-shared-type-tables-leak"
    if sl["kind"] in ("pr", "pa"):
        # (2) host procedure overwrites the local one: the name is a procedure in two enclosing frames
        holders = [s for s in anc if n in frames[s]["p"]]
        if len(holders) >= 2:
            inner = max(holders, key=lambda s: depth[s])
            for s in holders:
                # the innermost frame that has the name as a procedure does not hold FORD's entity
                # (the same entity use-associated at two levels is not a shadowing failure)
                if s != inner and observed is not None and observed in frames[s]["p"][n] \
                        and observed not in frames[inner]["p"][n]:
                    return "C07-host-procedure-beats-local"
        # (3) all_procs is consulted before all_absinterfaces whatever the nesting: an abstract
        #     interface of an inner frame is hidden by a procedure of an outer frame
        if sl["kind"] == "pa":
            ah = [s for s in anc if n in frames[s]["a"]]
            for a_s in ah:
                for p_s in holders:
                    if depth[p_s] < depth[a_s] and observed is not None and observed in frames[p_s]["p"][n]:
                        return "C07-procedure-table-before-absinterface"
    return None
