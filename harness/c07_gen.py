"""C07 - abstract Fortran projects in name-reuse mode, their rendering, the flat
encoding for the Lean model, the scoping oracle and the FORD-object observation.

Abstract scope (plain dicts, JSON-able):
  kind      module | submodule | program | function | subroutine
            submodule: "ancestor": name of the ancestor module, "parent": name of the parent
            submodule | None (`submodule (anc:parent) name`); a submodule is a scope nested in its
            parent (host association).  A nested procedure with "mp": "subroutine" | "procedure" is
            a separate module procedure (`module subroutine n()` / `module procedure n`) - the
            implementation of the module procedure interface `n` declared by an ancestor.
  mpifaces  [str]          (optional; modules, submodules) module procedure interfaces: an interface
            block with the body `module subroutine n()`
  name      spelling at the declaration
  uses      [{"mod": str, "only": None | [[local, remote], ...], "ren": [[local, remote], ...]}]
            only = None: USE without ONLY; "ren" (optional) are then its renames `local => remote`
  types     [{"name", "extends": str|None, "comps": [var], "binds": [{"name","target": str|None}],
              "deferred": [{"name","proto"}], "finals": [str],
              "gbinds": [{"name", "specs": [str]}], "merge": bool}]
            binds: `procedure, nopass :: name => target`; target None = `procedure, nopass :: name`
            (the binding is to the procedure of that very name).  deferred: `procedure(proto),
            deferred, nopass :: name` - the name is a binding name only, it refers to no procedure.
            gbinds (optional): `generic :: name => spec, ...` - the specifics are names of BINDINGS of
            the type (own or inherited), not of procedures of the scope.  Binding names come from PR
            too (a binding name is local to the type and may equal a procedure name of the scope).
            merge (optional): the specific bindings are written as one statement.
  absints   [str]          abstract interface with one subroutine of that name
  ifaces    [str]          interface block (non generic) with one interface body
  generics  [{"name", "modprocs": [str], "bodies": [str]}]
            bodies (optional): interface bodies inside the generic interface; each declares a
            procedure of the scope (external procedure with explicit interface)
  dummies   [{"name", "fn": bool}]  (optional; procedures) dummy procedures declared by an interface
            body: the name is in the argument list after `args`; a local entity of the procedure
  vars      [var]          var = {"name", "vk": type|class|procedure, "proto": str}
  args      [var]  ret: var | None          (procedures)
  kids      [scope]        nested procedures in source order
  blocks    [block]        (optional; programs and procedures) BLOCK constructs of the execution part
            block = {"label": str|None, "end": spelling of the END BLOCK keyword(s), "uses": [use],
                     "types": [type without CONTAINS part], "absints": [str], "ifaces": [str],
                     "vars": [var], "blocks": [block]}
            A BLOCK is a scoping unit: what it declares or use-associates is local to it.

Every name of a type comes from TY, every procedure-like name from PR (three
names each, any letter case), so that equal names meet in module vs. internal
procedure, sibling procedures, two modules, module vs. external procedure.
"""
from __future__ import annotations

TY = ["ta", "tb", "tc"]
PR = ["pa", "pb", "pc"]
TY_REF = TY + ["td"]  # td / pd are declared nowhere
PR_REF = PR + ["pd"]
TY_ALIAS = "te"  # te / pe are declared nowhere either; they only occur as the local name of a rename
PR_ALIAS = "pe"


def spell(rng, n):
    r = rng.random()
    if r < 0.6:
        return n
    if r < 0.8:
        return n.upper()
    return n.capitalize()


class Ctr:
    def __init__(self):
        self.n = 0

    def next(self, p):
        self.n += 1
        return f"{p}{self.n}"


def gen_var(rng, ctr, prefix="v"):
    r = rng.random()
    if r < 0.55:
        n = TY_ALIAS if rng.random() < 0.08 else rng.choice(TY_REF)
        return {"name": ctr.next(prefix), "vk": rng.choice(["type", "type", "class"]), "proto": spell(rng, n)}
    n = PR_ALIAS if rng.random() < 0.08 else rng.choice(PR_REF)
    return {"name": ctr.next(prefix), "vk": "procedure", "proto": spell(rng, n)}


def gen_renames(rng, again, deep):
    """Items `local => remote` of one USE statement: remote names distinct, local names distinct
    (a second local name for one entity / one local name for two entities is left out)."""
    items = []
    seen_rem, seen_loc = set(), set()
    for _ in range(rng.choice([1, 1, 2])):
        pool = TY if rng.random() < 0.5 else PR
        rem = rng.choice(pool)
        if again and rng.random() < (0.8 if deep else 0.5):
            rem = rng.choice(again)
            pool = TY if rem in TY else PR
        r = rng.random()
        alias = TY_ALIAS if pool is TY else PR_ALIAS
        loc = alias if r < 0.5 else rng.choice([n for n in pool if n != rem])
        if rem in seen_rem or loc in seen_loc:
            continue
        seen_rem.add(rem)
        seen_loc.add(loc)
        items.append([spell(rng, loc), spell(rng, rem)])
    return items


def respell(rng, n):
    return spell(rng, n.lower())


def gen_bindings(rng, ctr, t, p_pool=0.4, inherited=()):
    """the type-bound part of a derived type: specific bindings (with and without `=> target`),
    a deferred binding, generic bindings.  Binding names are taken from PR with probability
    `p_pool` - a binding name is local to the type, so it may (and here often does) equal the name
    of a procedure of the enclosing scope; `inherited` = binding names of the parent type (named
    as specifics of generic bindings now and then)."""
    taken = set()

    def bname(p):
        if rng.random() < p:
            free = [n for n in PR if n not in taken]
            if free:
                n = rng.choice(free)
                taken.add(n)
                return spell(rng, n)
        return ctr.next("b")

    for _ in range(rng.choice([0, 0, 1, 2])):
        if rng.random() < 0.25:
            # `procedure :: name` - binding name = name of the procedure it is bound to
            free = [n for n in PR_REF if n not in taken]
            if free:
                n = rng.choice(free)
                taken.add(n)
                t["binds"].append({"name": spell(rng, n), "target": None})
                continue
        t["binds"].append({"name": bname(p_pool), "target": spell(rng, rng.choice(PR_REF))})
    if rng.random() < 0.3:
        t["deferred"].append({"name": bname(max(p_pool, 0.5)), "proto": spell(rng, rng.choice(PR_REF))})
    if len(t["binds"]) >= 2 and rng.random() < 0.3:
        t["merge"] = True
    own = [b["name"] for b in t["binds"]] + [b["name"] for b in t["deferred"]]
    pool = own + [n for n in inherited if n.lower() not in {o.lower() for o in own}]
    if pool and rng.random() < 0.4:
        for _ in range(rng.choice([1, 1, 2])):
            specs = [respell(rng, x) for x in rng.sample(pool, min(len(pool), rng.choice([1, 1, 2])))]
            if rng.random() < 0.1:
                specs.append(spell(rng, rng.choice(PR_REF)))  # possibly no binding of the type at all
            t.setdefault("gbinds", []).append({"name": ctr.next("g"), "specs": specs})


def gen_type(rng, ctr, name, earlier, local_all, cands=()):
    t = {"name": spell(rng, name), "extends": None, "comps": [], "binds": [], "deferred": [], "finals": []}
    if rng.random() < 0.4:
        allowed = [n for n in TY_REF if n in earlier or n not in local_all]
        if allowed:
            t["extends"] = spell(rng, rng.choice(allowed))
    for _ in range(rng.choice([0, 1, 1, 2])):
        t["comps"].append(gen_var(rng, ctr, "c"))
    gen_bindings(rng, ctr, t, 0.4, PR if t["extends"] else ())
    if rng.random() < 0.25:
        if cands and rng.random() < 0.93:
            t["finals"].append(spell(rng, rng.choice(sorted(cands))))
        elif rng.random() < 0.15:
            t["finals"].append(spell(rng, rng.choice(PR_REF)))
    return t


END_BLOCK = ["end block", "end block", "endblock", "END BLOCK", "End Block"]


def gen_block_use(rng, nmods, reexp):
    """one USE statement of a BLOCK: plain, with renames, or with an ONLY list"""
    m = f"m{rng.randrange(nmods)}"
    r = rng.random()
    if r < 0.4:
        return {"mod": spell(rng, m), "only": None}
    if r < 0.6:
        ren = gen_renames(rng, reexp.get(m, []), False)
        u = {"mod": spell(rng, m), "only": None}
        if ren:
            u["ren"] = ren
        return u
    only, seen_rem, seen_loc = [], set(), set()
    for _ in range(rng.choice([1, 2, 2])):
        pool = TY if rng.random() < 0.5 else PR
        rem = rng.choice(pool)
        loc = rem if rng.random() < 0.75 else (TY_ALIAS if pool is TY else PR_ALIAS)
        if rem in seen_rem or loc in seen_loc:
            continue
        seen_rem.add(rem)
        seen_loc.add(loc)
        only.append([spell(rng, loc), spell(rng, rem)])
    return {"mod": spell(rng, m), "only": only or None}


def gen_block(rng, ctr, nmods, reexp, avoid_t=(), avoid_p=(), level=0, p_use=0.35, tnames=None, pnames=None):
    """a BLOCK construct whose local names come from the same pools as everything else, so that
    they meet same-named entities of the enclosing procedure, its host and the modules"""
    b = {"label": ctr.next("blk") if rng.random() < 0.3 else None, "end": rng.choice(END_BLOCK),
         "uses": [], "types": [], "absints": [], "ifaces": [], "vars": [], "blocks": []}
    if nmods and rng.random() < p_use:
        b["uses"].append(gen_block_use(rng, nmods, reexp))
    if tnames is None:
        tnames = rng.sample(TY, rng.choice([0, 1, 1, 2]))
    for i, n in enumerate(tnames):
        t = {"name": spell(rng, n), "extends": None, "comps": [], "binds": [], "deferred": [], "finals": []}
        if rng.random() < 0.2:
            # parent: a type declared earlier in this block, or one the block does not declare and
            # the enclosing procedure does not declare either
            allowed = [x for x in TY_REF if x in tnames[:i] or (x not in tnames and x not in avoid_t)]
            if allowed:
                t["extends"] = spell(rng, rng.choice(allowed))
        for _ in range(rng.choice([0, 0, 1, 2])):
            t["comps"].append(gen_var(rng, ctr, "c"))
        b["types"].append(t)
    if pnames is None:
        ppool = [x for x in PR if x not in avoid_p]
        pnames = rng.sample(ppool, min(len(ppool), rng.choice([0, 0, 1, 1, 2])))
    for n in pnames:
        if rng.random() < 0.6:
            b["absints"].append(spell(rng, n))
        else:
            b["ifaces"].append(spell(rng, n))
    for _ in range(rng.choice([0, 1, 1, 2])):
        b["vars"].append(gen_var(rng, ctr, "w"))
    if level == 0 and rng.random() < 0.25:
        b["blocks"].append(gen_block(rng, ctr, nmods, reexp, avoid_t, avoid_p, 1, p_use))
    return b


def gen_scope(rng, ctr, kind, name, depth, nmods, visible_p, root_kind=None, reexp=None):
    """visible_p: lower-cased procedure names certainly present in FORD's all_procs of
    the host (used to choose resolvable `module procedure` names)."""
    s = {"kind": kind, "name": name, "uses": [], "types": [], "absints": [], "ifaces": [], "generics": [],
         "vars": [], "args": [], "ret": None, "kids": []}
    top = depth == 0
    root_kind = root_kind or kind
    # uses
    reexp = reexp if reexp is not None else {}
    deep = depth == 2 and nmods >= 2
    if nmods and rng.random() < (0.65 if top else 0.3 if depth == 1 else 0.6):
        for _ in range(rng.choice([1, 1, 2])):
            # innermost scopes prefer the most recent module (dependency only through a deep USE)
            m = f"m{nmods - 1}" if deep and rng.random() < 0.6 else f"m{rng.randrange(nmods)}"
            ren = []
            if rng.random() < 0.4:
                only = None
                if rng.random() < 0.6:
                    # USE without ONLY but with renames: the renamed entity is accessible under
                    # its local name only
                    ren = gen_renames(rng, reexp.get(m, []), deep)
            else:
                only = []
                seen_rem, seen_loc = set(), set()
                for _ in range(rng.choice([1, 2, 2, 3])):
                    pool = TY if rng.random() < 0.5 else PR
                    rem = rng.choice(pool)
                    again = reexp.get(m, [])
                    if again and rng.random() < (0.8 if deep else 0.5):
                        # a name the used module itself obtains by USE (re-export chains)
                        rem = rng.choice(again)
                        pool = TY if rem in TY else PR
                    r = rng.random()
                    loc = rem if r < 0.7 else (TY_ALIAS if pool is TY else PR_ALIAS) if r < 0.8 else rng.choice(pool)
                    if rem in seen_rem or loc in seen_loc:
                        continue
                    seen_rem.add(rem)
                    seen_loc.add(loc)
                    only.append([spell(rng, loc), spell(rng, rem)])
                if not only:
                    only = None
            u = {"mod": spell(rng, m), "only": only}
            if ren:
                u["ren"] = ren
            s["uses"].append(u)
            if top and kind == "module":
                mine = reexp.setdefault(name.lower(), [])
                if only is None:
                    mine += list(reexp.get(m, [])) + [rng.choice(TY), rng.choice(PR)]
                    mine += [l.lower() for l, _ in ren if l.lower() in TY + PR]
                else:
                    mine += [l.lower() for l, _ in only if l.lower() in TY + PR]
    # local names
    ntypes = rng.choice([0, 1, 1, 2]) if top else rng.choice([0, 0, 1, 1, 2])
    tnames = rng.sample(TY, ntypes)
    pnames = rng.sample(PR, rng.choice([0, 1, 2, 2, 3]) if top else rng.choice([0, 0, 1, 2]))
    if kind in ("function", "subroutine"):
        pnames = [n for n in pnames if n != name.lower()]  # a procedure's own name is taken in its scope
    can_nest = depth == 0 or (depth == 1 and root_kind == "module")
    kid_names, other = [], []
    for n in pnames:
        if can_nest and rng.random() < 0.6:
            kid_names.append(n)
        else:
            other.append(n)
    for n in other:
        r = rng.random()
        if kind in ("function", "subroutine") and r < 0.3:
            # a dummy procedure declared by an interface body: a local entity of the procedure
            s.setdefault("dummies", []).append({"name": spell(rng, n), "fn": rng.random() < 0.4})
        elif r < 0.5:
            s["absints"].append(spell(rng, n))
        elif r < 0.75:
            s["ifaces"].append(spell(rng, n))
        else:
            s["generics"].append({"name": spell(rng, n), "modprocs": []})
    if len(s.get("dummies", [])) >= 2 and rng.random() < 0.5:
        s["dblock"] = True  # one interface block for all dummy procedures
    # a generic that has the name of a type (constructor overloading)
    if rng.random() < 0.2:
        s["generics"].append({"name": spell(rng, rng.choice(TY)), "modprocs": []})
    # interface bodies inside a generic interface declare procedures of the scope
    unused = [n for n in PR if n not in pnames and n != name.lower()]
    for g in s["generics"]:
        if unused and rng.random() < 0.3:
            g["bodies"] = [spell(rng, unused.pop(rng.randrange(len(unused))))]
    local_p = {n for n in kid_names} | {g["name"].lower() for g in s["generics"]} | {n.lower() for n in s["ifaces"]} \
        | {b.lower() for g in s["generics"] for b in g.get("bodies", [])}
    for _ in range(rng.choice([0, 1, 2, 3])):
        s["vars"].append(gen_var(rng, ctr))
    if kind in ("function", "subroutine"):
        for _ in range(rng.choice([0, 0, 1, 2])):
            s["args"].append(gen_var(rng, ctr, "x"))
        if kind == "function":
            s["ret"] = gen_var(rng, ctr, "r") if rng.random() < 0.6 else {"name": ctr.next("r"), "vk": "integer", "proto": None}
    # specific procedures of the generics: names FORD can certainly find, sometimes any name
    cands = sorted((set(kid_names) | {n.lower() for n in s["ifaces"]} | set(visible_p)) - {g["name"].lower() for g in s["generics"]})
    for i, n in enumerate(tnames):
        s["types"].append(gen_type(rng, ctr, n, set(tnames[:i]), set(tnames), cands))
    for g in s["generics"]:
        for _ in range(rng.choice([0, 1, 1, 2])):
            if cands and rng.random() < 0.95:
                g["modprocs"].append(spell(rng, rng.choice(cands)))
            elif rng.random() < 0.2:
                g["modprocs"].append(spell(rng, rng.choice(PR_REF)))
    vis = set(visible_p) | local_p
    for n in kid_names:
        k = rng.choice(["function", "subroutine"])
        s["kids"].append(gen_scope(rng, ctr, k, spell(rng, n), depth + 1, nmods, vis, root_kind, reexp))
    # BLOCK constructs in the execution part of a program / procedure
    if kind != "module" and rng.random() < 0.3:
        own = {name.lower()} if kind in ("function", "subroutine") else set()
        for _ in range(rng.choice([1, 1, 2])):
            s.setdefault("blocks", []).append(gen_block(rng, ctr, nmods, reexp, set(tnames), own))
    return s


def gen_project(rng, size=3):
    ctr = Ctr()
    units = []
    nmods = rng.choice([1, 2, 3, 3]) if size >= 2 else 1
    reexp = {}
    for i in range(nmods):
        units.append(gen_scope(rng, ctr, "module", spell(rng, f"m{i}"), 0, i, set(), None, reexp))
    if rng.random() < 0.8:
        units.append(gen_scope(rng, ctr, "program", "prog", 0, nmods, set(), None, reexp))
    ext = rng.sample(PR, rng.choice([0, 1, 1, 2]))
    for n in ext:
        units.append(gen_scope(rng, ctr, rng.choice(["function", "subroutine"]), spell(rng, n), 0, nmods, set(), None, reexp))
    return {"units": units}


def empty_scope(kind, name):
    return {"kind": kind, "name": name, "uses": [], "types": [], "absints": [], "ifaces": [], "generics": [],
            "vars": [], "args": [], "ret": None, "kids": []}


def gen_chain_project(rng):
    """Re-export chains: m0 declares, m1 obtains by USE and re-exports, a scope nested two levels
    deep in m2 (or in the program) use-associates the names from m1 and refers to them, while m2
    may declare same-named entities itself (use-association in the innermost scope over host
    association).  m2 has no shallower USE of m1."""
    ctr = Ctr()
    tys = rng.sample(TY, rng.choice([1, 2]))
    prs = rng.sample(PR, rng.choice([1, 2]))
    m0 = empty_scope("module", spell(rng, "m0"))
    for n in tys:
        m0["types"].append({"name": spell(rng, n), "extends": None, "comps": [], "binds": [], "deferred": [], "finals": []})
    for n in prs:
        r = rng.random()
        if r < 0.5:
            m0["kids"].append(empty_scope("subroutine", spell(rng, n)))
        elif r < 0.8:
            m0["absints"].append(spell(rng, n))
        else:
            m0["ifaces"].append(spell(rng, n))
    m1 = empty_scope("module", spell(rng, "m1"))
    names = tys + prs
    renamed = {}
    if rng.random() < 0.4:
        m1["uses"].append({"mod": spell(rng, "m0"), "only": None})
        exported = list(names)
    else:
        only = []
        exported = []
        for n in names:
            if rng.random() < 0.8:
                pool = TY if n in TY else PR
                loc = n if rng.random() < 0.7 else rng.choice(pool)
                if loc in exported:
                    continue
                only.append([spell(rng, loc), spell(rng, n)])
                exported.append(loc)
        m1["uses"].append({"mod": spell(rng, "m0"), "only": only or None})
        if not only:
            exported = list(names)
    for _ in range(rng.choice([0, 1])):
        m1["vars"].append(gen_var(rng, ctr))
    host_kind = rng.choice(["module", "module", "program"])
    m2 = empty_scope(host_kind, spell(rng, "m2") if host_kind == "module" else "prog")
    if rng.random() < 0.4:
        m2["uses"].append({"mod": spell(rng, "m0"), "only": None if rng.random() < 0.5 else [[spell(rng, n), spell(rng, n)] for n in names[:1]]})
    # same-named host entities
    for n in exported:
        if rng.random() < 0.4:
            if n in TY:
                m2["types"].append({"name": spell(rng, n), "extends": None, "comps": [], "binds": [], "deferred": [], "finals": []})
            elif n not in [k["name"].lower() for k in m2["kids"]]:
                m2["kids"].append(empty_scope("subroutine", spell(rng, n)))

    def refs(sc):
        for n in rng.sample(exported + [rng.choice(TY_REF), rng.choice(PR_REF)], min(len(exported) + 2, rng.choice([2, 3, 4]))):
            if n in TY_REF:
                sc["vars"].append({"name": ctr.next("v"), "vk": rng.choice(["type", "class"]), "proto": spell(rng, n)})
            else:
                sc["vars"].append({"name": ctr.next("v"), "vk": "procedure", "proto": spell(rng, n)})

    taken = {k["name"].lower() for k in m2["kids"]}
    free = [n for n in PR if n not in taken]
    if host_kind == "module" and free:
        outer = empty_scope(rng.choice(["subroutine", "function"]), spell(rng, free[0]))
        if outer["kind"] == "function":
            outer["ret"] = {"name": ctr.next("r"), "vk": "integer", "proto": None}
        inner_names = [n for n in PR if n != free[0]]
        inner = empty_scope("subroutine", spell(rng, rng.choice(inner_names)))
        inner["uses"].append({"mod": spell(rng, "m1"), "only": None if rng.random() < 0.5 else
                              [[spell(rng, n), spell(rng, n)] for n in rng.sample(exported, min(len(exported), rng.choice([1, 2])))] or None})
        refs(inner)
        if rng.random() < 0.5:
            refs(outer)
        outer["kids"].append(inner)
        m2["kids"].append(outer)
    elif free:
        inner = empty_scope("subroutine", spell(rng, free[0]))
        inner["uses"].append({"mod": spell(rng, "m1"), "only": None})
        refs(inner)
        m2["kids"].append(inner)
    refs(m2)
    units = [m0, m1, m2]
    if rng.random() < 0.3:
        rng.shuffle(units)  # file order is not dependency order
        # keep the abstract order a dependency order for the model / oracle
        units.sort(key=lambda u: {"m0": 0, "m1": 1}.get(u["name"].lower(), 2))
    return {"units": units}


def _plain_type(rng, n):
    return {"name": spell(rng, n), "extends": None, "comps": [], "binds": [], "deferred": [], "finals": []}


def gen_rename_project(rng):
    """Renames on USE statements: m0 declares entities; optionally m1 obtains them by a USE with
    renames and re-exports them; a scope S (a module / program / external procedure, or a procedure
    nested one or two levels deep in it) use-associates them with renames - with or without ONLY -
    typically because S or its host has an entity of the original name.  The original names, the
    local names and undeclared names are referenced from S, from its host and from scopes nested
    in S, in variables, components, parent types, bindings and deferred-binding interfaces."""
    ctr = Ctr()
    tys = rng.sample(TY, rng.choice([1, 2, 3]))
    prs = rng.sample(PR, rng.choice([1, 2]))
    m0 = empty_scope("module", spell(rng, "m0"))
    for n in tys:
        m0["types"].append(_plain_type(rng, n))
    for n in prs:
        r = rng.random()
        if r < 0.5:
            m0["kids"].append(empty_scope("subroutine", spell(rng, n)))
        elif r < 0.8:
            m0["absints"].append(spell(rng, n))
        else:
            m0["ifaces"].append(spell(rng, n))
    names = tys + prs

    def rename_use(mod, avail, force_plain=False):
        """a USE of `mod` whose renamed remote names come (mostly) from `avail`; returns the
        statement and the names accessible through it"""
        r = rng.random()
        items, seen_loc = [], set()
        avail = list(dict.fromkeys(avail))
        cands = list(avail)
        rng.shuffle(cands)
        for n in cands[:rng.choice([1, 1, 2, 3])]:
            pool = TY if n in TY_REF + [TY_ALIAS] else PR
            alias = TY_ALIAS if pool is TY else PR_ALIAS
            q = rng.random()
            loc = alias if q < 0.55 else rng.choice([x for x in pool if x != n]) if q < 0.9 else n
            if loc in seen_loc:
                continue
            seen_loc.add(loc)
            items.append([loc, n])
        if rng.random() < 0.1:
            pool = rng.choice([TY, PR])
            rem = rng.choice(pool)  # possibly a name the module does not export
            alias = TY_ALIAS if pool is TY else PR_ALIAS
            if rem not in [x for _, x in items] and alias not in seen_loc:
                seen_loc.add(alias)
                items.append([alias, rem])
        if force_plain or r < 0.12:
            return {"mod": spell(rng, mod), "only": None}, list(avail)
        if r < 0.75:
            items = [it for it in items if it[0] != it[1]]
            if not items:
                return {"mod": spell(rng, mod), "only": None}, list(avail)
            renamed = {x for _, x in items}
            vis = list(dict.fromkeys([n for n in avail if n not in renamed] + [l for l, _ in items]))
            return {"mod": spell(rng, mod), "only": None, "ren": [[spell(rng, l), spell(rng, x)] for l, x in items]}, vis
        return {"mod": spell(rng, mod), "only": [[spell(rng, l), spell(rng, x)] for l, x in items]}, [l for l, _ in items]

    units = [m0]
    src_mod, avail = "m0", list(names)
    if rng.random() < 0.35:
        m1 = empty_scope("module", spell(rng, "m1"))
        u, avail = rename_use("m0", names)
        m1["uses"].append(u)
        if rng.random() < 0.3:
            t = rng.choice(TY)
            if t not in avail:
                m1["types"].append(_plain_type(rng, t))
                avail.append(t)
        units.append(m1)
        src_mod = "m1"
    host_kind = rng.choice(["module", "module", "program", "subroutine"])
    hname = {"module": "m2", "program": "prog", "subroutine": rng.choice(PR)}[host_kind]
    host = empty_scope(host_kind, spell(rng, hname))

    def refs(sc, k):
        pool = list(dict.fromkeys(avail + names + [TY_ALIAS, PR_ALIAS, rng.choice(TY_REF), rng.choice(PR_REF)]))
        for n in rng.sample(pool, min(len(pool), k)):
            if n in TY_REF or n == TY_ALIAS:
                sc["vars"].append({"name": ctr.next("v"), "vk": rng.choice(["type", "class"]), "proto": spell(rng, n)})
            else:
                sc["vars"].append({"name": ctr.next("v"), "vk": "procedure", "proto": spell(rng, n)})

    def own_decls(sc, p, taken):
        """entities of the original names declared by the scope itself"""
        for n in names:
            if rng.random() < p and n not in taken:
                if n in TY:
                    sc["types"].append(_plain_type(rng, n))
                elif n != sc["name"].lower() and n not in [k["name"].lower() for k in sc["kids"]]:
                    if rng.random() < 0.5 and sc["kind"] in ("module", "program"):
                        sc["kids"].append(empty_scope("subroutine", spell(rng, n)))
                    else:
                        sc["absints"].append(spell(rng, n))
                taken.add(n)

    def rich_type(sc, local_types):
        """a derived type of the using scope whose parent, components and bindings refer to the names"""
        free = [n for n in TY if n not in local_types]
        if not free:
            return
        t = _plain_type(rng, rng.choice(free))
        tpool = [n for n in TY_REF + [TY_ALIAS] if n != t["name"].lower()]
        if rng.random() < 0.5:
            t["extends"] = spell(rng, rng.choice(tpool))
        for _ in range(rng.choice([0, 1, 2])):
            if rng.random() < 0.5:
                t["comps"].append({"name": ctr.next("c"), "vk": "type", "proto": spell(rng, rng.choice(tpool))})
            else:
                t["comps"].append({"name": ctr.next("c"), "vk": "procedure", "proto": spell(rng, rng.choice(PR_REF + [PR_ALIAS]))})
        if rng.random() < 0.4:
            t["binds"].append({"name": ctr.next("b"), "target": spell(rng, rng.choice(PR_REF + [PR_ALIAS]))})
        if rng.random() < 0.25:
            t["deferred"].append({"name": ctr.next("b"), "proto": spell(rng, rng.choice(PR_REF + [PR_ALIAS]))})
        sc["types"].append(t)

    depth = rng.choice([0, 0, 1, 1, 2]) if host_kind == "module" else rng.choice([0, 0, 1])
    taken_host = set()
    if depth == 0:
        u, vis = rename_use(src_mod, avail)
        host["uses"].append(u)
        # the scope's own entity of a name that was renamed away (the usual reason for the rename)
        gone = [x.lower() for _, x in u.get("ren", [])] if u["only"] is None else [n for n in names if n not in [v.lower() for v in vis]]
        for n in dict.fromkeys(gone):
            if rng.random() < 0.6 and n not in [v.lower() for v in vis]:
                if n in TY:
                    host["types"].append(_plain_type(rng, n))
                elif n != hname:
                    host["absints"].append(spell(rng, n))
        if rng.random() < 0.5:
            rich_type(host, {t["name"].lower() for t in host["types"]} | {v.lower() for v in vis})
        refs(host, rng.choice([2, 3, 4]))
        if host_kind != "subroutine" or rng.random() < 0.5:
            free = [n for n in PR if n != hname and n not in [k["name"].lower() for k in host["kids"]]
                    and n not in [a.lower() for a in host["absints"]] and n not in [v.lower() for v in vis]]
            if free and rng.random() < 0.6:
                kid = empty_scope("subroutine", spell(rng, free[0]))
                own_decls(kid, 0.25, {free[0]})
                refs(kid, rng.choice([2, 3]))
                host["kids"].append(kid)
    else:
        if rng.random() < 0.3:
            host["uses"].append(rename_use("m0", names)[0] if rng.random() < 0.5 else {"mod": spell(rng, "m0"), "only": None})
        own_decls(host, 0.5 if not host["uses"] else 0.15, taken_host)
        free = [n for n in PR if n != hname and n not in [k["name"].lower() for k in host["kids"]]]
        free = [n for n in free if n not in [a.lower() for a in host["absints"]]] or free
        outer = empty_scope(rng.choice(["subroutine", "function"]), spell(rng, free[0]))
        if outer["kind"] == "function":
            outer["ret"] = {"name": ctr.next("r"), "vk": "integer", "proto": None}
        user = outer
        if depth == 2:
            inner_names = [n for n in PR if n != free[0]]
            inner = empty_scope("subroutine", spell(rng, rng.choice(inner_names)))
            outer["kids"].append(inner)
            if rng.random() < 0.4:
                own_decls(outer, 0.3, {free[0], inner["name"].lower()})
            user = inner
        u, vis = rename_use(src_mod, avail)
        user["uses"].append(u)
        if rng.random() < 0.4:
            rich_type(user, {v.lower() for v in vis})
        refs(user, rng.choice([2, 3, 4]))
        if user is not outer and rng.random() < 0.5:
            refs(outer, 2)
        host["kids"].append(outer)
        # a sibling that must see nothing of the renames
        free2 = [n for n in PR if n != hname and n not in [k["name"].lower() for k in host["kids"]]
                 and n not in [a.lower() for a in host["absints"]]]
        if free2 and rng.random() < 0.5:
            sib = empty_scope(rng.choice(["subroutine", "function"]), spell(rng, free2[0]))
            if sib["kind"] == "function":
                sib["ret"] = {"name": ctr.next("r"), "vk": "integer", "proto": None}
            refs(sib, 2)
            host["kids"].append(sib)
        refs(host, rng.choice([1, 2, 3]))
    units.append(host)
    return {"units": units}


def gen_block_project(rng):
    """BLOCK constructs next to same-named entities: m0 declares types and procedure-like entities;
    a host (module / program / external procedure) declares same-named ones itself or
    use-associates m0's; a procedure P of the host (or the host itself) has BLOCK constructs that
    declare types / abstract interfaces / interfaces of those names or use-associate them; the
    names (and undeclared ones) are referenced outside the BLOCKs - by P's arguments, result,
    variables and local types, by a procedure internal to P, by a sibling of P and by the host."""
    ctr = Ctr()
    tys = rng.sample(TY, rng.choice([1, 2, 3]))
    prs = rng.sample(PR, rng.choice([1, 2]))
    m0 = empty_scope("module", spell(rng, "m0"))
    for n in tys:
        m0["types"].append(_plain_type(rng, n))
    for n in prs:
        r = rng.random()
        if r < 0.4:
            m0["kids"].append(empty_scope("subroutine", spell(rng, n)))
        elif r < 0.8:
            m0["absints"].append(spell(rng, n))
        else:
            m0["ifaces"].append(spell(rng, n))
    names = tys + prs
    reexp = {}
    host_kind = rng.choice(["module", "module", "module", "program", "subroutine"])
    hname = {"module": "m1", "program": "prog", "subroutine": rng.choice(PR)}[host_kind]
    host = empty_scope(host_kind, spell(rng, hname))
    r = rng.random()
    if r < 0.35:
        host["uses"].append({"mod": spell(rng, "m0"), "only": None})
        host_has = set(names)
    elif r < 0.5:
        pick = rng.sample(names, rng.choice([1, min(2, len(names))]))
        host["uses"].append({"mod": spell(rng, "m0"), "only": [[spell(rng, n), spell(rng, n)] for n in pick]})
        host_has = set(pick)
    else:
        host_has = set()
    for n in names:
        # the host's own entity of the name
        if n not in host_has and n != hname and rng.random() < 0.5:
            if n in TY:
                host["types"].append(_plain_type(rng, n))
            else:
                host["absints"].append(spell(rng, n))
            host_has.add(n)

    def refs(sc, k, prefix="v", where="vars"):
        pool = list(dict.fromkeys(names + [rng.choice(TY_REF), rng.choice(PR_REF)]))
        for n in rng.sample(pool, min(len(pool), k)):
            if n in TY_REF:
                sc[where].append({"name": ctr.next(prefix), "vk": rng.choice(["type", "class"]), "proto": spell(rng, n)})
            else:
                sc[where].append({"name": ctr.next(prefix), "vk": "procedure", "proto": spell(rng, n)})

    def blocks_for(sc, own):
        for _ in range(rng.choice([1, 1, 2])):
            # the block's names are (mostly) names that also exist outside it
            tn = [n for n in rng.sample(TY, rng.choice([1, 1, 2])) if n in tys or rng.random() < 0.3]
            pn = [n for n in rng.sample(PR, rng.choice([0, 1, 1])) if n not in own and (n in prs or rng.random() < 0.3)]
            declared_t = {t["name"].lower() for t in sc["types"]}
            b = gen_block(rng, ctr, 1, reexp, declared_t, own, 0, 0.35, tn, pn)
            sc.setdefault("blocks", []).append(b)

    def local_type(sc):
        free = [n for n in TY if n not in {t["name"].lower() for t in sc["types"]}]
        if not free:
            return
        t = _plain_type(rng, rng.choice(free))
        tpool = [n for n in TY_REF if n != t["name"].lower()]
        if rng.random() < 0.5:
            t["extends"] = spell(rng, rng.choice(tpool))
        for _ in range(rng.choice([1, 2])):
            if rng.random() < 0.6:
                t["comps"].append({"name": ctr.next("c"), "vk": "type", "proto": spell(rng, rng.choice(tpool))})
            else:
                t["comps"].append({"name": ctr.next("c"), "vk": "procedure", "proto": spell(rng, rng.choice(PR_REF))})
        if rng.random() < 0.3:
            t["deferred"].append({"name": ctr.next("b"), "proto": spell(rng, rng.choice(PR_REF))})
        sc["types"].append(t)

    def proc_with_blocks(pname):
        P = empty_scope(rng.choice(["subroutine", "function"]), spell(rng, pname))
        if P["kind"] == "function":
            P["ret"] = gen_var(rng, ctr, "r") if rng.random() < 0.7 else {"name": ctr.next("r"), "vk": "integer", "proto": None}
        refs(P, rng.choice([1, 2]), "x", "args")
        refs(P, rng.choice([1, 2, 3]))
        if rng.random() < 0.35:
            local_type(P)
        return P

    if host_kind == "module":
        free = [n for n in PR if n not in [a.lower() for a in host["absints"]]] or list(PR)
        P = proc_with_blocks(free[0])
        own = {free[0]}
        inner_names = [n for n in PR if n != free[0]]
        if rng.random() < 0.6:
            Q = empty_scope("subroutine", spell(rng, rng.choice(inner_names)))
            refs(Q, rng.choice([1, 2, 3]))
            P["kids"].append(Q)
            own.add(Q["name"].lower())
        blocks_for(P, own)
        host["kids"].append(P)
        if len(free) > 1 and rng.random() < 0.5:
            R = empty_scope(rng.choice(["subroutine", "function"]), spell(rng, free[1]))
            if R["kind"] == "function":
                R["ret"] = {"name": ctr.next("r"), "vk": "integer", "proto": None}
            refs(R, 2)
            host["kids"].append(R)
        refs(host, rng.choice([0, 1, 2]))
    else:
        # the program / external procedure has the BLOCKs itself, or a procedure internal to it has
        own = {hname} if host_kind == "subroutine" else set()
        free = [n for n in PR if n != hname and n not in [a.lower() for a in host["absints"]]] or [n for n in PR if n != hname]
        Q = None
        if rng.random() < 0.7:
            Q = empty_scope("subroutine", spell(rng, free[0]))
            refs(Q, rng.choice([1, 2, 3]))
            host["kids"].append(Q)
            own.add(free[0])
        refs(host, rng.choice([1, 2, 3]))
        if rng.random() < 0.3:
            local_type(host)
        if Q is not None and rng.random() < 0.35:
            blocks_for(Q, {free[0]})
        else:
            blocks_for(host, own)
    return {"units": [m0, host]}


def _proc_refs(rng, ctr, sc, k, names, where="vars", prefix="v"):
    pool = list(dict.fromkeys(list(names) + [rng.choice(PR_REF)]))
    for n in rng.sample(pool, min(len(pool), k)):
        sc[where].append({"name": ctr.next(prefix), "vk": "procedure", "proto": spell(rng, n)})


def gen_bound_project(rng):
    """Type-bound procedures next to same-named procedures: module m0 has procedures (and interface
    bodies) named from PR and a chain of derived types ta <- tb <- tc whose bindings - specific
    ones with and without `=> target`, deferred ones, generic ones - are named from PR as well;
    extensions override bindings that a generic binding of an ancestor names, and name inherited
    bindings in their own generic bindings.  The extensions may live in a second module (or in a
    procedure of it) that has procedures of the same names itself."""
    ctr = Ctr()
    m0 = empty_scope("module", spell(rng, "m0"))
    procs = rng.sample(PR, rng.choice([2, 3, 3]))
    for n in procs:
        r = rng.random()
        if r < 0.7:
            m0["kids"].append(empty_scope("subroutine", spell(rng, n)))
        elif r < 0.85:
            m0["ifaces"].append(spell(rng, n))
        else:
            m0["absints"].append(spell(rng, n))
    chain = rng.sample(TY, rng.choice([1, 2, 2, 3, 3]))
    units = [m0]
    homes = [m0] * len(chain)
    if len(chain) >= 2 and rng.random() < 0.4:
        m1 = empty_scope("module", spell(rng, "m1"))
        m1["uses"].append({"mod": spell(rng, "m0"), "only": None})
        units.append(m1)
        home = m1
        if rng.random() < 0.4:
            home = empty_scope("subroutine", spell(rng, rng.choice(PR)))
            m1["kids"].append(home)
            if rng.random() < 0.5:
                # an internal procedure of the same name as a procedure of m0
                taken = {home["name"].lower()}
                free = [n for n in procs if n not in taken]
                if free:
                    home["kids"].append(empty_scope("subroutine", spell(rng, free[0])))
        cut = rng.randrange(1, len(chain))
        homes = [m0] * cut + [home] * (len(chain) - cut)
    inherited = []  # binding names of the ancestors
    for k, tn in enumerate(chain):
        t = _plain_type(rng, tn)
        if k > 0:
            t["extends"] = spell(rng, chain[k - 1])
        taken = set()

        def bname(p):
            free = [n for n in PR if n not in taken]
            if free and rng.random() < p:
                n = rng.choice(free)
                taken.add(n)
                return spell(rng, n)
            return ctr.next("b")

        # overriding bindings first (same name as an inherited binding, another target)
        for n in inherited:
            if rng.random() < 0.45 and n.lower() not in taken:
                taken.add(n.lower())
                if n.lower() in PR and rng.random() < 0.3:
                    t["binds"].append({"name": respell(rng, n), "target": None})
                else:
                    t["binds"].append({"name": respell(rng, n), "target": spell(rng, rng.choice(PR_REF))})
        for _ in range(rng.choice([0, 1, 1, 2])):
            if rng.random() < 0.3:
                free = [n for n in PR if n not in taken]
                if free:
                    n = rng.choice(free)
                    taken.add(n)
                    t["binds"].append({"name": spell(rng, n), "target": None})
                    continue
            t["binds"].append({"name": bname(0.7), "target": spell(rng, rng.choice(PR_REF))})
        if rng.random() < (0.5 if k == 0 else 0.2):
            t["deferred"].append({"name": bname(0.8), "proto": spell(rng, rng.choice(PR_REF))})
        # PRIVATE bindings: only new binding names (a PRIVATE binding must not override a PUBLIC one)
        for b in t["binds"]:
            if b["name"].lower() not in inherited and homes[k]["kind"] == "module" and rng.random() < 0.4:
                b["private"] = True
        if len(t["binds"]) >= 2 and rng.random() < 0.3 and not any(b.get("private") for b in t["binds"]):
            t["merge"] = True
        own = [b["name"] for b in t["binds"]] + [b["name"] for b in t["deferred"]]
        pool = own + [n for n in inherited if n.lower() not in {o.lower() for o in own}]
        if pool and rng.random() < 0.7:
            for _ in range(rng.choice([1, 1, 2])):
                specs = [respell(rng, x) for x in rng.sample(pool, min(len(pool), rng.choice([1, 2, 2])))]
                if rng.random() < 0.08:
                    specs.append(spell(rng, rng.choice(PR_REF)))
                t.setdefault("gbinds", []).append({"name": ctr.next("g"), "specs": specs})
        if rng.random() < 0.3:
            t["comps"].append({"name": ctr.next("c"), "vk": "procedure", "proto": spell(rng, rng.choice(PR_REF))})
        homes[k]["types"].append(t)
        inherited = list(dict.fromkeys([x.lower() for x in own] + inherited))
    for u in units:
        _proc_refs(rng, ctr, u, rng.choice([0, 1, 2]), procs)
    if rng.random() < 0.3:
        prog = empty_scope("program", "prog")
        prog["uses"].append({"mod": spell(rng, units[-1]["name"]), "only": None})
        t = _plain_type(rng, rng.choice([n for n in TY if n not in chain] or TY))
        if t["name"].lower() not in chain:
            t["extends"] = spell(rng, chain[-1])
            pool = list(inherited)
            if pool:
                t.setdefault("gbinds", []).append({"name": ctr.next("g"), "specs": [respell(rng, rng.choice(pool))]})
                if rng.random() < 0.5:
                    t["binds"].append({"name": respell(rng, rng.choice(pool)), "target": spell(rng, rng.choice(PR_REF))})
            prog["types"].append(t)
        for n in rng.sample(PR, rng.choice([0, 1])):
            prog["kids"].append(empty_scope("subroutine", spell(rng, n)))
        units.append(prog)
    return {"units": units}


def gen_dummy_project(rng):
    """Dummy procedures declared by interface bodies next to same-named procedures: m0 declares
    procedure-like entities; a host (module / program / external procedure) declares same-named
    ones itself or use-associates m0's; a procedure P (of the host, or the host itself) has dummy
    procedures of those names; the names are referenced by `procedure(name)` declarations of P's
    variables, arguments and local types, of a procedure internal to P (which may have a dummy
    procedure of the same name again), of a sibling of P and of the host."""
    ctr = Ctr()
    prs = rng.sample(PR, rng.choice([1, 2, 3]))
    m0 = empty_scope("module", spell(rng, "m0"))
    for n in prs:
        r = rng.random()
        if r < 0.5:
            m0["kids"].append(empty_scope("subroutine", spell(rng, n)))
        elif r < 0.75:
            m0["absints"].append(spell(rng, n))
        elif r < 0.9:
            m0["ifaces"].append(spell(rng, n))
        else:
            m0["generics"].append({"name": ctr.next("g"), "modprocs": [], "bodies": [spell(rng, n)]})
    host_kind = rng.choice(["module", "module", "module", "program", "subroutine"])
    hname = {"module": "m1", "program": "prog", "subroutine": rng.choice(PR)}[host_kind]
    host = empty_scope(host_kind, spell(rng, hname))
    host_has = set()
    if rng.random() < 0.4:
        host["uses"].append({"mod": spell(rng, "m0"), "only": None})
        host_has = set(prs)

    def dummies_for(sc, avoid, p_same):
        free = [n for n in PR if n not in avoid]
        rng.shuffle(free)
        out = []
        for n in free:
            if rng.random() < (p_same if n in host_has or n in prs else 0.25):
                out.append({"name": spell(rng, n), "fn": rng.random() < 0.4})
        if not out and free:
            out.append({"name": spell(rng, free[0]), "fn": rng.random() < 0.4})
        sc["dummies"] = out
        if len(out) >= 2 and rng.random() < 0.5:
            sc["dblock"] = True
        return {d["name"].lower() for d in out}

    def local_type(sc):
        t = _plain_type(rng, rng.choice(TY))
        for _ in range(rng.choice([1, 2])):
            t["comps"].append({"name": ctr.next("c"), "vk": "procedure", "proto": spell(rng, rng.choice(PR_REF))})
        if rng.random() < 0.4:
            t["deferred"].append({"name": ctr.next("b"), "proto": spell(rng, rng.choice(PR_REF))})
        sc["types"].append(t)

    if host_kind == "subroutine" and rng.random() < 0.6:
        # the external procedure has the dummy procedures itself
        P = host
        avoid = {hname}
    else:
        pn = rng.choice([n for n in PR if n != hname])
        P = empty_scope(rng.choice(["subroutine", "function"]), spell(rng, pn))
        if P["kind"] == "function":
            P["ret"] = {"name": ctr.next("r"), "vk": "integer", "proto": None}
        host["kids"].append(P)
        avoid = {pn}
    # the host's own entities of the names (not those of its nested procedures)
    for n in PR:
        if n in host_has or n == hname or n in {k["name"].lower() for k in host["kids"]}:
            continue
        if rng.random() < 0.45:
            r = rng.random()
            if r < 0.5 and host_kind in ("module", "program") or (r < 0.5 and P is host):
                host["kids"].append(empty_scope("subroutine", spell(rng, n)))
            elif r < 0.7:
                host["absints"].append(spell(rng, n))
            elif r < 0.9:
                host["ifaces"].append(spell(rng, n))
            else:
                host["generics"].append({"name": ctr.next("g"), "modprocs": [], "bodies": [spell(rng, n)]})
            host_has.add(n)
    if P is host:
        avoid |= {k["name"].lower() for k in host["kids"]} | {a.lower() for a in host["absints"] + host["ifaces"]} \
            | {b.lower() for g in host["generics"] for b in g["bodies"]}
        host_has = set(prs) if host["uses"] else set()
    dn = dummies_for(P, avoid, 0.7)
    _proc_refs(rng, ctr, P, rng.choice([1, 2, 3]), PR)
    _proc_refs(rng, ctr, P, rng.choice([0, 1]), PR, "args", "x")
    if rng.random() < 0.4:
        local_type(P)
    can_nest = (P is host) or host_kind == "module"
    if can_nest and rng.random() < 0.75:
        taken = avoid | dn | {k["name"].lower() for k in P["kids"]}
        free = [n for n in PR if n not in taken]
        qn = free[0] if free else None
        if qn:
            Q = empty_scope(rng.choice(["subroutine", "function"]), spell(rng, qn))
            if Q["kind"] == "function":
                Q["ret"] = {"name": ctr.next("r"), "vk": "integer", "proto": None}
            _proc_refs(rng, ctr, Q, rng.choice([1, 2, 3]), PR)
            _proc_refs(rng, ctr, Q, rng.choice([0, 1]), PR, "args", "x")
            if rng.random() < 0.35:
                # a dummy procedure of the internal procedure, often of the same name again
                host_has_saved = host_has
                host_has = host_has | dn
                dummies_for(Q, {qn}, 0.5)
                host_has = host_has_saved
            if rng.random() < 0.25:
                local_type(Q)
            P["kids"].append(Q)
    if P is not host:
        free = [n for n in PR if n != hname and n not in {k["name"].lower() for k in host["kids"]}
                and n not in {a.lower() for a in host["absints"] + host["ifaces"]}
                and n not in {b.lower() for g in host["generics"] for b in g["bodies"]} and n not in host_has]
        if free and rng.random() < 0.6:
            R = empty_scope("subroutine", spell(rng, free[0]))
            _proc_refs(rng, ctr, R, rng.choice([1, 2]), PR)
            host["kids"].append(R)
        _proc_refs(rng, ctr, host, rng.choice([0, 1, 2]), PR)
    return {"units": [m0, host]}


SUB1 = ["s1", "s2"]  # names of the submodules of a module: the same under every module
SUB2 = ["s3", "s4"]  # names of the submodules of a submodule


def gen_sub_project(rng):
    """Submodules in name-reuse mode: one or two modules declare types, procedures, abstract
    interfaces and module procedure interfaces; each has submodules (named s1 / s2 under every
    module) and these have submodules of their own (s3 / s4).  A submodule declares entities of the
    names its ancestors already have (they must shadow the ancestors'), implements module
    procedure interfaces of its ancestors (`module subroutine` / `module procedure`), and refers
    to the names from its specification part, its procedures and its module procedures."""
    ctr = Ctr()
    mods = []
    nm = rng.choice([1, 2, 2])
    for i in range(nm):
        m = empty_scope("module", spell(rng, f"m{i}"))
        for n in rng.sample(TY, rng.choice([0, 1, 1, 2])):
            m["types"].append(_plain_type(rng, n))
        for n in rng.sample(PR, rng.choice([1, 2, 3])):
            r = rng.random()
            if r < 0.5:
                m.setdefault("mpifaces", []).append(spell(rng, n))
            elif r < 0.75:
                m["kids"].append(empty_scope("subroutine", spell(rng, n)))
            elif r < 0.9:
                m["absints"].append(spell(rng, n))
            else:
                m["ifaces"].append(spell(rng, n))
        if i > 0 and rng.random() < 0.25:
            m["uses"].append({"mod": spell(rng, "m0"), "only": [[spell(rng, n), spell(rng, n)] for n in rng.sample(TY, 1)]})
        _proc_refs(rng, ctr, m, rng.choice([0, 1]), PR)
        mods.append(m)

    def refs(sc, k):
        pool = list(dict.fromkeys(rng.sample(TY_REF, 2) + rng.sample(PR_REF, 2)))
        for n in rng.sample(pool, min(len(pool), k)):
            if n in TY_REF:
                sc["vars"].append({"name": ctr.next("v"), "vk": rng.choice(["type", "class"]), "proto": spell(rng, n)})
            else:
                sc["vars"].append({"name": ctr.next("v"), "vk": "procedure", "proto": spell(rng, n)})

    implemented = set()  # (module, name) of the module procedure interfaces that have an implementation

    def make_sub(m, parent, name):
        mod = m["name"].lower()
        sub = empty_scope("submodule", spell(rng, name))
        sub["ancestor"] = spell(rng, mod)
        sub["parent"] = spell(rng, parent["name"].lower()) if parent is not None else None
        hosts = [m] + ([parent] if parent is not None else [])
        avail = [x.lower() for h in hosts for x in h.get("mpifaces", [])]
        host_p = {x.lower() for h in hosts for x in h.get("mpifaces", []) + h["absints"] + h["ifaces"]} | \
            {k["name"].lower() for h in hosts for k in h["kids"]}
        host_t = {t["name"].lower() for h in hosts for t in h["types"]}
        taken = set()
        # implementations of module procedure interfaces of the ancestors
        for n in avail:
            if (mod, n) not in implemented and n not in taken and rng.random() < 0.6:
                implemented.add((mod, n))
                taken.add(n)
                k = empty_scope("subroutine", spell(rng, n))
                k["mp"] = rng.choice(["subroutine", "subroutine", "procedure"])
                refs(k, rng.choice([0, 1, 2]))
                if rng.random() < 0.2:
                    k["types"].append(_plain_type(rng, rng.choice(TY)))
                sub["kids"].append(k)
        # local entities, mostly of names the ancestors have as well
        for n in TY:
            if rng.random() < (0.5 if n in host_t else 0.15):
                t = _plain_type(rng, n)
                if rng.random() < 0.3:
                    others = [x for x in TY_REF if x != n and x not in {tt["name"].lower() for tt in sub["types"]} | {n}]
                    if others:
                        t["extends"] = spell(rng, rng.choice(others))
                if rng.random() < 0.4:
                    t["comps"].append(gen_var(rng, ctr, "c"))
                if rng.random() < 0.3:
                    t["binds"].append({"name": ctr.next("b"), "target": spell(rng, rng.choice(PR_REF))})
                sub["types"].append(t)
        for n in PR:
            if n in taken:
                continue
            if rng.random() < (0.4 if n in host_p else 0.12):
                taken.add(n)
                r = rng.random()
                if r < 0.5:
                    k = empty_scope(rng.choice(["subroutine", "function"]), spell(rng, n))
                    if k["kind"] == "function":
                        k["ret"] = {"name": ctr.next("r"), "vk": "integer", "proto": None}
                    refs(k, rng.choice([0, 1, 2]))
                    sub["kids"].append(k)
                elif r < 0.7:
                    sub["absints"].append(spell(rng, n))
                elif r < 0.85:
                    sub["ifaces"].append(spell(rng, n))
                else:
                    sub.setdefault("mpifaces", []).append(spell(rng, n))
        if rng.random() < 0.2 and len(mods) > 1:
            other = rng.choice([x for x in mods if x is not m])
            r = rng.random()
            if r < 0.5:
                sub["uses"].append({"mod": spell(rng, other["name"].lower()), "only": None})
            else:
                pick = rng.sample(TY + PR, 2)
                sub["uses"].append({"mod": spell(rng, other["name"].lower()), "only": [[spell(rng, n), spell(rng, n)] for n in pick]})
        refs(sub, rng.choice([1, 2, 3, 4]))
        return sub

    subs1, subs2 = [], []
    for m in mods:
        for sn in rng.sample(SUB1, rng.choice([1, 1, 2])):
            subs1.append((m, make_sub(m, None, sn)))
    used2 = set()
    for m, s1 in subs1:
        if rng.random() < 0.6:
            free = [x for x in SUB2 if (m["name"].lower(), x) not in used2]
            if free:
                sn = rng.choice(free)
                used2.add((m["name"].lower(), sn))
                subs2.append((m, make_sub(m, s1, sn)))
    units = mods + [s for _, s in subs1] + [s for _, s in subs2]
    if rng.random() < 0.3:
        prog = empty_scope("program", "prog")
        prog["uses"].append({"mod": spell(rng, mods[-1]["name"].lower()), "only": None})
        refs(prog, 2)
        units.append(prog)
    return {"units": units}


# ------------------------------------------------------------------ rendering

def render_var(v, extra=""):
    if v["vk"] in ("type", "class"):
        return f"{v['vk']}({v['proto']}), pointer :: {v['name']}"
    if v["vk"] == "procedure":
        return f"procedure({v['proto']}), pointer{extra} :: {v['name']}"
    return f"integer :: {v['name']}"


def render_arg(v):
    if v["vk"] in ("type", "class"):
        return f"{v['vk']}({v['proto']}) :: {v['name']}"
    if v["vk"] == "procedure":
        return f"procedure({v['proto']}) :: {v['name']}"
    return f"integer :: {v['name']}"


def render_use(u, q, out):
    if u["only"] is None:
        out.append(f"{q}use {u['mod']}" + "".join(f", {l} => {r}" for l, r in u.get("ren", [])))
    else:
        items = [l if l.lower() == r.lower() and l == r else f"{l} => {r}" for l, r in u["only"]]
        out.append(f"{q}use {u['mod']}, only: {', '.join(items)}")


def _bind_item(b):
    return b["name"] if b["target"] is None else f"{b['name']} => {b['target']}"


def render_type(t, q, out):
    attrs = ""
    if t["deferred"]:
        attrs += ", abstract"
    if t["extends"]:
        attrs += f", extends({t['extends']})"
    out.append(f"{q}type{attrs} :: {t['name']}")
    for c in t["comps"]:
        out.append(f"{q}  {render_var(c, ', nopass')}")
    if t["binds"] or t["deferred"] or t["finals"] or t.get("gbinds"):
        out.append(f"{q}contains")
        if t.get("merge") and len(t["binds"]) >= 2:
            out.append(f"{q}  procedure, nopass :: " + ", ".join(_bind_item(b) for b in t["binds"]))
        else:
            for b in t["binds"]:
                out.append(f"{q}  procedure, nopass{', private' if b.get('private') else ''} :: {_bind_item(b)}")
        for b in t["deferred"]:
            out.append(f"{q}  procedure({b['proto']}), deferred, nopass :: {b['name']}")
        for g in t.get("gbinds", []):
            out.append(f"{q}  generic :: {g['name']} => {', '.join(g['specs'])}")
        for f in t["finals"]:
            out.append(f"{q}  final :: {f}")
    out.append(f"{q}end type")


def _render_body(d, q, out):
    if d["fn"]:
        out += [f"{q}  function {d['name']}() result(r0)", f"{q}    integer :: r0", f"{q}  end function"]
    else:
        out += [f"{q}  subroutine {d['name']}()", f"{q}  end subroutine"]


def render_ifaces(s, q, out):
    for a in s["absints"]:
        out += [f"{q}abstract interface", f"{q}  subroutine {a}()", f"{q}  end subroutine", f"{q}end interface"]
    for a in s["ifaces"]:
        out += [f"{q}interface", f"{q}  subroutine {a}()", f"{q}  end subroutine", f"{q}end interface"]
    for a in s.get("mpifaces", []):
        out += [f"{q}interface", f"{q}  module subroutine {a}()", f"{q}  end subroutine", f"{q}end interface"]
    ds = s.get("dummies", [])
    if ds and s.get("dblock"):
        out.append(f"{q}interface")
        for d in ds:
            _render_body(d, q, out)
        out.append(f"{q}end interface")
    else:
        for d in ds:
            out.append(f"{q}interface")
            _render_body(d, q, out)
            out.append(f"{q}end interface")


def render_block(b, out, q):
    out.append(f"{q}{b['label']}: block" if b.get("label") else f"{q}block")
    r = q + "  "
    for u in b["uses"]:
        render_use(u, r, out)
    for t in b["types"]:
        render_type(t, r, out)
    render_ifaces(b, r, out)
    for v in b["vars"]:
        out.append(f"{r}{render_var(v)}")
    for c in b.get("blocks", []):
        render_block(c, out, r)
    out.append(f"{q}{b.get('end', 'end block')}" + (f" {b['label']}" if b.get("label") else ""))


def render_scope(s, out, ind=0):
    p = "  " * ind
    k = s["kind"]
    arglist = ", ".join([a["name"] for a in s["args"]] + [d["name"] for d in s.get("dummies", [])])
    mp = s.get("mp")
    if mp == "procedure":
        out.append(f"{p}module procedure {s['name']}")
    elif k == "function":
        out.append(f"{p}function {s['name']}({arglist}) result({s['ret']['name']})")
    elif k == "subroutine":
        out.append(f"{p}{'module ' if mp else ''}subroutine {s['name']}({arglist})")
    elif k == "submodule":
        out.append(f"{p}submodule ({s['ancestor']}{':' + s['parent'] if s.get('parent') else ''}) {s['name']}")
    else:
        out.append(f"{p}{k} {s['name']}")
    q = p + "  "
    for u in s["uses"]:
        render_use(u, q, out)
    for t in s["types"]:
        render_type(t, q, out)
    render_ifaces(s, q, out)
    for g in s["generics"]:
        out.append(f"{q}interface {g['name']}")
        kw = "module procedure" if k in ("module", "submodule") else "procedure"
        for b in g.get("bodies", []):
            out += [f"{q}  subroutine {b}()", f"{q}  end subroutine"]
        for mp in g["modprocs"]:
            out.append(f"{q}  {kw} {mp}")
        out.append(f"{q}end interface")
    for v in s["vars"]:
        out.append(f"{q}{render_var(v)}")
    for a in s["args"]:
        out.append(f"{q}{render_arg(a)}")
    if s["ret"]:
        out.append(f"{q}{render_arg(s['ret'])}")
    for b in s.get("blocks", []):
        render_block(b, out, q)
    if s["kids"]:
        out.append(f"{p}contains")
        for c in s["kids"]:
            render_scope(c, out, ind + 1)
    out.append(f"{p}end {'procedure' if mp == 'procedure' else k}")


def render_project(P, rng):
    """{filename: text}; units are distributed over 1..3 files."""
    nfiles = rng.choice([1, 2, 3])
    files = {f"f{i}.f90": [] for i in range(nfiles)}
    for u in P["units"]:
        out = files[f"f{rng.randrange(nfiles)}.f90"]
        render_scope(u, out)
    return {k: "\n".join(v) + "\n" for k, v in files.items() if v}


# ------------------------------------------------------------------ flattening

class Flat:
    """Entities, slots and model tokens of an abstract project.

    ents[e]  = {"cls": type|proc|absint|iface|generic, "name": lower, "path": [...]}
    slots[i] = {"kind": ty|pr|pa, "phase": e|l, "name", "scope": scope index, "what": description,
                "get": accessor on the FORD side}
    scopes[k] = {"path", "parent": index|None, "unit": index of the top-level unit, "node": abstract scope,
                 "local": {ns: {lname: ent}}, "slots": [ids]}
    A BLOCK construct is a scope of its own (`"block": True`, parent = the enclosing procedure or
    BLOCK).  FORD has no object for it and records no reference inside it, so its slots are
    `optional` (evaluated only if the implementation under test does record the reference) and
    are not part of the model's encoding; the model gets the block's USE statements and
    declarations between "[" and "]".
    """

    def __init__(self, P):
        self.ents = []
        self.slots = []
        self.scopes = []
        self.tokens = []
        # type-bound part of every derived type outside BLOCKs, in source order:
        # {"ent", "scope", "ti", "ext": slot id of the parent-type reference | None,
        #  "own": {lower binding name: binding entity}, "gslots": [slot id of a generic's specific]}
        self.types = []
        # submodules: {"scope", "ent", "anc_slot", "par_slot", "pairs": [slot ids], "anc": lower name,
        #               "parent": lower name | None}
        self.subs = []
        self.same = {}  # implementation of a separate module procedure -> its interface (one procedure)
        for ui, u in enumerate(P["units"]):
            e = self.new_ent("unit" if u["kind"] in ("module", "program", "submodule") else "extproc", u["name"], [])
            if u["kind"] == "submodule":
                self.sub_unit(u, e)
                continue
            self.tokens.append("M" if u["kind"] == "module" else "N")
            self.scope(u, e, None, [], None)

    def new_ent(self, cls, name, path):
        self.ents.append({"cls": cls, "name": name.lower(), "path": list(path)})
        return len(self.ents) - 1

    def canon(self, e):
        """an entity up to `implementation = interface` of a separate module procedure"""
        return self.same.get(e, e) if isinstance(e, int) else e

    def sub_unit(self, u, e):
        """a submodule: S <ancestor> <parent | -> <slot of the ancestor reference> <slot of the parent
        reference> <n> (<slot> <name>)* followed by the scope; the n pairs are the separate module
        procedures it implements (slot = the interface the implementation is paired with)"""
        sidx = len(self.scopes)
        head = len(self.tokens)
        self.scope(u, e, None, [], None)
        body = self.tokens[head:]
        del self.tokens[head:]
        rec = self.scopes[sidx]
        info = {"scope": sidx, "ent": e, "anc": u["ancestor"].lower(), "parent": u["parent"].lower() if u.get("parent") else None,
                "pairs": []}
        info["anc_slot"] = self.new_slot(sidx, "sm", "e", u["ancestor"], "ancestor module", ("ancestor",))
        info["par_slot"] = self.new_slot(sidx, "sp", "e", u.get("parent") or "-", "parent submodule", ("parentsub",))
        for ki, k in enumerate(u["kids"]):
            if k.get("mp"):
                i = self.new_slot(sidx, "mp", "e", k["name"], f"separate module procedure {k['name'].lower()} interface", ("mpair", ki))
                info["pairs"].append(i)
        self.subs.append(info)
        self.tokens += ["S", u["ancestor"], u.get("parent") or "-", str(info["anc_slot"]), str(info["par_slot"]), str(len(info["pairs"]))]
        for i in info["pairs"]:
            self.tokens += [str(i), self.slots[i]["name"]]
        self.tokens += body

    def sub_tokens(self, order=None):
        """third section of the encoding: I <n> <entities that are interface bodies (candidates for the
        pairing of a separate module procedure)>*  O <m> <submodule entities in the order of FORD's
        project list>*"""
        pairable = [k for k, d in enumerate(self.ents) if d["cls"] in ("iface", "mpiface", "ifbody")]
        order = [x["ent"] for x in self.subs] if order is None else list(order)
        return ["I", str(len(pairable))] + [str(x) for x in pairable] + ["O", str(len(order))] + [str(x) for x in order]

    def new_slot(self, sidx, kind, phase, name, what, get, optional=False):
        self.slots.append({"kind": kind, "phase": phase, "name": name, "scope": sidx, "what": what, "get": get})
        i = len(self.slots) - 1
        self.scopes[sidx]["slots"].append(i)
        if optional:
            self.slots[i]["optional"] = True
        elif kind not in ("gb", "sm", "sp", "mp"):
            # (the specifics of generic bindings are looked up in the bindings of the type, not in
            #  the tables of the scope: they are encoded with the type records, `type_tokens`; the
            #  references of a submodule to its ancestors are encoded in its header, `sub_unit`)
            self.tokens += ["X", str(i), kind, phase, name]
        return i

    def type_tokens(self, order=None):
        """encoding of the type-bound parts for the model, in the order in which the types are
        correlated (`order` = type entities as observed; default: source order):
        T <type ent> <slot id of the parent reference | -> <n> (<binding name> <binding ent>)*
          <m> (<slot id> <specific name>)* <k> (<ent of a PRIVATE own binding>)*"""
        recs = list(self.types)
        if order is not None:
            pos = {e: k for k, e in enumerate(order)}
            recs.sort(key=lambda r: pos.get(r["ent"], len(pos)))
        out = []
        for r in recs:
            out += ["T", str(r["ent"]), "-" if r["ext"] is None else str(r["ext"]), str(len(r["own"]))]
            for n, e in r["own"].items():
                out += [n, str(e)]
            out.append(str(len(r["gslots"])))
            for i in r["gslots"]:
                out += [str(i), self.slots[i]["name"]]
            out.append(str(len(r["priv"])))
            out += [str(e) for e in sorted(r["priv"])]
        return out

    def var_slot(self, sidx, v, phase, what, get, optional=False):
        if v["vk"] in ("type", "class"):
            self.new_slot(sidx, "ty", phase, v["proto"], what, get, optional)
        elif v["vk"] == "procedure":
            self.new_slot(sidx, "pa", phase, v["proto"], what, get, optional)

    def use_tokens(self, u):
        items = u.get("ren", []) if u["only"] is None else u["only"]
        self.tokens += ["U", u["mod"], "a" if u["only"] is None else "o", str(len(items))]
        for l, r in items:
            self.tokens += [l, r]

    def block(self, b, parent, ppath, unit, owner, counter):
        """a BLOCK construct nested in scope `parent`; `owner` = the code unit whose execution
        part contains it (the unit FORD would file a leaked statement in)"""
        counter[0] += 1
        path = ppath + [("block", f"#{counter[0]}")]
        sidx = len(self.scopes)
        rec = {"path": path, "parent": parent, "unit": unit, "node": b, "ent": None, "block": True, "owner": owner,
               "local": {"t": {}, "p": {}, "a": {}}, "slots": [], "kids": [], "blocks": []}
        self.scopes.append(rec)
        self.scopes[parent]["blocks"].append(sidx)
        self.tokens.append("[")
        for u in b["uses"]:
            self.use_tokens(u)
        spath = ["/".join(f"{k}:{n}" for k, n in path)]
        for t in b["types"]:
            e = self.new_ent("type", t["name"], spath)
            rec["local"]["t"][t["name"].lower()] = e
            self.tokens += ["D", "t", t["name"], str(e)]
        for a in b["absints"]:
            e = self.new_ent("absint", a, spath)
            rec["local"]["a"][a.lower()] = e
            self.tokens += ["D", "a", a, str(e)]
        for a in b["ifaces"]:
            e = self.new_ent("iface", a, spath)
            rec["local"]["p"][a.lower()] = e
            self.tokens += ["D", "p", a, str(e)]
        for ti, t in enumerate(b["types"]):
            tn = t["name"].lower()
            if t["extends"]:
                self.new_slot(sidx, "ty", "e", t["extends"], f"block type {tn} extends", ("extends", ti), True)
            for ci, c in enumerate(t["comps"]):
                self.var_slot(sidx, c, "e", f"block type {tn} component {c['name']}", ("comp", ti, ci), True)
        for v in b["vars"]:
            self.var_slot(sidx, v, "l", f"block variable {v['name']}", ("var", v["name"]), True)
        for c in b.get("blocks", []):
            self.block(c, sidx, path, unit, owner, counter)
        self.tokens.append("]")

    def scope(self, s, ent, parent, ppath, unit):
        path = ppath + [(s["kind"], s["name"].lower())]
        sidx = len(self.scopes)
        if unit is None:
            unit = sidx
        rec = {"path": path, "parent": parent, "unit": unit, "node": s, "ent": ent,
               "local": {"t": {}, "p": {}, "a": {}}, "slots": [], "kids": [], "blocks": []}
        self.scopes.append(rec)
        if parent is not None:
            self.scopes[parent]["kids"].append(sidx)
        self.tokens += ["(", s["name"], str(ent), "1" if s["kind"] == "function" else "0"]
        for u in s["uses"]:
            self.use_tokens(u)
        spath = ["/".join(f"{k}:{n}" for k, n in path)]
        for t in s["types"]:
            e = self.new_ent("type", t["name"], spath)
            rec["local"]["t"][t["name"].lower()] = e
            self.tokens += ["D", "t", t["name"], str(e)]
        for a in s["absints"]:
            e = self.new_ent("absint", a, spath)
            rec["local"]["a"][a.lower()] = e
            self.tokens += ["D", "a", a, str(e)]
        kid_ents = []
        for c in s["kids"]:
            e = self.new_ent("proc", c["name"], spath)
            rec["local"]["p"][c["name"].lower()] = e
            kid_ents.append(e)
        for a in s["ifaces"]:
            e = self.new_ent("iface", a, spath)
            rec["local"]["p"][a.lower()] = e
            self.tokens += ["D", "p", a, str(e)]
        for a in s.get("mpifaces", []):
            e = self.new_ent("mpiface", a, spath)
            rec["local"]["p"][a.lower()] = e
            self.tokens += ["D", "p", a, str(e)]
        for d in s.get("dummies", []):
            # a dummy procedure declared by an interface body is a local entity of the procedure
            e = self.new_ent("dummy", d["name"], spath)
            rec["local"]["p"][d["name"].lower()] = e
            self.tokens += ["D", "p", d["name"], str(e)]
        for g in s["generics"]:
            e = self.new_ent("generic", g["name"], spath)
            rec["local"]["p"][g["name"].lower()] = e
            self.tokens += ["D", "p", g["name"], str(e)]
            for b in g.get("bodies", []):
                # an interface body inside a generic interface declares a procedure of the scope
                e = self.new_ent("ifbody", b, spath)
                rec["local"]["p"][b.lower()] = e
                self.tokens += ["D", "p", b, str(e)]
        # slots -------------------------------------------------------------
        for ti, t in enumerate(s["types"]):
            tn = t["name"].lower()
            trec = {"ent": rec["local"]["t"][tn], "scope": sidx, "ti": ti, "ext": None, "own": {}, "gslots": [], "priv": set()}
            self.types.append(trec)
            if t["extends"]:
                trec["ext"] = self.new_slot(sidx, "ty", "e", t["extends"], f"type {tn} extends", ("extends", ti))
            for ci, c in enumerate(t["comps"]):
                self.var_slot(sidx, c, "e", f"type {tn} component {c['name']}", ("comp", ti, ci))
            for bi, b in enumerate(t["binds"]):
                trec["own"][b["name"].lower()] = self.new_ent("binding", b["name"], spath + [tn])
                if b.get("private"):
                    trec["priv"].add(trec["own"][b["name"].lower()])
                # `procedure :: name` is bound to the procedure of that name
                self.new_slot(sidx, "pr", "e", b["target"] if b["target"] is not None else b["name"],
                              f"type {tn} binding {b['name']}", ("bind", ti, b["name"]))
            for bi, b in enumerate(t["deferred"]):
                trec["own"][b["name"].lower()] = self.new_ent("binding", b["name"], spath + [tn])
                self.new_slot(sidx, "pa", "e", b["proto"], f"type {tn} deferred binding {b['name']} interface", ("defer", ti, b["name"]))
                # the name of a deferred binding is a binding name only: it refers to no procedure
                self.new_slot(sidx, "bn", "e", b["name"], f"type {tn} deferred binding {b['name']} target", ("defbind", ti, b["name"]))
            for gi, g in enumerate(t.get("gbinds", [])):
                for k, sp in enumerate(g["specs"]):
                    i = self.new_slot(sidx, "gb", "e", sp, f"type {tn} generic binding {g['name']} specific {k}",
                                      ("gspec", ti, g["name"], k))
                    self.slots[i]["type"] = len(self.types) - 1
                    trec["gslots"].append(i)
            for fi, f in enumerate(t["finals"]):
                i = self.new_slot(sidx, "pr", "e", f, f"type {tn} final", ("final", ti, fi))
                self.slots[i]["must"] = True
            i = self.new_slot(sidx, "pr", "e", t["name"], f"type {tn} constructor", ("ctor", ti))
            self.slots[i]["ctor"] = True
        for gi, g in enumerate(s["generics"]):
            for mi, mp in enumerate(g["modprocs"]):
                i = self.new_slot(sidx, "pr", "l", mp, f"generic {g['name'].lower()} specific {mi}", ("modproc", gi, mi))
                self.slots[i]["must"] = True
        for vi, v in enumerate(s["vars"]):
            self.var_slot(sidx, v, "l", f"variable {v['name']}", ("var", v["name"]))
        for ai, a in enumerate(s["args"]):
            self.var_slot(sidx, a, "l", f"argument {a['name']}", ("arg", ai))
        if s["ret"]:
            self.var_slot(sidx, s["ret"], "l", "result", ("ret",))
        counter = [0]
        for b in s.get("blocks", []):
            self.block(b, sidx, path, unit, sidx, counter)
        for c, e in zip(s["kids"], kid_ents):
            self.scope(c, e, sidx, path, unit)
        self.tokens.append(")")


# ------------------------------------------------------------------ oracle

CLASH = "CLASH"
SKIP = "SKIP"


def oracle(F: Flat):
    """Expected content of every slot by Fortran scoping, computed on the abstract project
    without reference to FORD's tables: dict slot -> ent | None | SKIP (reference is not
    Fortran: name clash in the deciding scope, or the designated entity cannot be referenced
    in that position)."""
    exports = {}
    frames = {}
    F.use_frames = {}  # what the USE statements alone make accessible in a scope (for `classify`)

    def frame_of(sidx):
        rec = F.scopes[sidx]
        fr = {ns: {n: {e} for n, e in tab.items()} for ns, tab in rec["local"].items()}
        F.use_frames[sidx] = uf = {"t": {}, "p": {}, "a": {}}
        for u in rec["node"]["uses"]:
            ex = exports.get(u["mod"].lower())
            if ex is None:
                continue
            for ns in "tpa":
                if u["only"] is None:
                    # every public entity of the module is accessible: a renamed one by its local
                    # name(s) ONLY, the others by their own name
                    local_names = {}
                    for l, r in u.get("ren", []):
                        local_names.setdefault(r.lower(), []).append(l.lower())
                    for n, es in ex[ns].items():
                        for ln in local_names.get(n, [n]):
                            fr[ns].setdefault(ln, set()).update(es)
                            uf[ns].setdefault(ln, set()).update(es)
                else:
                    for l, r in u["only"]:
                        if r.lower() in ex[ns]:
                            fr[ns].setdefault(l.lower(), set()).update(ex[ns][r.lower()])
                            uf[ns].setdefault(l.lower(), set()).update(ex[ns][r.lower()])
        return fr

    # units in order; modules export their top-level frame
    for sidx, rec in enumerate(F.scopes):
        frames[sidx] = frame_of(sidx)
        if rec["parent"] is None and rec["node"]["kind"] == "module":
            exports[rec["node"]["name"].lower()] = frames[sidx]

    # a submodule is a scope nested in its parent: the submodule `parent` OF ITS ANCESTOR MODULE
    # (`submodule (anc:parent) name`), or the ancestor module itself
    mod_scope = {rec["node"]["name"].lower(): k for k, rec in enumerate(F.scopes)
                 if rec["parent"] is None and rec["node"]["kind"] == "module"}
    sub_scope = {(x["anc"], F.scopes[x["scope"]]["node"]["name"].lower()): x["scope"] for x in F.subs}
    for x in F.subs:
        F.scopes[x["scope"]]["host"] = sub_scope.get((x["anc"], x["parent"])) if x["parent"] else mod_scope.get(x["anc"])

    def chain(sidx):
        while sidx is not None:
            yield sidx
            sidx = F.scopes[sidx].get("host", F.scopes[sidx]["parent"])

    F.chain = chain
    exp = {}
    where = {}
    ambig = {}  # slot -> the candidates of an ambiguous (not Fortran) reference
    for x in F.subs:
        rec = F.scopes[x["scope"]]
        exp[x["anc_slot"]] = F.scopes[mod_scope[x["anc"]]]["ent"] if x["anc"] in mod_scope else None
        ps = sub_scope.get((x["anc"], x["parent"])) if x["parent"] else None
        exp[x["par_slot"]] = F.scopes[ps]["ent"] if ps is not None else None
        for i in x["pairs"]:
            # the separate module procedure implements the module procedure interface of that name
            # it accesses by host association (declared by an ancestor)
            n = F.slots[i]["name"].lower()
            res = None
            host = rec.get("host")
            for k in (chain(host) if host is not None else ()):
                es = frames[k]["p"].get(n, set())
                if es:
                    e = next(iter(es))
                    res = e if len(es) == 1 and F.ents[e]["cls"] == "mpiface" else SKIP
                    break
            exp[i] = res
            if isinstance(res, int):
                F.same[rec["local"]["p"][n]] = res
    for i, sl in enumerate(F.slots):
        n = sl["name"].lower()
        found = None
        at = None
        if sl["kind"] == "bn":
            # a deferred binding has no implementation in its type: its name is a binding name,
            # not a reference to a procedure - whatever procedures of that name are visible
            exp[i] = None
            continue
        if sl["kind"] in ("gb", "sm", "sp", "mp"):
            continue  # gb: second pass (needs the parent types); the others: done above
        if sl.get("ctor"):
            fr = frames[sl["scope"]]
            es = fr["p"].get(n, set()) | fr["a"].get(n, set())
            loc = [e for e in es if F.ents[e]["cls"] == "generic"]
            if len(es) == 1 and loc:
                exp[i] = loc[0]
                where[i] = sl["scope"]
            else:
                exp[i] = SKIP
            continue
        for s in chain(sl["scope"]):
            fr = frames[s]
            es = set(fr["t"].get(n, set())) if sl["kind"] == "ty" else set(fr["p"].get(n, set())) | set(fr["a"].get(n, set()))
            if es:
                found = es
                at = s
                break
        if found is None:
            exp[i] = None
        elif len(found) > 1:
            exp[i] = SKIP
            ambig[i] = set(found)
        else:
            e = next(iter(found))
            cls = F.ents[e]["cls"]
            if sl["kind"] == "pa" and cls == "generic":
                exp[i] = SKIP
            elif sl["kind"] == "pr" and cls in ("absint", "generic", "dummy"):
                # (a dummy procedure cannot be a binding target, finaliser or specific procedure)
                exp[i] = SKIP
            else:
                exp[i] = e
                where[i] = at
    # the specifics of a generic binding are names of bindings of the type: its own binding of
    # that name, else the one it inherits from the nearest ancestor type that has it (the parent
    # type is the entity the `extends` reference designates)
    by_ent = {r["ent"]: r for r in F.types}
    for r in F.types:
        for i in r["gslots"]:
            n = F.slots[i]["name"].lower()
            # no binding of that name along the whole chain: the name designates nothing among the
            # bindings of the type and stays text - procedures of the scope are another class of names
            cur, seen, res, path = r, set(), None, []
            while True:
                if cur is None or cur["ent"] in seen:
                    res = SKIP  # the parent is not a type of the project / circular: unknown
                    break
                seen.add(cur["ent"])
                if n in cur["own"]:
                    res = cur["own"][n]
                    if res in cur["priv"] and cur is not r:
                        # an inherited PRIVATE binding is accessible only in the module that defines the
                        # type it is declared in (F2018 7.5.5); named from elsewhere: not Fortran
                        if F.scopes[cur["scope"]]["unit"] != F.scopes[r["scope"]]["unit"] or \
                                F.scopes[F.scopes[cur["scope"]]["unit"]]["node"]["kind"] not in ("module", "submodule") or \
                                any(F.scopes[x["scope"]]["unit"] != F.scopes[r["scope"]]["unit"] for x in path):
                            res = SKIP
                    break
                path.append(cur)
                if cur["ext"] is None:
                    break
                pe = exp.get(cur["ext"])
                if pe is None:
                    break  # the parent type has no visible declaration: nothing is inherited
                if pe == SKIP:
                    res = SKIP  # ambiguous parent reference (not Fortran)
                    break
                cur = by_ent.get(pe)
            exp[i] = res
    # the parent type Fortran designates for every type (entity id or None)
    F.type_parent = {r["ent"]: (exp.get(r["ext"]) if r["ext"] is not None and exp.get(r["ext"]) not in (None, SKIP) else None)
                     for r in F.types}
    # ... and, for the classification of failing slots, every candidate of an ambiguous parent reference
    F.type_parents = {r["ent"]: ({F.type_parent[r["ent"]]} if F.type_parent[r["ent"]] is not None
                                 else set(ambig.get(r["ext"], ()))) for r in F.types}
    return exp, where, frames


def classify(F: Flat, frames, where, i, observed, block_use=True, shared=True, sub_local=True, sub_parent=True,
             alias=True, host_over_local=True, drop_private=True):
    """the flags say which defect switches the model variant of the tree has on: a class whose switch
    is off is not considered"""
    cls = _classify(F, frames, where, i, observed, block_use, shared, sub_local, alias, host_over_local)
    if cls is None and drop_private and F.slots[i]["kind"] == "gb" and observed is None:
        # (8) the specific names a PRIVATE binding the type inherits: the nearest ancestor (through the parent
        #     types Fortran designates) that declares a binding of that name declares it PRIVATE, and FORD's
        #     slot still holds the name
        n = F.slots[i]["name"].lower()
        by_ent = {r["ent"]: r for r in F.types}
        cur, seen = by_ent.get(F.type_parent.get(F.types[F.slots[i]["type"]]["ent"])), set()
        if n not in F.types[F.slots[i]["type"]]["own"]:
            while cur is not None and cur["ent"] not in seen:
                seen.add(cur["ent"])
                if n in cur["own"]:
                    if cur["own"][n] in cur["priv"]:
                        return "C07-private-binding-not-inherited"
                    break
                cur = by_ent.get(F.type_parent.get(cur["ent"]))
    if cls is None and sub_parent:
        # (7) the parent submodule is looked up by its name alone: a submodule on the host chain of
        #     the reference names a parent whose name submodules of two different ancestor modules bear
        for k in F.chain(F.slots[i]["scope"]):
            if F.scopes[k]["node"].get("kind") == "submodule":
                x = next(y for y in F.subs if y["scope"] == k)
                if x["parent"] and len({y["anc"] for y in F.subs
                                        if F.scopes[y["scope"]]["node"]["name"].lower() == x["parent"]}) >= 2:
                    return "C07-parent-submodule-found-by-name-only"
    return cls


def _classify(F: Flat, frames, where, i, observed, block_use=True, shared=True, sub_local=True, alias=True,
              host_over_local=True):
    """Known defect class of a failing slot (decidable on the abstract project), or None.
    block_use = False: class (4) is not considered (the tree does not file block-local USE
    statements in the enclosing unit); shared = False: class (5) is not considered; sub_local /
    sub_parent = False: classes (6) / (7) are not considered."""
    sl = F.slots[i]
    n = sl["name"].lower()
    hosts = list(F.chain(sl["scope"]))
    subs_on_chain = [k for k in hosts if F.scopes[k]["node"].get("kind") == "submodule"]
    if subs_on_chain and sl["kind"] in ("ty", "pr", "pa"):
        # (6) the tables of the parent (ancestor module / parent submodule) are `update`d into the
        #     submodule's: a submodule frame on the host chain has the name, a frame farther out has
        #     it too, and FORD's slot holds the farther one's entity
        if sub_local and observed is not None:
            spaces = ["t"] if sl["kind"] == "ty" else ["p"] if sl["kind"] == "pr" else ["p", "a"]
            for pos, k in enumerate(hosts):
                if k in subs_on_chain and any(n in frames[k][ns] for ns in spaces):
                    for far in hosts[pos + 1:]:
                        if any(observed in frames[far][ns].get(n, ()) for ns in spaces):
                            return "C07-submodule-ancestor-overrides-local"
    if sl["kind"] == "mp" and sub_local:
        # (6) for the interface of a separate module procedure: a submodule on the host chain of the
        #     implementing submodule declares the interface, a scope farther out has the name as a
        #     procedure too, and FORD pairs the implementation with that one (or, if that one is not
        #     an interface body, with nothing)
        for pos, k in enumerate(hosts):
            if pos >= 1 and k in subs_on_chain and n in frames[k]["p"]:
                for far in hosts[pos + 1:]:
                    if n in frames[far]["p"] and (observed is None or observed in frames[far]["p"][n]):
                        return "C07-submodule-ancestor-overrides-local"
    if sl["kind"] in ("sm", "sp", "mp"):
        return None
    if sl["kind"] == "gb":
        # (5) the generic binding is inherited by an extension of its type (a descendant through the
        #     parent types Fortran designates - where a parent reference is ambiguous, through any of
        #     its candidates) that declares a binding of the specific's name itself, and FORD's
        #     slot holds exactly that binding of the extension
        if shared and observed is not None:
            tr = F.types[sl["type"]]
            for d in F.types:
                if d is not tr and d["own"].get(n) == observed:
                    todo, seen = list(F.type_parents.get(d["ent"], ())), set()
                    while todo:
                        a = todo.pop()
                        if a in seen:
                            continue
                        seen.add(a)
                        if a == tr["ent"]:
                            return "C07-inherited-generic-binding-shares-specifics-list"
                        todo += list(F.type_parents.get(a, ()))
        return None
    if sl["kind"] == "bn":
        return None
    anc = set(hosts)
    unit = F.scopes[sl["scope"]]["unit"]
    chain_frames = [s for s in anc]
    depth = {s: len(hosts) - k for k, s in enumerate(hosts)}  # innermost = largest
    # (4) a USE statement inside a BLOCK construct is filed in the enclosing code unit: FORD's entity
    #     is one that a BLOCK which does not enclose the reference, in the execution part of a code
    #     unit that does enclose it, use-associates under that name
    if observed is not None and block_use:
        for k, rec in enumerate(F.scopes):
            if rec.get("block") and k not in anc and rec["owner"] in anc:
                uf = F.use_frames.get(k, {})
                spaces = ["t"] if sl["kind"] == "ty" else ["p"] if sl["kind"] == "pr" else ["p", "a"]
                if any(observed in uf.get(ns, {}).get(n, ()) for ns in spaces):
                    return "C07-block-use-leaks-into-enclosing-unit"
    # (1) shared dict objects: a type / abstract interface of that name is declared in or
    #     use-associated into a scope of the same top-level unit that does not enclose the reference
    if sl["kind"] in ("ty", "pa") and alias:
        ns = "t" if sl["kind"] == "ty" else "a"
        for k, rec in enumerate(F.scopes):
            if rec["unit"] == unit and k not in anc and n in frames[k][ns]:
                if observed is not None and observed in frames[k][ns][n]:
                    return "C07-shared-type-tables-leak"
    if sl["kind"] in ("pr", "pa"):
        # (2) host procedure overwrites the local one: the name is a procedure in two enclosing frames
        holders = [s for s in anc if n in frames[s]["p"]]
        if len(holders) >= 2:
            inner = max(holders, key=lambda s: depth[s])
            for s in holders:
                # the innermost frame that has the name as a procedure does not hold FORD's entity
                # (the same entity use-associated at two levels is not a shadowing failure)
                if host_over_local and s != inner and observed is not None and observed in frames[s]["p"][n] \
                        and observed not in frames[inner]["p"][n]:
                    return "C07-host-procedure-beats-local"
        # (3) all_procs is consulted before all_absinterfaces whatever the nesting: an abstract
        #     interface of an inner frame is hidden by a procedure of an outer frame
        if sl["kind"] == "pa":
            ah = [s for s in anc if n in frames[s]["a"]]
            for a_s in ah:
                for p_s in holders:
                    if depth[p_s] < depth[a_s] and observed is not None and observed in frames[p_s]["p"][n]:
                        return "C07-procedure-table-before-absinterface"
    return None
