"""C20 - stream `diagnostics`: what reaches the terminal when a file is rejected.

The statement of the property ends with "... and a file it rejects is named in the diagnostic", and it
demands that the run goes on.  Both depend on code outside the parser: `ford.console.warn` (a `rich`
console: every `str` it prints is *console markup* - `[name]` opens a style, `[/name]` closes one and
raises `MarkupError` when nothing is open, `:name:` is an emoji code), the progress bar of the per-file
loop (`ProgressBar.set_current(relative_path)`), and the f-string of the handler.  The model is
lean/FordModel/Markup.lean (rich's `escape` / `render` as they are), the tables are `Gen.warnSpec`,
`Gen.progressSpec`, `Gen.rejectionRules` (translate/c20diag.py).

Inputs (none of them special to one change of the code):
  * names   - the additional file gets a name (and sometimes a directory) decorated with the characters
              a file system allows and a console interprets: brackets in every combination, backslashes,
              colons, quotes, blanks, braces, `%`, non-ASCII letters;
  * lines   - reader errors whose offending line (quoted in the exception text) is a line of Fortran-like
              tokens: array constructors old and new (`(/ 1 /)`, `[1, 2]`, the mixed-up `[/ 1 /]`),
              sections `a(1:m:2)`, component accesses, strings; INCLUDE of a missing, decorated file; INCLUDE of an
              existing, decorated file that holds a line the reader refuses (the exception then names that file);
  * the run is made as a user makes it: real `warn`, progress bar on (FORD_DEBUGGING unset).
Oracle (real code only): O2 the run completes, O1 the valid files and their slices of the project lists
are what they are without the additional file, O3 for every rejected file some call of `warn` put its
path - character by character, blanks aside (rich wraps) - on the terminal.
Correspondence: rich's `escape` / `render` == the model on random strings; `warn(msg)` == `warnShown`
for every message seen; the progress bar raises <=> `progressObs` says so.
"""
from __future__ import annotations

import random
from pathlib import Path

from translate.c20diag import EMOJI_VOCAB, real_progress, real_warn, strip_ws

# ----------------------------------------------------------------------------------------------
# generators
# ----------------------------------------------------------------------------------------------
WORDS = ["old", "bold", "b", "x", "v2", "draft", "red", "final", "tmp", "1", "12", "a b", "A", "copy of x", "x=1", "#tag",
         "@click", "/", "/b", "/old", "/ 1", ""]
PLAIN = [" ", "'", '"', "é", "%s", "&", "~", "#", "$", "=", ",", ";", "+", "-", "@", "!", "^", "{task}", "{0}", "(1)", "ü"]


def _bracketed(rng, allow_slash):
    w = rng.choice([x for x in WORDS if allow_slash or "/" not in x])
    return rng.choice(["[{}]", "[{}]", "[{}", "{}]", "[[{}]]", "\\[{}]", "\\\\[{}]"]).format(w)


def _colon(rng):
    return ":" + rng.choice(EMOJI_VOCAB) + ":"


def decoration(rng, allow_slash=False) -> str:
    """a piece of a file or directory name"""
    out = []
    for _ in range(rng.randint(1, 3)):
        x = rng.random()
        if x < 0.5:
            out.append(_bracketed(rng, allow_slash))
        elif x < 0.62:
            out.append(_colon(rng))
        elif x < 0.7:
            out.append(rng.choice(["\\", "\\\\", "a\\b"]))
        elif x < 0.85:
            out.append(rng.choice(PLAIN))
        else:
            out.append(rng.choice(["v", "new", "x1", "_"]))
    s = "".join(out)
    return s if allow_slash else s.replace("/", "")


def decorated_path(rng, prefix: str, ext=".f90") -> str:
    """path below the source directory that sorts where `prefix` sorts"""
    x = rng.random()
    if x < 0.12:
        return f"{prefix}bad{ext}"                                  # control: nothing special
    if x < 0.72:
        return f"{prefix}{decoration(rng)}bad{ext}"                  # decorated file name
    if x < 0.86:
        return f"{prefix}{decoration(rng)}/bad{decoration(rng)}{ext}"     # decorated directory
    # a bracket opened in the directory name and closed in the file name: `d[` + `/` + `x].f90`
    w = rng.choice(["b", "old", "", " 1", "x=1"])
    return f"{prefix}d{rng.choice(['[', '[bold][', 'x['])}/{w}]{rng.choice(['', 'bad'])}{ext}"


TOK = ["[", "]", "[/", "/]", "(/", "/)", "(", ")", ":", "::", ",", " ", " ", "=", "%", "*", "+", "1.0", "2", "10", "n", "m",
       "x", "a", "b", "i", "coeffs", "bold", "old", "\\", "'s'", '"t"', "1:m:2", ":x:", "(:)", "[1, 2]", "[/ 1.0, 2.0 /]", "a(i)%b"]


def offending_line(rng) -> str:
    """Fortran-like tokens (no `!`, no `;`, quotes only in pairs)"""
    return "".join(rng.choice(TOK) for _ in range(rng.randint(2, 8))).strip() or "x"


RICH_TOK = ["[", "]", "\\", "/", ":", "=", "@", "#", " ", "a", "b", "bold", "old", "x", "1", ".", "[/", "[/]", "[b]", "[/b]",
            "\\[", ":x:", ":zz:", "::", "(", ")", "\n\t", "-text", "red", "é", "[bold red]", "[/bold red]", "B", ":100:"]


def rich_subject(rng) -> str:
    return "".join(rng.choice(RICH_TOK) for _ in range(rng.randint(0, 10)))


# ----------------------------------------------------------------------------------------------
# observations
# ----------------------------------------------------------------------------------------------
def named_on_terminal(obs, role_name) -> bool:
    """some call of warn() put the file's name - at least its last component - on the terminal,
    character by character (blanks aside: rich wraps lines and expands tabs)"""
    key = strip_ws(Path(obs["disk"][role_name]).name)
    return any(key in strip_ws(r) for r in obs.get("warn_rendered", []))


def expected_rewrite(path: str) -> str:
    """what rich's escape / render pair makes of a text that was escaped (emoji codes, `\\[`)"""
    from rich.markup import escape
    from rich.text import Text

    return Text.from_markup(escape(path)).plain


def model_obs(r):
    """driver answer -> ("shown", text without blanks) | ("raised",) | ("unknown",)"""
    if r[0] != "ok":
        return ("bad-request",)
    if r[1] == "shown":
        return ("shown", strip_ws(r[2] if len(r) > 2 else ""))
    return (r[1],)


def o1_checks(obs, base_obs, goodnames, badnames):
    why = []
    for gname in goodnames:
        if gname not in obs["files"]:
            why.append(f"O1: valid file {gname} is no longer registered")
        elif obs["paths"][gname] != base_obs["paths"].get(gname):
            why.append(f"O1: entity tree of {gname} changed: {obs['paths'][gname]} vs {base_obs['paths'].get(gname)}")
        elif obs.get("details", {}).get(gname) != base_obs.get("details", {}).get(gname):
            why.append(f"O1: what is recorded inside the entities of {gname} (variables, call chains, uses) changed")
    if [f for f in obs["files"] if f in goodnames] != base_obs["files"]:
        why.append("O1: order of the valid files changed")
    for lst, names in obs["lists"].items():
        rest = [x for x, o in zip(names, obs["lists_owner"][lst]) if o not in badnames]
        if rest != base_obs["lists"][lst]:
            why.append(f"O1: project.{lst} restricted to the valid files changed: {rest} vs {base_obs['lists'][lst]}")
    if all(n_ not in obs["files"] for n_ in badnames):
        for gname in goodnames:
            gi_, bi_ = obs["idents"].get(gname), base_obs["idents"].get(gname)
            if gi_ != bi_ and gi_ is not None and bi_ is not None:
                why.append(f"O1: identifiers of the entities of {gname} changed although {badnames} was rejected")
    if obs["stray_entities"]:
        why.append(f"O1: entities of unregistered files leaked into the project lists: {obs['stray_entities']}")
    return why


# ----------------------------------------------------------------------------------------------
def rich_correspondence(rep, drv, rng, n):
    """rich's own functions against the model, on strings made of everything the two interpret"""
    from rich.errors import MarkupError
    from rich.markup import escape, render

    subjects = [rich_subject(rng) for _ in range(n)]
    stats = {"subjects": n, "escape_disagreements": 0, "render_comparisons": 0, "render_disagreements": 0,
             "model_abstains": 0, "raised": 0}
    for s, r in zip(subjects, drv.batch([["c20.mkescape", s] for s in subjects])):
        if r[0] != "ok" or r[1] != escape(s):
            stats["escape_disagreements"] += 1
            rep.tie_broken(f"correspondence markup: rich.markup.escape({s!r}) = {escape(s)!r}, model {r[1:]!r}",
                           {"stream": "diagnostics", "subject": s})
    for em in (True, False):
        for esc_ in (False, True):
            subs = [escape(s) if esc_ else s for s in subjects]
            for s, r in zip(subs, drv.batch([["c20.mkrender", "1" if em else "0", s] for s in subs])):
                try:
                    real = ("shown", strip_ws(render(s, emoji=em).plain))
                except MarkupError:
                    real = ("raised",)
                got = model_obs(r)
                if got == ("unknown",):
                    stats["model_abstains"] += 1
                    continue
                stats["render_comparisons"] += 1
                stats["raised"] += got == ("raised",)
                if got != real:
                    stats["render_disagreements"] += 1
                    rep.tie_broken(f"correspondence markup: rich.markup.render({s!r}, emoji={em}) gives {real}, model {got}",
                                   {"stream": "diagnostics", "markup": s, "emoji": em})
    return stats


def warn_correspondence(rep, drv, pairs, stats):
    """pairs: (message, what the real warn did: ("shown", text without blanks) | ("raised", ..))"""
    for (m, real), r in zip(pairs, drv.batch([["c20.warn", m] for m, _ in pairs])):
        got = model_obs(r)
        if got == ("unknown",):
            stats["warn_model_abstains"] += 1
            continue
        stats["warn_comparisons"] += 1
        real_c = ("raised",) if real[0] == "raised" else ("shown", real[1])
        if got != real_c:
            stats["warn_disagreements"] += 1
            rep.tie_broken(f"correspondence diagnostics: warn({m!r}) put {real_c} on the terminal, the model (Gen.warnSpec) says {got}",
                           {"stream": "diagnostics", "message": m, "impl": real_c, "model": got})


# ----------------------------------------------------------------------------------------------
# files that go through the preprocessor (default settings: `.F90` ... are run through pcpp) and are
# malformed *for the preprocessor*: grammar of broken directives
# ----------------------------------------------------------------------------------------------
PP_BROKEN = [
    ("unterminated-if", ["#if defined(NEVER_DEFINED_ANYWHERE)"]),
    ("unterminated-ifdef", ["#ifdef __GFORTRAN__"]),
    ("stray-endif", ["#endif"]),
    ("stray-else", ["#else"]),
    ("stray-elif", ["#elif 1"]),
    ("error-directive", ["#error this file is not meant to be compiled"]),
    ("missing-include", ['#include "no_such_file.h"']),
    ("missing-include-angle", ["#include <no_such_file.h>"]),
    ("include-of-a-macro", ["#include NOT_A_MACRO"]),
    ("self-include", ['#include "{self}"']),
    ("include-cycle", ['#include "{cycle}"']),
    ("include-undecodable", ['#include "{undecodable}"']),
    ("include-directory", ['#include "."']),
    ("bad-expression", ["#if 1 +"]),
    ("bad-expression-paren", ["#if ((1)"]),
    ("division-by-zero", ["#if 1 / 0", "#endif"]),
    ("recursive-define", ["#define RECUR RECUR", "x = RECUR"]),
    ("mutual-define", ["#define PING PONG", "#define PONG PING", "x = PING"]),
    ("unfinished-macro-call", ["#define F(x) x", "y = F(1"]),
    ("macro-arity", ["#define G(a, b) a", "y = G(1)"]),
    ("bad-define", ["#define 1BAD (", "#define"]),
    ("stringify", ["#define S(x) #x", "y = S(')"]),
    ("paste", ["#define CAT(a, b) a ## b", "y = CAT(, )"]),
    ("unknown-directive", ["#frobnicate the file"]),
    ("null-directive", ["#"]),
    ("line-directive", ["#line banana"]),
    ("undef-nothing", ["#undef"]),
    ("unterminated-comment", ["/* a C comment that never ends"]),
    ("unterminated-string", ['x = "never closed']),
]


def fpp_stream(rep, real, rng, quick, cases, baselines, stats):
    """O1-O3 on projects whose additional file is read through the preprocessor and carries a broken
    directive (whatever FORD decides about such a file, the run completes, the other files are
    untouched, and a rejected file is named)."""
    from .c20 import disk_names, src_text

    n = 70 if quick else 420
    pool = [c for c in cases if c["dbg"] and not c["extra"] and c["bad"]["form"] == "stmts" and "text" not in c["bad"]
            and (c["gi"], True, False) in baselines]
    rng.shuffle(pool)
    st = stats["preprocessed"] = {"runs": 0, "by_directive": {}, "rejected": 0, "registered": 0, "aborted": 0, "oracle_failures": 0}
    for i, c in enumerate(pool[:n]):
        texts, base_obs = baselines[(c["gi"], True, False)]
        lrng = random.Random(rng.random())
        how, directives = PP_BROKEN[i % len(PP_BROKEN)] if i < 2 * len(PP_BROKEN) else lrng.choice(PP_BROKEN)
        goodnames = [n_ for n_, _ in c["goods"]]
        roles = [n_ for n_, _ in c["files"]]
        disk = disk_names(roles)
        ext = lrng.choice([".F90", ".F90", ".F95", ".F03"])
        disk["bad.f90"] = disk["bad.f90"][: -len(".f90")] + ext
        lines = src_text(c["bad"], lrng).splitlines()
        k = lrng.randint(0, len(lines))
        subst = {"self": disk["bad.f90"], "cycle": "zz_cycle.inc", "undecodable": "zz_undecodable.inc"}
        body = "".join(l + "\n" for l in lines[:k] + [d.format(**subst) if "{" in d and "}" in d and "(" not in d else d
                                                      for d in directives] + lines[k:])
        files = [(n_, texts[n_] if n_ in texts else body) for n_, _ in c["files"]]
        # the files the directives refer to (not Fortran sources: the per-file loop passes them by)
        files += [("zz_cycle.inc", f'#include "{disk["bad.f90"]}"\n'), ("zz_undecodable.inc", b"integer :: caf\xe9 \xff\xfe\n")]
        disk["zz_cycle.inc"], disk["zz_undecodable.inc"] = "zz_cycle.inc", "zz_undecodable.inc"
        obs = real.run(files, True, False, disk=disk, progress=False)
        st["runs"] += 1
        st["by_directive"][how] = st["by_directive"].get(how, 0) + 1
        replay_case = {"stream": "preprocessed", "directive": how, "inserted_after_line": k, "position": c["pos"],
                       "files": [{"name": disk[n_], "text": t if isinstance(t, str) else repr(t)} for n_, t in files],
                       "settings": "defaults: files with the extension F90 / F95 / F03 ... are run through `pcpp`"}
        why, cls = [], None
        esc_ = obs["escaped"]
        if obs["hang"]:
            why.append("O2: Project(settings) did not return before the watchdog expired")
        elif esc_ is not None:
            st["aborted"] += 1
            why.append(f"O2: the run ended with {type(esc_).__name__}({esc_}) (frames: {obs.get('escaped_tb', [])[-4:]})")
            if isinstance(esc_, SystemExit) and any(fr.startswith("pcpp/") for fr in obs.get("escaped_tb", [])):
                cls = "C20-preprocessor-exit"
        else:
            why += o1_checks(obs, base_obs, goodnames, ["bad.f90"])
            if "bad.f90" in obs["files"]:
                st["registered"] += 1
            else:
                st["rejected"] += 1
                if not named_on_terminal(obs, "bad.f90"):
                    why.append(f"O3: {disk['bad.f90']} was rejected but what warn() put on the terminal does not name it: "
                               f"{obs['warn_rendered']}")
        if why:
            st["oracle_failures"] += 1
            rep.failing_input(dict(replay_case, why=why, observed_files=obs.get("files"), on_the_terminal=obs.get("warn_rendered"),
                                   output=obs.get("stdout")), cls)
    return st


# ----------------------------------------------------------------------------------------------
def run_stream(rep, drv, real, rng, quick, cases, baselines):
    n_rich = 1200 if quick else 8000
    n_proj = 150 if quick else 900
    n_lines = 56 if quick else 320
    n_msgs = 250 if quick else 1500
    n_prog = 50 if quick else 300
    stats = {"warn_comparisons": 0, "warn_disagreements": 0, "warn_model_abstains": 0,
             "progress_comparisons": 0, "progress_disagreements": 0, "progress_model_abstains": 0,
             "project_runs": 0, "oracle_failures": 0, "rejected_files_named_on_terminal": 0,
             "runs_aborted": 0, "name_shapes": {}}
    import time
    t0 = time.time()
    secs = stats["seconds"] = {}

    def lap(name):
        nonlocal t0
        now = time.time()
        secs[name] = round(now - t0, 1)
        t0 = now

    spec = drv.call("c20.diagspec")
    stats["spec"] = spec[1:]
    stats["rich"] = rich_correspondence(rep, drv, rng, n_rich)
    lap("markup correspondence")

    # ---------------------------------------------------------------- projects
    pool = [c for c in cases if c["dbg"] and not c["extra"] and c.get("real_skipped")
            and c["m_file"]["bad.f90"]["status"] == "skipped" and (c["gi"], True, False) in baselines]
    rng.shuffle(pool)
    picked = [("as-generated", c) for c in pool[:n_proj]]
    # reader errors / missing includes whose exception text quotes Fortran-like tokens
    for c in pool[n_proj:n_proj + n_lines] or pool[:n_lines]:
        picked.append(("offending-line", c))
    msgs_seen, bar_seen = [], []
    for ci, (kind, c) in enumerate(picked):
        texts, base_obs = baselines[(c["gi"], True, False)]
        lrng = random.Random(rng.random())
        goodnames = [n_ for n_, _ in c["goods"]]
        files = []
        aux_here = []
        c_names = {n_ for n_, _ in c["files"]}
        for name, src in c["files"]:
            if name in texts:
                files.append((name, texts[name]))
            elif kind == "offending-line":
                k = lrng.random()
                if k < 0.5:
                    body = "module diag_m\n  real :: coeffs(3)\n  & " + offending_line(lrng) + "\nend module diag_m\n"
                elif k < 0.6:
                    body = "module diag_m\n  include \"<<SELF>>\"\nend module diag_m\n"      # a file that includes itself
                elif k < 0.8:
                    # an include file that exists (decorated name) and has the offending line: every kind of
                    # line the reader refuses; the exception text then quotes - and possibly names - that file
                    inc = "zi_" + decoration(lrng).replace('"', "").replace("'", "").strip() + ".inc"
                    ol = offending_line(lrng)
                    line = lrng.choice(["& " + ol, "x = " + ol + " !> doc beside code", "integer :: n = 10 !| " + ol,
                                        "y = 2 !* " + ol])
                    body = f"module diag_m\n  include \"{inc}\"\nend module diag_m\n"
                    aux_here.append((inc, "real :: coeffs(3)\n" + line + "\n"))
                else:
                    inc = decoration(lrng, allow_slash=True).replace('"', "").replace("'", "")
                    body = f"module diag_m\n  include \"{inc}.inc\"\nend module diag_m\n"
                files.append((name, body))
            else:
                from .c20 import src_text
                files.append((name, src_text(src, lrng)))
        from .c20 import disk_names, with_aux
        disk = disk_names([n_ for n_, _ in files])
        if kind == "as-generated":
            files = with_aux(files, c["files"], disk)       # the files an additional file INCLUDEs
        for an, at in aux_here:
            disk[an] = an
            files.append((an, at))
        plain_name = disk["bad.f90"]
        prefix = plain_name[: plain_name.index("_") + 1]
        ext = lrng.choice([".f90", ".f90", ".f90", ".f95", ".f03"])
        disk["bad.f90"] = decorated_path(lrng, prefix, ext)
        rel = disk["bad.f90"]
        # the files it INCLUDEs are looked for relative to the directory it is in
        for an in [n_ for n_, _ in files if n_ not in c_names]:
            disk[an] = str(Path(rel).parent / an) if str(Path(rel).parent) != "." else an
        shape = ("closing-tag" if any(t in rel for t in ("[/",)) else "dir" if "/" in rel else
                 "bracket" if "[" in rel or "]" in rel else "colon" if ":" in rel else
                 "backslash" if "\\" in rel else "other" if rel != f"{prefix}bad{ext}" else "plain")
        stats["name_shapes"][shape] = stats["name_shapes"].get(shape, 0) + 1
        files = [(n_, t.replace("<<SELF>>", Path(rel).name) if isinstance(t, str) else t) for n_, t in files]
        obs = real.run(files, True, False, disk=disk, progress=True)
        stats["project_runs"] += 1
        replay_case = {"stream": "diagnostics", "kind": kind, "how": c["bad"]["how"], "position": c["pos"],
                       "path_of_the_additional_file": rel,
                       "files": [{"name": obs["disk"][n_], "text": t if isinstance(t, str) else repr(t)} for n_, t in files],
                       "settings": "defaults (dbg = true), progress bar on"}
        # ---------------- what warn() did, for the correspondence
        esc_ = obs["escaped"]
        warn_raised = esc_ is not None and any(fr.endswith("console.py:warn") for fr in obs.get("escaped_tb", []))
        for i, m in enumerate(obs["warn_raw"]):
            last = i == len(obs["warn_raw"]) - 1
            msgs_seen.append((m, ("raised", type(esc_).__name__) if (warn_raised and last)
                              else ("shown", strip_ws(obs["warn_rendered"][i]))))
        # ---------------- the progress bar (only the file shown last is ever rendered: no terminal)
        if obs["read_order"] and not warn_raised and not obs["hang"]:
            last_rel = obs["disk"].get(obs["read_order"][-1])
            if last_rel is not None:
                bar_seen.append((last_rel, esc_ is not None and type(esc_).__name__ == "MarkupError", replay_case))
        # ---------------- oracle
        why, cls = [], None
        if obs["hang"]:
            why.append("O2: Project(settings) did not return before the watchdog expired")
        elif esc_ is not None:
            stats["runs_aborted"] += 1
            why.append(f"O2: the run aborted: {esc_!r} (frames: {obs.get('escaped_tb', [])[-4:]})")
            if type(esc_).__name__ == "MarkupError" and not warn_raised:
                # is it the progress display alone?  the same project with the display switched off
                obs2 = real.run(files, True, False, disk=disk, progress=False)
                if (not obs2["hang"] and obs2["escaped"] is None and "bad.f90" not in obs2["files"]
                        and not o1_checks(obs2, base_obs, goodnames, ["bad.f90"]) and named_on_terminal(obs2, "bad.f90")):
                    cls = "C20-progress-markup-abort"
                    why.append("with the progress display switched off (FORD_DEBUGGING=1) the same project is read completely, "
                               "the file is rejected, named and leaves no trace: the abort comes from rendering the path "
                               "of the current file in the progress bar")
        else:
            why += o1_checks(obs, base_obs, goodnames, ["bad.f90"])
            if "bad.f90" in obs["files"]:
                if kind == "as-generated":
                    why.append(f"O4: the additional file is registered under the name {rel!r}; under the name "
                               f"{plain_name!r} the same text was rejected")
                else:
                    stats["offending_line_files_not_rejected"] = stats.get("offending_line_files_not_rejected", 0) + 1
            elif not any(Path(rel).name in w for w in obs["warn_raw"]):
                why.append(f"O3: {rel!r} was rejected but no warning was given its name: {obs['warn_raw']}")
            elif not named_on_terminal(obs, "bad.f90"):
                why.append(f"O3: {rel!r} was rejected and warn() was given its path, but what warn() put on the terminal "
                           f"does not name it: {obs['warn_rendered']}")
                rew = expected_rewrite(Path(rel).name)
                if not why[:-1] and rew != Path(rel).name and any(strip_ws(rew) in strip_ws(r) for r in obs["warn_rendered"]):
                    cls = "C20-diagnostic-rewrites-name"
                    why.append(f"the terminal shows {rew!r}: the only difference is what rich's escape / render pair does to "
                               "an escaped text (an emoji code replaced, a backslash in front of a bracket dropped)")
            else:
                stats["rejected_files_named_on_terminal"] += 1
        if why:
            stats["oracle_failures"] += 1
            rep.failing_input(dict(replay_case, why=why, warn_messages=obs.get("warn_raw"),
                                   on_the_terminal=obs.get("warn_rendered"), observed_files=obs.get("files")), cls)
    for (last_rel, aborted_in_bar, rc), r in zip(bar_seen, drv.batch([["c20.progress", b_[0]] for b_ in bar_seen])):
        r = model_obs(r)
        if r == ("unknown",):
            stats["progress_model_abstains"] += 1
            continue
        stats["progress_comparisons"] += 1
        if (r == ("raised",)) != aborted_in_bar:
            stats["progress_disagreements"] += 1
            rep.tie_broken(f"correspondence diagnostics: the progress bar showing {last_rel!r} "
                           f"{'raised' if aborted_in_bar else 'did not raise'}, the model (Gen.progressSpec) says {r}",
                           dict(rc, tie="progress"))
    lap("projects")
    # ---------------------------------------------------------------- warn alone
    rej = drv.batch([["c20.rejectionmsg", "<<PATH>>", "<<ERR>>"]])[0]
    fmt = rej[1] if rej[0] == "ok" else "Error parsing <<PATH>>.\n\t<<ERR>>"
    pairs = list(msgs_seen)
    for _ in range(n_msgs):
        pth = "src/" + decorated_path(rng, "")
        err = rng.choice(["()", "File ended while still nested.", "Can not start a new line in Fortran with '&': & " + offending_line(rng),
                          offending_line(rng), "utf-8", decoration(rng, allow_slash=True)])
        m = fmt.replace("<<PATH>>", pth).replace("<<ERR>>", err) if rng.random() < 0.8 else rich_subject(rng)
        pairs.append((m, real_warn(m)))
    warn_correspondence(rep, drv, pairs, stats)
    stats["warn_messages_from_project_runs"] = len(msgs_seen)
    lap("warn correspondence")
    # ---------------------------------------------------------------- the progress bar alone
    names = ["src/" + decorated_path(rng, "") for _ in range(n_prog)]
    for nm, r in zip(names, drv.batch([["c20.progress", nm] for nm in names])):
        got = model_obs(r)
        if got == ("unknown",):
            stats["progress_model_abstains"] += 1
            continue
        stats["progress_comparisons"] += 1
        realr = real_progress(nm)
        if (got == ("raised",)) != realr:
            stats["progress_disagreements"] += 1
            rep.tie_broken(f"correspondence diagnostics: a ProgressBar showing {nm!r} {'raises' if realr else 'does not raise'}, "
                           f"the model (Gen.progressSpec) says {got}", {"stream": "diagnostics", "name": nm})
    lap("progress correspondence")
    fpp_stream(rep, real, rng, quick, cases, baselines, stats)
    lap("preprocessed files")
    return stats
