"""Shared machinery for the per-property checks (see DESIGN.md section 3).

Run with /venv/bin/python.  The implementation under test is imported
in-process from REPO (default /repo, the working tree).
"""
from __future__ import annotations

import contextlib
import fcntl
import hashlib
import io
import json
import os
import random
import re
import shutil
import subprocess
import sys
import tempfile
import time
from pathlib import Path

VERIF = Path(__file__).resolve().parent.parent
REPO = Path(os.environ.get("FORD_VERIF_REPO", "/repo")).resolve()
LEAN = VERIF / "lean"
EVIDENCE = VERIF / "evidence"
REPLAYS = EVIDENCE / "replays"
DRIVER = LEAN / ".lake" / "build" / "bin" / "driver"
ALLOWED_AXIOMS = {"propext", "Quot.sound", "Classical.choice"}
FORBIDDEN = re.compile(
    r"sorry|\badmit\b|^axiom |native_decide|bv_decide|implemented_by|unsafe |maxHeartbeats 0"
)


class Infra(Exception):
    """Infrastructure failure: exit code 2, never a pass."""


def import_ford():
    """Import the implementation from REPO and make sure that is what we got."""
    os.environ.setdefault("FORD_DEBUGGING", "1")  # no rich progress bars
    if not os.environ.get("PATH", "").startswith("/venv/bin:"):
        os.environ["PATH"] = "/venv/bin:" + os.environ.get("PATH", "")
    if str(REPO) not in sys.path:
        sys.path.insert(0, str(REPO))
    import ford  # noqa

    got = Path(ford.__file__).resolve()
    if REPO not in got.parents:
        raise Infra(f"ford imported from {got}, expected under {REPO}")
    return ford


def seed_from_env() -> int:
    try:
        return int(os.environ.get("VERIF_SEED", "0"))
    except ValueError:
        return 0


def tier_from_env(default="quick") -> str:
    t = os.environ.get("VERIF_TIER", default)
    return t if t in ("quick", "thorough") else default


# --------------------------------------------------------------------------
# Lean side: translate, build, audit
# --------------------------------------------------------------------------


@contextlib.contextmanager
def lean_lock(shared: bool = False):
    """Exclusive while translating / building (the driver executable may be re-linked), shared while the
    driver executable is being run, so that a check running next to this one never finds it missing."""
    LEAN.mkdir(exist_ok=True)
    with open(LEAN / ".lock", "a") as fh:
        fcntl.flock(fh, fcntl.LOCK_SH if shared else fcntl.LOCK_EX)
        try:
            yield
        finally:
            fcntl.flock(fh, fcntl.LOCK_UN)


def write_if_changed(path: Path, text: str) -> bool:
    if path.exists() and path.read_text() == text:
        return False
    path.parent.mkdir(parents=True, exist_ok=True)
    path.write_text(text)
    return True


def run(cmd, cwd=None, timeout=1800, env=None):
    p = subprocess.run(
        cmd, cwd=cwd, capture_output=True, text=True, timeout=timeout, env=env
    )
    return p.returncode, p.stdout + p.stderr


class LeanResult:
    def __init__(self):
        self.translate_ok = True
        self.translate_msg = ""
        self.build_ok = True
        self.build_log = ""
        self.theorems: list[str] = []  # property theorems
        self.axioms: dict[str, list[str]] = {}
        self.bad_axioms: dict[str, list[str]] = {}
        self.forbidden_hits: list[str] = []
        self.driver_ok = True

    @property
    def obligations(self):
        return len(self.theorems)

    @property
    def discharged(self):
        if not self.build_ok or self.forbidden_hits:
            return 0
        return sum(
            1 for t in self.theorems if t in self.axioms and t not in self.bad_axioms
        )

    @property
    def ok(self):
        return (
            self.translate_ok
            and self.build_ok
            and self.driver_ok
            and not self.forbidden_hits
            and not self.bad_axioms
            and self.obligations > 0
            and self.discharged == self.obligations
        )

    def broken(self) -> list[str]:
        out = []
        if not self.translate_ok:
            out.append(f"translator: {self.translate_msg}")
        if not self.build_ok:
            out.append("lake build failed: " + first_error(self.build_log))
        if not self.driver_ok:
            out.append("driver build failed")
        for h in self.forbidden_hits:
            out.append("forbidden construct: " + h)
        for t, ax in self.bad_axioms.items():
            out.append(f"theorem {t} depends on axioms {ax}")
        for t in self.theorems:
            if t not in self.axioms:
                out.append(f"theorem {t} not checked")
        return out


def first_error(log: str) -> str:
    for line in log.splitlines():
        if "error" in line:
            return line.strip()[:300]
    return log.strip()[-300:]


THM_RE = re.compile(r"^\s*theorem\s+([A-Za-z0-9_.']+)", re.M)


def strip_comments(text: str) -> str:
    text = re.sub(r"/-.*?-/", "", text, flags=re.S)
    return re.sub(r"--.*", "", text)


class _TablesDone(Exception):
    pass


def foreign_generated(prop: str) -> list[str]:
    """properties other than `prop` whose regenerated tables (FordModel/Generated/Cxx*.lean) the module
    FordModel.Props.<prop> imports, directly or not"""
    seen, todo, gen = set(), [f"FordModel.Props.{prop}"], set()
    while todo:
        m = todo.pop()
        if m in seen:
            continue
        seen.add(m)
        f = LEAN / (m.replace(".", "/") + ".lean")
        if not f.exists():
            continue
        for x in re.findall(r"^import (FordModel\.[\w.]+)", f.read_text(), re.M):
            todo.append(x)
            g = re.match(r"FordModel\.Generated\.(C\d\d)", x)
            if g:
                gen.add(g.group(1))
    return sorted(gen - {prop})


def regenerate_tables_of(other: str):
    """run the translator of another property (the tables of that property that this one's model reads must describe
    the tree under test too, whichever check is run first)"""
    import importlib

    mod = importlib.import_module(f"harness.{other.lower()}")

    def only_translate(prop, translate=None, thorough=False):
        if translate is not None:
            translate()
        raise _TablesDone

    saved = getattr(mod, "lean_prove", None)
    mod.lean_prove = only_translate
    try:
        mod.run("quick", 0, None)
    except _TablesDone:
        pass
    finally:
        if saved is not None:
            mod.lean_prove = saved


def lean_prove(prop: str, translate=None, thorough=False) -> LeanResult:
    """Regenerate tables, build the property module and the driver, audit axioms."""
    res = LeanResult()
    with lean_lock():
        for other in foreign_generated(prop):
            try:
                regenerate_tables_of(other)
            except Exception as e:  # that property's translator could not find its construct
                res.translate_ok = False
                res.translate_msg = f"tables of {other}: {type(e).__name__}: {e}"
        if translate is not None:
            try:
                translate()
            except Exception as e:  # translator could not find its construct
                res.translate_ok = False
                res.translate_msg = f"{type(e).__name__}: {e}"
        props_file = LEAN / "FordModel" / "Props" / f"{prop}.lean"
        text = strip_comments(props_file.read_text())
        res.theorems = [f"Ford.{prop}.{n}" if "." not in n else n for n in THM_RE.findall(text)]
        # forbidden constructs anywhere in the library
        for f in sorted((LEAN / "FordModel").rglob("*.lean")):
            body = strip_comments(f.read_text())
            for ln in body.splitlines():
                if FORBIDDEN.search(ln):
                    res.forbidden_hits.append(f"{f.relative_to(LEAN)}: {ln.strip()[:120]}")
        rc, log = run(["lake", "build", f"FordModel.Props.{prop}", "driver"], cwd=LEAN)
        res.build_log = log
        res.build_ok = rc == 0
        res.driver_ok = DRIVER.exists() and rc == 0
        if not res.build_ok:
            # the driver may still be buildable (model intact, proof broken)
            rc2, _ = run(["lake", "build", "driver"], cwd=LEAN)
            res.driver_ok = rc2 == 0 and DRIVER.exists()
            return res
        # audit
        audit = LEAN / "FordModel" / "Audit" / f"{prop}.lean"
        lines = [f"import FordModel.Props.{prop}"] + [
            f"#print axioms {t}" for t in res.theorems
        ]
        write_if_changed(audit, "\n".join(lines) + "\n")
        rc, log = run(["lake", "env", "lean", str(audit.relative_to(LEAN))], cwd=LEAN)
        if rc != 0:
            res.build_ok = False
            res.build_log += "\n" + log
            return res
        for m in re.finditer(
            r"'([^']+)' (does not depend on any axioms|depends on axioms: \[([^\]]*)\])", log
        ):
            name = m.group(1)
            ax = [a.strip() for a in (m.group(3) or "").replace("\n", " ").split(",") if a.strip()]
            res.axioms[name] = ax
            bad = [a for a in ax if a not in ALLOWED_AXIOMS]
            if bad:
                res.bad_axioms[name] = bad
        if thorough:
            rc, log = run(
                ["lake", "env", "leanchecker", f"FordModel.Props.{prop}"], cwd=LEAN, timeout=3600
            )
            if rc != 0:
                res.build_ok = False
                res.build_log += "\nleanchecker: " + log[-2000:]
    return res


_INIT_EQ_JOIN = None


def probe_init_eq_join() -> bool:
    """Which variant of `line_to_variables` the working tree has: True when the initial value is everything
    after the first top-level `=` (`flag = n == 3` is recorded as `n==3`), False when it is cut at the second
    one (as the code was before the fix for C01-initial-relational / C18-initial-cut-at-equals).
    Decided by running the real code once."""
    global _INIT_EQ_JOIN
    if _INIT_EQ_JOIN is None:
        import_ford()
        from ford.settings import ProjectSettings
        from ford.sourceform import FortranSourceFile

        with scratch_dir("ford-probe-") as d:
            f = d / "probe.f90"
            f.write_text("module probe_m\n  logical, parameter :: flag = 1 == 2\nend module probe_m\n")
            with quiet():
                src = FortranSourceFile(str(f), ProjectSettings())
            ini = (src.modules[0].variables[0].initial or "").replace(" ", "")
        _INIT_EQ_JOIN = ini == "1==2"
    return _INIT_EQ_JOIN


class Driver:
    """Pipe to the compiled Lean driver (line protocol, see Proto.lean)."""

    def __init__(self):
        if not DRIVER.exists():
            raise Infra("driver executable missing; run setup_cmd")

    @staticmethod
    def esc(s: str) -> str:
        return s.replace("\\", "\\\\").replace("\t", "\\t").replace("\n", "\\n").replace("\r", "\\r")

    @staticmethod
    def unesc(s: str) -> str:
        out = []
        i = 0
        while i < len(s):
            c = s[i]
            if c == "\\" and i + 1 < len(s):
                d = s[i + 1]
                out.append({"t": "\t", "n": "\n", "r": "\r"}.get(d, d))
                i += 2
            else:
                out.append(c)
                i += 1
        return "".join(out)

    def batch(self, requests: list[list[str]]) -> list[list[str]]:
        """Run the driver once over all requests (stdin closed at the end, so no
        pipe-buffer deadlock) and return one response per request."""
        if not requests:
            return []
        data = "".join("\t".join(self.esc(f) for f in r) + "\n" for r in requests)
        with lean_lock(shared=True):
            p = subprocess.run([str(DRIVER)], input=data, capture_output=True, text=True, timeout=3600)
        if p.returncode != 0:
            raise Infra(f"driver failed rc={p.returncode}: {p.stderr[-300:]}")
        lines = p.stdout.split("\n")
        if lines and lines[-1] == "":
            lines.pop()
        if len(lines) != len(requests):
            raise Infra(f"driver answered {len(lines)} lines for {len(requests)} requests")
        return [[self.unesc(f) for f in line.split("\t")] for line in lines]

    def call(self, *fields: str) -> list[str]:
        return self.batch([list(fields)])[0]

    def close(self):
        pass


# --------------------------------------------------------------------------
# Findings, violations, evidence
# --------------------------------------------------------------------------


def load_known_findings(prop: str) -> list[dict]:
    f = VERIF / "known_findings" / f"{prop}.json"
    if not f.exists():
        return []
    data = json.loads(f.read_text())
    return [e for e in data.get("findings", []) if e.get("property") == prop and e.get("status") == "open"]


class Report:
    """Collects what one check run saw and produces stdout lines, evidence and exit code."""

    def __init__(self, prop: str, tier: str, seed: int):
        self.prop = prop
        self.tier = tier
        self.seed = seed
        self.t0 = time.time()
        self.violations: list[dict] = []  # unlisted failing inputs
        self.known_hits: dict[str, dict] = {}  # finding id -> first example
        self.tie_breaks: list[str] = []  # broken proof / translator / correspondence
        self.disagreements: list[dict] = []
        self.coverage: dict = {}
        self.assumptions: list[str] = []
        self.known = {e["id"]: e for e in load_known_findings(prop)}

    # a property-oracle failure on the real code
    def failing_input(self, case: dict, finding_id: str | None):
        if finding_id is not None and finding_id in self.known:
            self.known_hits.setdefault(finding_id, case)
        else:
            if finding_id is not None:
                case = dict(case, classified_as=finding_id, note="class not listed in known_findings.json")
            if len(self.violations) < 50:
                self.violations.append(case)

    def tie_broken(self, what: str, case: dict | None = None):
        self.tie_breaks.append(what)
        if case is not None and len(self.disagreements) < 50:
            self.disagreements.append(case)

    def write_replay(self, obj: dict, tag: str) -> Path:
        REPLAYS.mkdir(parents=True, exist_ok=True)
        n = len(list(REPLAYS.glob(f"{self.prop}-{self.seed}-*.json")))
        path = REPLAYS / f"{self.prop}-{self.seed}-{n}-{tag}.json"
        obj = dict(obj, property=self.prop, seed=self.seed, tier=self.tier,
                   replay_cmd=f"./check {self.prop} --replay {path}")
        path.write_text(json.dumps(obj, indent=1, default=str))
        return path

    def finish(self, lean: LeanResult | None, level="proof") -> int:
        EVIDENCE.mkdir(exist_ok=True)
        lines = []
        code = 0
        for fid, case in sorted(self.known_hits.items()):
            lines.append(f"KNOWN-FINDING: property={self.prop} {fid}: {self.known[fid]['what']}")
        if self.violations:
            path = self.write_replay(
                {"kind": "failing-input", "cases": self.violations[:10],
                 "broken_ties": self.tie_breaks[:20],
                 "first_disagreements": self.disagreements[:10]}, "violation")
            lines.append(f"VIOLATION property={self.prop} replay={path}")
            code = 1
        elif self.tie_breaks:
            path = self.write_replay(
                {"kind": "tie-broken", "no_longer_checks": self.tie_breaks[:50],
                 "first_disagreements": self.disagreements[:10],
                 "note": "a proof obligation, a generated table or the model/implementation "
                         "correspondence no longer checks; the failing-input search found no "
                         "input on which the property itself fails"}, "tie")
            lines.append(f"VIOLATION property={self.prop} replay={path} no-failing-input-found")
            code = 1
        cov = dict(self.coverage)
        if lean is not None:
            cov.setdefault("obligations", lean.obligations)
            cov.setdefault("discharged", lean.discharged)
            cov.setdefault(
                "checker_cmd",
                f"cd /verif/lean && lake build FordModel.Props.{self.prop} && lake env lean FordModel/Audit/{self.prop}.lean"
                + (f" && lake env leanchecker FordModel.Props.{self.prop}" if self.tier == "thorough" else ""),
            )
            cov.setdefault("theorems", lean.theorems)
            cov.setdefault("axioms", lean.axioms)
            cov.setdefault(
                "trusted_base",
                ["Lean 4.33.0 kernel", "axioms: " + ", ".join(sorted({a for v in lean.axioms.values() for a in v}) or ["none"]),
                 "verif/translate (tables regenerated from /repo source)",
                 "verif/harness correspondence (differential execution model vs /repo code)"],
            )
        cov["known_findings_reported"] = sorted(self.known_hits)
        cov["tie_breaks"] = self.tie_breaks[:20]
        ev = {
            "property_id": self.prop,
            "tier": self.tier,
            "seed": self.seed,
            "level": level,
            "coverage": cov,
            "assumptions": self.assumptions,
            "wall_s": round(time.time() - self.t0, 2),
            "violations": len(self.violations) + (1 if (self.tie_breaks and not self.violations) else 0),
        }
        (EVIDENCE / f"{self.prop}.json").write_text(json.dumps(ev, indent=1, default=str))
        for ln in lines:
            print(ln)
        print(f"[{self.prop}] tier={self.tier} seed={self.seed} "
              f"obligations={cov.get('obligations')} discharged={cov.get('discharged')} "
              f"evaluations={cov.get('evaluations')} exit={code} wall={ev['wall_s']}s")
        return code


@contextlib.contextmanager
def scratch_dir(prefix="ford-verif-"):
    base = os.environ.get("TMPDIR", "/tmp")
    d = Path(tempfile.mkdtemp(prefix=prefix, dir=base))
    try:
        yield d
    finally:
        shutil.rmtree(d, ignore_errors=True)


@contextlib.contextmanager
def quiet():
    """Silence FORD's prints / warnings during in-process runs."""
    buf = io.StringIO()
    with contextlib.redirect_stdout(buf), contextlib.redirect_stderr(buf):
        yield buf


def digest(obj) -> str:
    return hashlib.sha1(json.dumps(obj, sort_keys=True, default=str).encode()).hexdigest()[:16]
