"""C01, streams `attrs` and `attrq`: which attributes a documented variable carries when a specification part mixes
type declaration statements (several entities per statement) with separate attribute statements.

attrs  (correspondence) random specification parts - declaration statements with 1-3 entities and 0-3 attribute
       texts, attribute statements of every keyword ATTRIB_RE knows naming any subset of the declared entities
       (also undeclared names, array specifications on the names, a name twice, PARAMETER items without `=`) - are
       rendered into a module / program / subroutine / function / block data unit and read by the real
       FortranSourceFile; every FortranVariable of the unit (name, attribs IN ORDER, dimension, intent, optional,
       permission, parameter, initial) or the exception must equal `c01.attrs` (FordModel/Attribs.lean) EXACTLY.
attrq  (property oracle, independent of the model) an abstract list of entities, each with its own set of
       attributes, array specification, intent and OPTIONAL, is written in two equivalent spellings:
         A  entities of one type share declaration statements; what they do not share (and now and then what they
            do share) is given by attribute statements naming exactly the entities concerned, in any order;
         B  one declaration statement per entity with everything on the declaration.
       FORD must report, for both spellings, every entity exactly once with exactly its own attributes (so the two
       spellings are documented identically, and nothing given for one entity reaches another).
"""
from __future__ import annotations

import re

from . import common

# ------------------------------------------------------------------ stream attrs (correspondence)

TYPES = ["integer", "real", "real(8)", "character(len=3)", "logical", "type(tt)", "double precision", "complex(kind=dp)"]
NAMES = ["xa", "xb", "xc", "yd", "Ye", "ZF", "w_1", "w_2", "n", "kk", "pointer_n", "save_me"]
INLINE = ["save", "SAVE", "Save", "target", "TARGET", "volatile", "asynchronous", "value", "contiguous", "allocatable",
          "ALLOCATABLE", "pointer", "Pointer", "dimension(3)", "dimension(:)", "DIMENSION (2,3)", "dimension( n )",
          "optional", "OPTIONAL", "parameter", "Parameter", "intent(in)", "intent (out)", "INTENT( in out )",
          "intent(inout)", "Intent (In)", "public", "private", "PROTECTED", "bind(c)", "external", "EXTERNAL",
          "intrinsic", "codimension[*]", "dimension(pointer_n)"]
# keyword-like words of the working tree's ford/sourceform.py (translate/c01.py `vocabulary`), set by harness/c01.py
VOCAB: list = []


def pick_inline(rng):
    if VOCAB and rng.random() < 0.12:
        w = rng.choice(VOCAB)
        return w.upper() if rng.random() < 0.3 else w
    return rng.choice(INLINE)


STMT_KW = ["save", "SAVE", "target", "Target", "volatile", "VOLATILE", "asynchronous", "value", "optional", "Optional",
           "external", "EXTERNAL", "public", "private", "Protected", "intent(in)", "intent (out)", "INTENT( inout )",
           "Intent(In)", "dimension", "DIMENSION", "allocatable", "Allocatable", "pointer", "POINTER", "parameter",
           "PARAMETER", "bind(c)", "BIND (C)", "bind(c,name=cname)", "data"]
DIMS = ["(3)", "(:)", "(2,3)", "(n)", "( 4 )", "(0:n-1)", "(pointer_n)", "(*)", "(:, :)"]
INITS = ["1", "n+1", "2*3", "-4", ".true.", "1.0e0", "(n+1)*2", "kk"]
UNITS = ["module", "program", "subroutine", "function", "blockdata"]


def gen_attr_case(rng):
    """(unit kind, [statement]); a statement is ("D", type, [attr text], [(name, dims, init)]) or ("A", kw, sep, rest)"""
    unit = rng.choice(UNITS)
    stmts = []
    declared = []
    pool = list(NAMES)
    rng.shuffle(pool)
    n_decl = rng.choice([1, 1, 2, 2, 3, 4])
    n_attr = rng.choice([0, 1, 2, 3, 3, 4, 6])
    plan = ["D"] * n_decl + ["A"] * n_attr
    # mostly declarations first (as in real code), sometimes any order
    if rng.random() < 0.35:
        rng.shuffle(plan)
    for kind in plan:
        if kind == "D":
            ents = []
            for _ in range(rng.choice([1, 2, 2, 3])):
                if pool and rng.random() < 0.95:
                    nm = pool.pop()
                elif declared:
                    nm = rng.choice(declared)  # declared twice (ill-formed): first declaration takes the attributes
                else:
                    continue
                dims = rng.choice(DIMS) if rng.random() < 0.3 else ""
                init = rng.choice(INITS) if rng.random() < 0.25 else None
                ents.append((nm, dims.replace(" ", ""), init))
                declared.append(nm)
            if not ents:
                continue
            attrs = [pick_inline(rng) for _ in range(rng.choice([0, 0, 1, 1, 2, 3]))]
            stmts.append(("D", rng.choice(TYPES), attrs, ents))
        else:
            kw = rng.choice(STMT_KW)
            low = kw.lower().replace(" ", "")
            items = []
            for _ in range(rng.choice([1, 1, 2, 3])):
                r = rng.random()
                if r < 0.8 and (declared or pool):
                    nm = rng.choice(declared) if declared and rng.random() < 0.8 else rng.choice(NAMES)
                else:
                    nm = rng.choice(["undeclared", "/blk/", "zz9"])
                nm = nm if rng.random() < 0.7 else (nm.upper() if rng.random() < 0.5 else nm.capitalize())
                if low in ("dimension", "allocatable", "pointer"):
                    if rng.random() < (0.9 if low == "dimension" else 0.5):
                        nm += rng.choice(["", " "]) + rng.choice(DIMS)
                elif low == "parameter":
                    if rng.random() < 0.97:
                        nm += rng.choice([" = ", "=", " ="]) + rng.choice(INITS + ["n == 1"])
                elif low == "data":
                    nm += " /1/"
                elif rng.random() < 0.08:
                    nm += rng.choice(DIMS)  # `target :: a(3)` (legal for TARGET; FORD files it under `a(3)`)
                items.append(nm)
            rest = rng.choice([", ", ",", " , "]).join(items)
            if low == "parameter":
                sep = rng.choice([" ", "", "  "])
                rest = "(" + rng.choice(["", " "]) + rest + rng.choice(["", " "]) + ")"
            elif low == "data":
                sep = " "
            else:
                sep = rng.choice([" ", " :: ", "::", "  ", " ::"])
            stmts.append(("A", kw, sep, rest))
    if not any(s[0] == "D" for s in stmts):
        stmts.insert(0, ("D", "integer", [], [(NAMES[0], "", None)]))
    return unit, stmts


def render_attr_case(unit, stmts):
    head, tail = {
        "module": ("module m_attr", "end module m_attr"),
        "program": ("program p_attr", "end program p_attr"),
        "subroutine": ("subroutine s_attr", "end subroutine s_attr"),
        "function": ("function f_attr()", "end function f_attr"),
        "blockdata": ("block data bd_attr", "end block data bd_attr"),
    }[unit]
    lines = [head]
    for s in stmts:
        if s[0] == "D":
            _, typ, attrs, ents = s
            lines.append("  " + typ + "".join(", " + a for a in attrs) + " :: "
                         + ", ".join(n + d + (" = " + i if i is not None else "") for n, d, i in ents))
        else:
            _, kw, sep, rest = s
            lines.append("  " + kw + sep + rest)
    lines.append(tail)
    return "\n".join(lines) + "\n"


_CFG = None


def probe_cfg():
    """Which variant of four places the working tree has (unrepaired / repaired, see the open findings
    C01-attr-stmt-blank-before-paren, C01-target-stmt-array-spec, C01-external-keyword-case,
    C01-parameter-stmt-relational); decided by running the real code once:
    (stripName, targetDims, extAnyCase, paramJoin) as "0"/"1"."""
    global _CFG
    if _CFG is None:
        common.import_ford()
        from ford.settings import ProjectSettings
        from ford.sourceform import FortranSourceFile

        with common.scratch_dir("ford-probe-") as d:
            f = d / "probe.f90"
            f.write_text("module probe_m\n  real :: a, b\n  target :: a(3)\n  dimension b (2)\n  real, EXTERNAL :: f1\n  logical :: q\n"
                         "  parameter (q = 1 == 2)\nend module probe_m\n")
            with common.quiet():
                src = FortranSourceFile(str(f), ProjectSettings())
            vs = {v.name.lower(): v for v in src.modules[0].variables}
        _CFG = ["1" if vs["b"].attribs else "0", "1" if vs["a"].attribs else "0", "0" if "f1" in vs else "1",
                "1" if "==" in (vs["q"].initial or "") else "0"]
    return _CFG


def model_request(unit, stmts):
    req = ["c01.attrs", *probe_cfg(), "1" if unit == "blockdata" else "0", "public"]
    for s in stmts:
        if s[0] == "D":
            _, typ, attrs, ents = s
            req.append("D|" + "~".join(attrs) + "|" + "~".join("%s^%s^%s" % (n, d, "-" if i is None else "+" + i) for n, d, i in ents))
        else:
            _, kw, sep, rest = s
            req.append("A|" + kw + "|" + rest)
    return req


def unit_of(fobj, unit):
    lst = {"module": fobj.modules, "program": fobj.programs, "subroutine": fobj.subroutines, "function": fobj.functions,
           "blockdata": fobj.blockdata}[unit]
    return lst[0]


def obs_vars(u):
    out = []
    for v in u.variables:
        out.append([str(v.name), [str(a) for a in v.attribs], str(v.dimension or ""), str(v.intent or ""), bool(v.optional),
                    str(v.permission), bool(v.parameter), None if v.initial is None else str(v.initial)])
    return out


def parse_model(resp):
    if resp[0] == "exc":
        return ("exc", resp[1])
    if resp[0] != "ok":
        return ("bad", resp)
    out = []
    for f in resp[1:]:
        if f == "" and len(resp) == 2:
            continue
        p = f.split("^")
        if len(p) != 8:
            return ("bad", resp)
        out.append([p[0], p[1].split("~") if p[1] else [], p[2], p[3], p[4] == "1", p[5], p[6] == "1",
                    None if p[7] == "-" else p[7][1:]])
    return ("ok", out)


def run_attrs(drv, ford, rng, n, rep, d, distinct):
    from ford.settings import ProjectSettings
    from ford.sourceform import FortranSourceFile

    cases = [gen_attr_case(rng) for _ in range(n)]
    model = drv.batch([model_request(u, s) for u, s in cases])
    stats = {"cases": n, "variant_stripName_targetDims_extAnyCase_paramJoin": "".join(probe_cfg()), "disagree": 0, "unmodelled": 0, "exceptions": 0, "units": {}, "with_attr_stmt_on_multi_entity_line": 0,
             "attr_statements": 0, "multi_entity_declarations": 0}
    p = d / "attrs.f90"
    for k, ((unit, stmts), mo) in enumerate(zip(cases, model)):
        text = render_attr_case(unit, stmts)
        p.write_text(text)
        stats["units"][unit] = stats["units"].get(unit, 0) + 1
        stats["attr_statements"] += sum(1 for s in stmts if s[0] == "A")
        multi = [set(e[0].lower() for e in s[3]) for s in stmts if s[0] == "D" and len(s[3]) > 1 and s[2]]
        stats["multi_entity_declarations"] += len(multi)
        named = set()
        for s in stmts:
            if s[0] == "A":
                named |= set(re.findall(r"\w+", s[3].lower()))
        if any(0 < len(g & named) < len(g) for g in multi):
            stats["with_attr_stmt_on_multi_entity_line"] += 1
        distinct.add(common.digest(text))
        try:
            with common.quiet():
                fobj = FortranSourceFile(str(p), ProjectSettings())
            im = ("ok", obs_vars(unit_of(fobj, unit)))
        except IndexError:
            im = ("exc", "indexError")
            stats["exceptions"] += 1
        except Exception as e:  # noqa
            im = ("exc", "other:%s:%s" % (type(e).__name__, str(e)[:80]))
            stats["exceptions"] += 1
        mt = parse_model(mo)
        if list(im) != list(mt):
            stats["disagree"] += 1
            rep.tie_broken("correspondence attrs: model and implementation differ on case %d (%s)" % (k, unit),
                           {"stream": "attrs", "unit": unit, "text": text, "impl": im, "model": mt})
    return stats


# ------------------------------------------------------------------ stream attrq (property oracle)

Q_TYPES = ["integer", "real", "real(8)", "logical", "character(len=4)", "double precision"]
Q_ATTRS = ["save", "target", "volatile", "asynchronous", "allocatable", "pointer"]
Q_ARG_ATTRS = ["target", "volatile", "asynchronous", "value", "allocatable", "pointer", "contiguous"]
Q_DIMS = ["(3)", "(2,3)", "(n)", "(0:4)"]
Q_DEFERRED = ["(:)", "(:,:)"]
Q_NAMES = ["alpha", "beta", "gamma", "delta", "eps", "zeta", "eta", "theta", "iota", "kappa", "lam", "mu"]
# attributes a separate attribute statement can give (the others are only written on the declaration)
Q_STMT = ("save", "target", "volatile", "asynchronous", "allocatable", "pointer", "value", "external")


def gen_entities(rng):
    """abstract specification part: a unit kind and entities {name, type, attrs(set), dims, intent, optional}"""
    unit = rng.choice(["module", "program", "subroutine", "function", "blockdata"])
    names = rng.sample(Q_NAMES, rng.choice([2, 3, 3, 4, 5, 6]))
    ents = []
    typ = rng.choice(Q_TYPES)
    is_args = unit in ("subroutine", "function")
    for nm in names:
        if rng.random() < 0.4:
            typ = rng.choice(Q_TYPES)
        e = {"name": nm, "type": typ, "attrs": [], "dims": "", "intent": "", "optional": False, "arg": is_args and rng.random() < 0.6}
        pool = Q_ARG_ATTRS if e["arg"] else Q_ATTRS
        if unit == "blockdata":
            pool = ["save", "target", "volatile"]
        for a in rng.sample(pool, rng.choice([0, 1, 1, 2, 2, 3])):
            if a == "pointer" and ("allocatable" in e["attrs"] or "target" in e["attrs"]):
                continue
            if a in ("allocatable", "target") and "pointer" in e["attrs"]:
                continue
            if a == "value" and e["attrs"]:
                continue
            if a == "contiguous" and "pointer" not in e["attrs"]:
                continue
            e["attrs"].append(a)
        if "allocatable" in e["attrs"] or "pointer" in e["attrs"]:
            if rng.random() < 0.7 or "contiguous" in e["attrs"]:
                e["dims"] = rng.choice(Q_DEFERRED)
        elif "value" not in e["attrs"] and rng.random() < 0.4:
            e["dims"] = rng.choice(Q_DIMS)
        if e["arg"]:
            e["intent"] = rng.choice(["", "in", "out", "inout"]) if "value" not in e["attrs"] else rng.choice(["", "in"])
            e["optional"] = rng.random() < 0.3
        elif unit != "blockdata" and rng.random() < 0.08:
            # `real, external :: f` / `external f` declares an external function, not a variable: FORD keeps external
            # procedures out of the variable list, whatever the spelling
            e["attrs"], e["dims"], e["absent"] = ["external"], "", True
        ents.append(e)
    return unit, ents


def _kw(rng, s):
    r = rng.random()
    return s if r < 0.6 else (s.upper() if r < 0.8 else s.capitalize())


def _id(rng, s):
    r = rng.random()
    return s if r < 0.75 else (s.upper() if r < 0.9 else s.capitalize())


def render_entities_grouped(rng, ents):
    """spelling A: shared declaration statements + attribute statements (any order after the declaration)"""
    decls, stmts = [], []
    i = 0
    while i < len(ents):
        group = [ents[i]]
        i += 1
        while i < len(ents) and len(group) < 4 and ents[i]["type"] == group[0]["type"] and rng.random() < 0.75:
            group.append(ents[i])
            i += 1
        names = [_id(rng, e["name"]) for e in group]
        inline = []
        dims_done = set()

        def stmt(kw, who, with_dims=False):
            items = []
            for n in who:
                e = group[names.index(n)]
                if with_dims and e["dims"] and n not in dims_done and rng.random() < 0.4:
                    # `allocatable :: a(:)` / `pointer b(:,:)` / `target c(3)`: the array specification on the attribute statement
                    dims_done.add(n)
                    items.append(n + rng.choice(["", "", "", "", " "]) + e["dims"])
                else:
                    items.append(n)
            if len(items) > 1 and rng.random() < 0.35:
                for it in items:
                    stmts.append(kw + rng.choice([" :: ", " ", "::"]) + it)
            else:
                stmts.append(kw + rng.choice([" :: ", " ", "::"]) + rng.choice([", ", ","]).join(items))

        dims = {e["dims"] for e in group}
        shared_dim = len(dims) == 1 and bool(group[0]["dims"]) and rng.random() < 0.4
        all_attrs = []
        for e in group:
            for a in e["attrs"]:
                if a not in all_attrs:
                    all_attrs.append(a)
        for a in all_attrs:
            who = [n for n, e in zip(names, group) if a in e["attrs"]]
            if len(who) == len(group) and (a not in Q_STMT or rng.random() < 0.75):
                inline.append(_kw(rng, a))
            elif a in Q_STMT:
                stmt(_kw(rng, a), who, with_dims=((a in ("allocatable", "pointer") or a == "target" and rng.random() < 0.3) and not shared_dim))
            else:
                return None  # an attribute without a statement form that not every entity of the line has
        intents = {e["intent"] for e in group}
        if len(intents) == 1 and group[0]["intent"] and rng.random() < 0.75:
            inline.append(_kw(rng, "intent") + rng.choice(["", " "]) + "(" + _kw(rng, group[0]["intent"]) + ")")
        else:
            for it in sorted(x for x in intents if x):
                stmt(_kw(rng, "intent") + rng.choice(["", " "]) + "(" + rng.choice(["", " "]) + _kw(rng, it) + rng.choice(["", " "]) + ")",
                     [n for n, e in zip(names, group) if e["intent"] == it])
        opts = [n for n, e in zip(names, group) if e["optional"]]
        if opts and len(opts) == len(group) and rng.random() < 0.75:
            inline.append(_kw(rng, "optional"))
        elif opts:
            stmt(_kw(rng, "optional"), opts)
        if shared_dim:
            inline.append(_kw(rng, "dimension") + rng.choice(["", " "]) + group[0]["dims"])
        parts, dim_items = [], []
        for n, e in zip(names, group):
            if e["dims"] and not shared_dim and n not in dims_done:
                if rng.random() < 0.4:
                    dim_items.append(n + rng.choice(["", "", "", "", " "]) + e["dims"])
                    parts.append(n)
                else:
                    parts.append(n + e["dims"])
            else:
                parts.append(n)
        if dim_items:
            stmts.append(_kw(rng, "dimension") + rng.choice([" :: ", " "]) + rng.choice([", ", ","]).join(dim_items))
        rng.shuffle(inline)
        decls.append(group[0]["type"] + "".join(rng.choice([", ", ","]) + a for a in inline) + rng.choice([" :: ", "::", " ::  "])
                     + rng.choice([", ", ",", " , "]).join(parts))
    # attribute statements and type declaration statements may stand in any order in a specification part
    rng.shuffle(stmts)
    if rng.random() < 0.5:
        return decls + stmts
    out = list(decls)
    for s in stmts:
        out.insert(rng.randrange(0, len(out) + 1), s)
    return out


def render_entities_single(rng, ents):
    """spelling B: one declaration per entity, everything on the declaration"""
    lines = []
    for e in ents:
        inline = [_kw(rng, a) for a in e["attrs"]]
        if e["intent"]:
            inline.append(_kw(rng, "intent") + "(" + _kw(rng, e["intent"]) + ")")
        if e["optional"]:
            inline.append(_kw(rng, "optional"))
        nm = _id(rng, e["name"])
        if e["dims"] and rng.random() < 0.5:
            inline.append(_kw(rng, "dimension") + e["dims"])
        elif e["dims"]:
            nm += e["dims"]
        rng.shuffle(inline)
        lines.append(e["type"] + "".join(", " + a for a in inline) + " :: " + nm)
    return lines


def wrap_unit(unit, ents, body):
    args = ", ".join(e["name"] for e in ents if e["arg"])
    head, tail = {
        "module": ("module m_q", "end module m_q"),
        "program": ("program p_q", "end program p_q"),
        "subroutine": ("subroutine s_q(%s)" % args, "end subroutine s_q"),
        "function": ("function f_q(%s) result(res_q)" % args, "end function f_q"),
        "blockdata": ("block data bd_q", "end block data bd_q"),
    }[unit]
    return "\n".join([head] + ["  " + ln for ln in body] + [tail]) + "\n"


def nsp(s):
    return "".join(str(s or "").split()).lower()


def expected_entities(ents):
    return {e["name"]: {"attribs": sorted(e["attrs"]), "dims": nsp(e["dims"]), "intent": e["intent"], "optional": e["optional"],
                        "type": nsp(e["type"].split("(")[0]), "absent": bool(e.get("absent"))} for e in ents}


def observe_entities(u):
    """name -> list of observations (a list so that a duplicate is visible)"""
    vs = list(u.variables) + [a for a in getattr(u, "args", []) if hasattr(a, "vartype")]
    out = {}
    for v in vs:
        attribs, dims, intent, optional = [], nsp(v.dimension), v.intent or "", bool(v.optional)
        for a in (nsp(x) for x in v.attribs):
            if a.startswith("dimension("):
                dims = a[len("dimension"):]
            elif a == "optional":
                optional = True
            elif a.startswith("intent("):
                intent = a[7:-1]
            else:
                attribs.append(a)
        out.setdefault(v.name.lower(), []).append({"attribs": sorted(attribs), "dims": dims, "intent": intent, "optional": optional,
                                                   "type": nsp(v.vartype)})
    return out


def _top_split(s):
    out, cur, lv = [], "", 0
    for c in s:
        if c in "([":
            lv += 1
        elif c in ")]":
            lv -= 1
        if c == "," and lv == 0:
            out.append(cur)
            cur = ""
        else:
            cur += c
    return out + [cur]


ATTR_STMT_RE = re.compile(r"\s*(dimension|allocatable|pointer|target)\b\s*(?:::)?\s*(.*)$", re.I)
EXT_DECL_RE = re.compile(r"^[^:]*,\s*(external)\s*(?:,[^:]*)?::(.*)$", re.I)


def classify_entity(text, name, field, missing, extra):
    """known defect classes, decided from the source text and the failing entity (None: not a listed class)"""
    for ln in text.splitlines():
        m = ATTR_STMT_RE.match(ln)
        if m and field in ("dims", "attribs") and not extra:
            kw = m.group(1).lower()
            for item in _top_split(m.group(2)):
                mm = re.match(r"(\w+)(\s*)(\(.*\))?\s*$", item.strip())
                if not mm or mm.group(1).lower() != name or not mm.group(3):
                    continue
                if kw != "target" and mm.group(2) and (field == "dims" or missing <= {kw}):
                    return "C01-attr-stmt-blank-before-paren"
                if kw == "target" and (field == "dims" or missing <= {"target"}):
                    return "C01-target-stmt-array-spec"
        m = EXT_DECL_RE.match(ln)
        if m and field == "absent" and m.group(1) != "external" \
                and name in [re.match(r"\s*(\w*)", x).group(1).lower() for x in _top_split(m.group(2))]:
            return "C01-external-keyword-case"
    return None


def check_entities(ford, text, unit, ents, p):
    """[(why, finding class or None)] - every entity is checked, so that a listed defect on one entity does not hide
    an unlisted difference on another"""
    from ford.settings import ProjectSettings
    from ford.sourceform import FortranSourceFile

    p.write_text(text)
    try:
        with common.quiet() as buf:
            fobj = FortranSourceFile(str(p), ProjectSettings())
    except Exception as e:  # noqa
        return [("FORD failed on valid input: %s: %s" % (type(e).__name__, str(e)[:100]), None)]
    if "ERROR in file" in buf.getvalue():
        return [("diagnostic on valid input: " + buf.getvalue().strip().splitlines()[0][:120], None)]
    obs = observe_entities(unit_of(fobj, unit))
    exp = expected_entities(ents)
    fails = []
    for nm, ex in exp.items():
        got = obs.get(nm)
        if ex["absent"]:
            if got:
                fails.append(("entity %s is an external procedure (no variable) but is reported as a variable" % nm,
                              classify_entity(text, nm, "absent", set(), set())))
            continue
        if not got:
            fails.append(("entity %s is not reported" % nm, None))
            continue
        if len(got) > 1:
            fails.append(("entity %s is reported %d times" % (nm, len(got)), None))
            continue
        for k in ("type", "attribs", "dims", "intent", "optional"):
            if got[0][k] != ex[k]:
                missing = set(ex["attribs"]) - set(got[0]["attribs"])
                extra = set(got[0]["attribs"]) - set(ex["attribs"])
                fails.append(("entity %s: %s declared %r reported %r" % (nm, k, ex[k], got[0][k]),
                              classify_entity(text, nm, k, missing, extra)))
                break
    extra = sorted(set(obs) - set(exp))
    if extra:
        fails.append(("undeclared entities reported: %s" % extra, None))
    return fails


def run_attrq(ford, rng, n, rep, d, distinct):
    stats = {"cases": 0, "oracle_fail": 0, "spellings": 0, "statements_naming_part_of_a_line": 0, "by_class": {}}
    p = d / "attrq.f90"
    for k in range(n):
        unit, ents = gen_entities(rng)
        body_a = None
        for _ in range(5):
            body_a = render_entities_grouped(rng, ents)
            if body_a is not None:
                break
        body_b = render_entities_single(rng, ents)
        stats["cases"] += 1
        for tag, body in (("A", body_a), ("B", body_b)):
            if body is None:
                continue
            text = wrap_unit(unit, ents, body)
            distinct.add(common.digest(text))
            stats["spellings"] += 1
            if tag == "A":
                stats["statements_naming_part_of_a_line"] += sum(
                    1 for ln in body if re.match(r"(?i)\s*(save|target|volatile|asynchronous|allocatable|pointer|value|optional|intent|dimension)\b", ln))
            fails = check_entities(ford, text, unit, ents, p)
            # one report per distinct class; the unlisted differences first
            seen = set()
            for why, fid in sorted(fails, key=lambda x: x[1] is not None):
                if fid in seen:
                    continue
                seen.add(fid)
                stats["oracle_fail"] += 1
                stats["by_class"][fid or "unlisted"] = stats["by_class"].get(fid or "unlisted", 0) + 1
                rep.failing_input({"stream": "attrq", "case": k, "spelling": tag, "unit": unit, "why": why, "text": text,
                                   "entities": ents}, fid)
    return stats
