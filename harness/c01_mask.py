"""C01, streams `mask`, `restore`, `lits`: the string-literal masking of FortranContainer.__init__ and the loop of
line_to_variables that puts the literals back, against the Lean model FordModel/Mask.lean, plus the property oracle
on declarations that are dense in character literals.

mask    (correspondence) one-statement files `integer :: <payload>`: at file level the statement is rejected with the
        diagnostic "Unexpected variable ...:\n\t<masked line>" and the source-file object keeps `strings` of its
        last statement, so both outputs of the real masking loop are observed in-process and compared EXACTLY with
        `c01.mask` on the line the real reader delivered.
restore (correspondence) the real `line_to_variables` is called on `integer :: x=<text>` with a parent whose
        `strings` are chosen by the generator; the `initial` of the variable (or the exception class) must equal
        `c01.restore`.
lits    (property oracle, independent of the model) modules whose declarations carry initial values built from
        character literals (several per statement, several entities per statement, both quote characters, contents
        that look like the internal placeholders, doubled quotes, `!`, `;`, `&` inside literals): FORD must report
        every declared entity exactly once with exactly the declared initial value.
"""
from __future__ import annotations

import re

from . import common

# ------------------------------------------------------------------ literals

DIGITY = ["0", "1", "2", "3", "0", "1", "10", "11", "00", "01", "7"]
WORDS = ["yes", "no", "abc", "x y", "a  b", " lead", "trail ", "it's", 'say "hi"', "a, b", "(/ 1 /)", "k = 1", "!bang",
         "a;b", "amp&", "", " ", "q", "::", "100%", "a\\b", "\\1", "[0]", "'", '"', "''", '""', "0\"1", "1'0"]


def gen_content(rng):
    r = rng.random()
    if r < 0.5:
        return rng.choice(DIGITY)
    if r < 0.9:
        return rng.choice(WORDS)
    return "".join(rng.choice("01 ab'\"!;,=()") for _ in range(rng.randrange(0, 6)))


def lit_text(content, q):
    return q + content.replace(q, q + q) + q


def gen_lit(rng):
    return lit_text(gen_content(rng), rng.choice("'\"\""))


# ------------------------------------------------------------------ stream mask

PLAIN = list("abxn019 ,()[]/+=*_.:%<>-")


def gen_plain(rng, lo=0):
    if rng.random() < 0.5:
        return rng.choice([" ", ", ", " // ", " = ", "(", ")", "[", "]", "/)", "(/ ", "x", "n+1", " == ", "b(2) = "])
    return "".join(rng.choice(PLAIN) for _ in range(rng.randrange(lo, 5)))


def gen_payload(rng):
    """well-quoted text (plain pieces and complete literals, a non-empty plain piece between two literals), its 1-point
    mutations (quote characters inserted / deleted: ill-quoted text, adjacent literals) and junk"""
    mode = rng.random()
    n = rng.choice([0, 1, 2, 2, 3, 3, 4, 6, 12])
    s = "x" + gen_plain(rng)
    for i in range(n):
        s += gen_lit(rng)
        s += gen_plain(rng, 1) if i < n - 1 else gen_plain(rng)
    if mode < 0.7:
        return "wellquoted", s
    if mode < 0.93:
        for _ in range(rng.choice([1, 1, 2])):
            i = rng.randrange(len(s) + 1)
            r = rng.random()
            if r < 0.45:
                s = s[:i] + rng.choice("'\"\"'0 ") + s[i:]
            elif r < 0.8 and s:
                i = min(i, len(s) - 1)
                s = s[:i] + s[i + 1:]
            else:
                i = min(i, len(s) - 1)
                s = s[:i] + rng.choice("'\"0x") + s[i + 1:]
        return "mutated", s
    return "junk", "".join(rng.choice("'\"'\"01 ax,=") for _ in range(rng.randrange(0, 14)))


DIAG_RE = re.compile(r"Unexpected variable in sourcefile '[^\n]*':\n\t([^\n]*)\n")


def reader_lines(ford, path):
    from ford.reader import FortranReader
    from ford.settings import ProjectSettings

    s = ProjectSettings()
    return list(FortranReader(str(path), s.docmark, s.predocmark, s.docmark_alt, s.predocmark_alt, False,
                              s.fixed_length_limit, None, s.macro, s.include, s.encoding))


def impl_mask(ford, path, text):
    """(reader line, masked line, strings) of the real code, or a reason why it cannot be observed"""
    from ford.settings import ProjectSettings
    from ford.sourceform import FortranSourceFile

    path.write_text(text)
    try:
        with common.quiet():
            lines = reader_lines(ford, path)
    except Exception as e:  # noqa
        return None, "reader:" + type(e).__name__
    if len(lines) != 1:
        return None, "reader-lines:%d" % len(lines)
    with common.quiet() as buf:
        try:
            f = FortranSourceFile(str(path), ProjectSettings())
        except Exception as e:  # noqa
            return (lines[0], "exc", type(e).__name__), None
    m = DIAG_RE.findall(buf.getvalue())
    if len(m) != 1:
        return None, "no-diagnostic"
    return (lines[0], m[0], list(f.strings)), None


def run_mask(drv, ford, rng, n, rep, d, distinct=None):
    st = {"cases": 0, "disagree": 0, "unobservable": {}, "unmodelled": 0, "kinds": {}, "literals_per_line": {},
          "placeholder_like_literal_after_first": 0}
    cases = []
    for k in range(n):
        kind, payload = gen_payload(rng)
        text = "integer :: " + payload + "\n"
        obs, why = impl_mask(ford, d / ("k%d.f90" % (k % 16)), text)
        if obs is None:
            st["unobservable"][why] = st["unobservable"].get(why, 0) + 1
            continue
        cases.append((kind, text, obs))
        if distinct is not None:
            distinct.add(common.digest(["mask", text]))
    answers = drv.batch([["c01.mask", obs[0]] for _, _, obs in cases])
    for (kind, text, obs), m in zip(cases, answers):
        st["cases"] += 1
        st["kinds"][kind] = st["kinds"].get(kind, 0) + 1
        if m[0] == "err" and m[1] in ("fuel", "unmodelled"):
            st["unmodelled"] += 1
            continue
        if obs[1] == "exc":
            im = ["err", {"AttributeError": "attrErr"}.get(obs[2], obs[2])]
        else:
            im = ["ok", obs[1]] + obs[2]
            nl = len(obs[2])
            st["literals_per_line"][nl] = st["literals_per_line"].get(nl, 0) + 1
            if any(re.fullmatch(r'"\d+"', s) and int(s[1:-1]) < i for i, s in enumerate(obs[2])):
                st["placeholder_like_literal_after_first"] += 1
        if list(m) != im:
            st["disagree"] += 1
            rep.tie_broken("correspondence mask: the masking loop of FortranContainer.__init__ and the Lean model Mask.mask "
                           "differ on %r" % obs[0], {"stream": "mask", "file_text": text, "reader_line": obs[0], "impl": im, "model": list(m)})
    return st


# ------------------------------------------------------------------ stream restore

class _Src:
    """what `read_docstring` needs from a reader: no documentation follows"""

    def __init__(self):
        self.back = []

    def __next__(self):
        return "end module"

    def __iter__(self):
        return self

    def pass_back(self, line):
        self.back.append(line)


def gen_restore(rng):
    nstr = rng.choice([0, 1, 2, 3, 3, 5, 11])
    strs = []
    for _ in range(nstr):
        r = rng.random()
        strs.append(gen_lit(rng) if r < 0.85 else rng.choice(["abc", "'", "'open", "x'y'", "", '"0', "0"]))
    s = rng.choice(["", "n//", "a+", "x"])
    for i in range(rng.choice([0, 1, 2, 2, 3, 4])):
        r = rng.random()
        if r < 0.75:
            inner = str(rng.randrange(0, max(1, nstr + (1 if rng.random() < 0.15 else 0))))
        elif r < 0.85:
            inner = rng.choice(["00", "01", "007", "12", "99"])
        else:
            inner = rng.choice(["", "a", "1a", "x1", "0.", "1/2", "٣", "1 ", "-1", "+0", "1_0", "'", "0''1", "abc"])
        q = '"' if rng.random() < 0.9 else "'"
        s += q + inner + q
        s += rng.choice(["//", "/", "+x", "a", "//b//", "*2", ".", ""] if rng.random() < 0.9 else ["'", '"', "\"0\""])
    if not s or s[0] == ">":
        s = "x" + s
    return s.replace(" ", ""), strs


EXC = {"ValueError": "valueErr", "IndexError": "indexErr", "AttributeError": "attrErr"}


def run_restore(drv, ford, rng, n, rep, d, distinct=None):
    import ford.sourceform as sf
    from ford.settings import ProjectSettings

    st = {"cases": 0, "disagree": 0, "unmodelled": 0, "outcomes": {}, "skipped_blank_or_split": 0}
    p = d / "restore_parent.f90"
    p.write_text("module holder\nend module holder\n")
    with common.quiet():
        parent = sf.FortranSourceFile(str(p), ProjectSettings()).modules[0]
    cases = []
    for _ in range(n):
        s, strs = gen_restore(rng)
        if " " in s or any(c in s for c in ",=()[]"):
            st["skipped_blank_or_split"] += 1
            continue
        cases.append((s, strs))
        if distinct is not None:
            distinct.add(common.digest(["restore", s, strs]))
    answers = drv.batch([["c01.restore", s] + strs for s, strs in cases])
    for (s, strs), m in zip(cases, answers):
        st["cases"] += 1
        if m[0] == "err" and m[1] in ("fuel", "unmodelled"):
            st["unmodelled"] += 1
            continue
        parent.strings = list(strs)
        try:
            with common.quiet():
                vs = sf.line_to_variables(_Src(), "integer :: x=" + s, "public", parent)
            im = ["ok", vs[0].initial] if len(vs) == 1 and vs[0].name == "x" else ["shape", repr([(v.name, v.initial) for v in vs])]
        except Exception as e:  # noqa
            im = ["err", EXC.get(type(e).__name__, type(e).__name__)]
        key = im[0] + (":" + im[1] if im[0] == "err" else "")
        st["outcomes"][key] = st["outcomes"].get(key, 0) + 1
        if list(m) != im:
            st["disagree"] += 1
            rep.tie_broken("correspondence restore: the literal-restoring loop of line_to_variables and the Lean model "
                           "Mask.restore differ on %r with strings %r" % (s, strs),
                           {"stream": "restore", "text": s, "strings": strs, "impl": im, "model": list(m)})
    return st


# ------------------------------------------------------------------ stream lits (property oracle)

REL = [" == ", " /= ", " >= ", " <= "]


def gen_expr(rng, want_array):
    """initial value built from literals; returns (source text, canonical parts [(is_literal, text)], length)"""
    lits = lambda k: [gen_lit(rng) for _ in range(k)]  # noqa
    if want_array:
        n = rng.choice([2, 2, 3, 3, 4])
        ls = lits(n)
        o, c = rng.choice([("[", "]"), ("(/ ", " /)"), ("[ ", " ]"), ("(/", "/)")])
        sep = rng.choice([", ", ",", " , "])
        parts = [(False, o)]
        for i, l in enumerate(ls):
            parts += [(True, l)] + ([(False, sep)] if i < n - 1 else [])
        parts.append((False, c))
        return parts, n
    r = rng.random()
    if r < 0.45:
        return [(True, gen_lit(rng))], 0
    if r < 0.75:
        ls = lits(rng.choice([2, 2, 3]))
        parts = []
        for i, l in enumerate(ls):
            parts += [(True, l)] + ([(False, rng.choice(["//", " // "]))] if i < len(ls) - 1 else [])
        return parts, 0
    if r < 0.9:
        f = rng.choice(["trim", "adjustl", "repeat"])
        a = gen_lit(rng)
        if f == "repeat":
            return [(False, "repeat("), (True, a), (False, ", 2)")], 0
        return [(False, f + "("), (True, a), (False, ") // "), (True, gen_lit(rng))], 0
    return [(False, "achar(48) // "), (True, gen_lit(rng))], 0


def gen_lits_module(rng, idx):
    """(text, expected {name: canonical initial}, features)"""
    lines = ["module lits%d" % idx, "  implicit none", "  integer, parameter :: n = 3"]
    expected = {"n": "3"}
    feats = set()
    k = 0
    for _ in range(rng.choice([1, 2, 3, 4])):
        form = rng.random()
        nent = rng.choice([1, 1, 2, 2, 3])
        ents = []
        if form < 0.85:
            head = rng.choice(["character(len=*), parameter", "character(*), parameter", "character(len=8)",
                               "character(8), save", "character(len=8), parameter", "CHARACTER(LEN=*), PARAMETER"])
            for _ in range(nent):
                k += 1
                name = "c%d" % k
                arr = rng.random() < 0.4
                parts, n = gen_expr(rng, arr)
                ents.append((name + ("(%d)" % n if arr else ""), name, parts))
        else:
            head = "logical, parameter"
            for _ in range(nent):
                k += 1
                name = "c%d" % k
                a, b = gen_lit(rng), gen_lit(rng)
                op = rng.choice(REL)
                if rng.random() < 0.5:
                    parts = [(False, "("), (True, a), (False, op), (True, b), (False, ")")]
                else:
                    parts = [(True, a), (False, op), (True, b)]
                    feats.add("relational-toplevel:" + name)
                ents.append((name, name, parts))
        eq = rng.choice([" = ", "=", "  =  "])
        stmt = "  " + head + rng.choice([" :: ", "::", " ::"]) + rng.choice([", ", ",", " , "]).join(
            e[0] + eq + "".join(t for _, t in e[2]) for e in ents)
        lines.append(stmt)
        for _, name, parts in ents:
            expected[name] = "".join(t if lit else "".join(t.split()) for lit, t in parts)
    lines.append("end module lits%d" % idx)
    return "\n".join(lines) + "\n", expected, feats


def split_literals(s):
    """[(is_literal, text)] of a Fortran expression text (own scanner: a literal runs from a quote character to the next
    single occurrence of the same character)"""
    out, i, cur = [], 0, ""
    while i < len(s):
        c = s[i]
        if c in "'\"":
            j = i + 1
            while j < len(s):
                if s[j] == c:
                    if j + 1 < len(s) and s[j + 1] == c:
                        j += 2
                        continue
                    break
                j += 1
            if j >= len(s):  # unterminated: rest is plain
                cur += s[i:]
                break
            if cur:
                out.append((False, cur))
                cur = ""
            out.append((True, s[i:j + 1]))
            i = j + 1
        else:
            cur += c
            i += 1
    if cur:
        out.append((False, cur))
    return out


def canon_initial(s):
    """blanks outside literals are not significant; inside literals only the no-break spaces FORD uses for HTML"""
    if s is None:
        return None
    return "".join(t.replace("\xa0", " ") if lit else "".join(t.split()) for lit, t in split_literals(str(s)))


LITS_FINDINGS = [
    ("C01-initial-relational-truncated", "relational-toplevel:"),
]


def run_lits(ford, rng, n, rep, d, distinct=None):
    from ford.settings import ProjectSettings
    from ford.sourceform import FortranSourceFile

    st = {"cases": 0, "oracle_fail": 0, "statements_with_2plus_literals": 0, "entities": 0,
          "placeholder_like_literal_after_first": 0}
    for k in range(n):
        text, expected, feats = gen_lits_module(rng, k)
        st["cases"] += 1
        if distinct is not None:
            distinct.add(common.digest(["lits", text]))
        for ln in text.splitlines():
            ls = [t for lit, t in split_literals(ln) if lit]
            if len(ls) >= 2:
                st["statements_with_2plus_literals"] += 1
            if any(re.fullmatch(r'"\d+"', s) and int(s[1:-1]) < i for i, s in enumerate(ls)):
                st["placeholder_like_literal_after_first"] += 1
        st["entities"] += len(expected)
        p = d / ("l%d.f90" % (k % 16))
        p.write_text(text)
        whys = []
        try:
            with common.quiet() as buf:
                f = FortranSourceFile(str(p), ProjectSettings())
            if len(f.modules) != 1:
                whys.append((None, "modules reported: %d, declared 1" % len(f.modules)))
            else:
                names = [v.name.lower() for v in f.modules[0].variables]
                if sorted(names) != sorted(expected):
                    whys.append((None, "variables reported %s, declared %s" % (sorted(names), sorted(expected))))
                for v in f.modules[0].variables:
                    nm = v.name.lower()
                    if nm in expected and canon_initial(v.initial) != expected[nm]:
                        whys.append((nm, "variable %s is declared with initial value %s but FORD reports %s"
                                     % (nm, expected[nm], v.initial)))
                if not whys and "ERROR in file" in buf.getvalue():
                    whys.append((None, "diagnostic on valid input: " + buf.getvalue().strip().splitlines()[0][:120]))
        except Exception as e:  # noqa
            whys.append((None, "FORD failed on valid input: %s: %s" % (type(e).__name__, str(e)[:100])))
        # one report per class (a known class must not hide another difference in the same file)
        seen = set()
        for nm, why in whys:
            fid = None
            if nm is not None and ("relational-toplevel:" + nm) in feats:
                fid = "C01-initial-relational-truncated"
            if fid in seen:
                continue
            seen.add(fid)
            st["oracle_fail"] += 1
            rep.failing_input({"stream": "lits", "index": k, "why": why, "features": sorted(feats), "text": text}, fid)
    return st
