"""Entry point: ./check <id> [--tier quick|thorough] [--replay file]"""
import argparse
import importlib
import sys
import traceback

from . import common


def main():
    ap = argparse.ArgumentParser()
    ap.add_argument("prop")
    ap.add_argument("--tier", default=None)
    ap.add_argument("--replay", default=None)
    a = ap.parse_args()
    tier = a.tier or common.tier_from_env()
    seed = common.seed_from_env()
    try:
        mod = importlib.import_module(f"harness.{a.prop.lower()}")
        code = mod.run(tier, seed, a.replay)
    except common.Infra as e:
        print(f"INFRA-ERROR {a.prop}: {e}")
        code = 2
    except Exception:
        traceback.print_exc()
        print(f"INFRA-ERROR {a.prop}: unexpected exception in the harness")
        code = 2
    sys.exit(code)


main()
