"""C05 - the site documents exactly the entities selected by the display options.

Streams
  micro   : `FortranBase._set_display` on a stub object vs the Lean `setDisplay` (exact).
  prune   : generated projects -> real `Project(settings)` + `correlate()`; which entities survive in
            which lists, their `visible` flags and the project page lists, compared exactly with the
            Lean model (`c05.prune`); the variant (file-level display inherited or not) is decided here.
            Property oracle on the surviving object tree: survivors == `selected` (Python spec).
            The generated comments carry `[[name]]` links (to entities of the same scope, of enclosing scopes,
            of USEd modules, anywhere; selected or not); each comment is converted by the project's real
            Markdown instance with the entity as context.  Correspondence: page each link points at == Lean
            `linksOf` (variant "link extension tests that the page is written" decided here).  Oracle: a link
            in a displayed comment points, if anywhere, at the page of a selected entity.
  e2e     : `ford.main` in-process (search on, graphs off in quick); every *.html and
            search/search_database.json is scanned for the per-entity tracer words.
            Correspondence: set of tracers found anywhere == model `shownIds`, page files == model pages
            (`sitePageIds`: page lists of the pruned units + the namelists collected when the files were read),
            and page by page the tracers in the file == what the model says that page shows (`pagesShown`).
            Property oracle: no tracer of an unselected entity anywhere; a selected entity's tracer on
            its parent's page; own page exists; every internal href resolves to an existing page; every
            rendered occurrence of a generated `[[...]]` link (attributed to its comment by a marker word)
            points at an existing page of a selected entity.
Round 3: a third generator pass (`c05_gen.extend`) adds block data units, common blocks, namelists, interface bodies
inside generic interfaces, declared function results and type extension to three of four cases; the model receives
`ext` per node and applies the inheritance step of `correlate` itself; oracle failures are classified per entity,
clause (leak / page / missing) and page.
"""
from __future__ import annotations

import json
import os
import random
import re
import time
from pathlib import Path

from . import c05_gen as G
from . import common
from .common import Driver, Report, lean_prove

PROP = "C05"

LISTS = ["modules", "submodules", "programs", "blockdata", "functions", "subroutines", "modprocedures",
         "types", "interfaces", "absinterfaces", "variables", "boundprocs", "finalprocs", "enums", "args",
         "common", "namelists"]
PAGE_LISTS = ["types", "absinterfaces", "procedures", "submodprocedures", "modules", "submodules", "programs",
              "blockdata", "namelists"]
WORD_CODE = G.WORD_CODE


# --------------------------------------------------------------------------- the specification (Python)
# Written from the property statement / user guide, independent of the model.

def spec_display_set(words, in_force, is_file):
    """The set of permissions a `display` metadata list denotes, or the set in force if it says nothing."""
    if words is None:
        return in_force
    ws = [w for w in words if not (is_file and w == "none")]
    if "none" in ws:
        return frozenset()
    known = frozenset(w for w in ws if w in G.WORDS)
    return known if known else in_force


# part of the parent's own description; carry no accessibility: dummy arguments, the function result, final
# procedures (and the interface bodies written inside a generic interface block, see `own_description`)
ALWAYS = ("arg", "finalproc", "retvar")
ARGLIKE = ("arg", "retvar")
# a common block has no accessibility of its own (`display` cannot deselect it; `hide_undoc` and
# `proc_internals` can)
NO_ACCESS = ("common",)


def own_description(parent, c):
    return c["kind"] in ALWAYS or (parent["kind"] == "generic" and c["kind"] in G.PROC_KINDS)


def spec_selected(P, below=None, inherited=None):
    """-> (selected ids, referenced ids): entities selected through the tree, and what a selected entity displays
    as part of its own description: the procedures (with their dummy arguments and result) a binding / generic
    interface / final names, the variables a namelist groups, the members an extending type inherits.
    `below` (optional dict) receives id -> display set in force below that selected entity, `inherited` (optional
    set) the ids of the members that selected extending types display."""
    cfg = P["config"]
    proj = frozenset() if "none" in cfg["display"] else frozenset(w for w in cfg["display"] if w in G.WORDS)
    sel = set()
    if below is None:
        below = {}

    def visit(e, inforce, parent=None):
        """e is selected; inforce = display set in force at e's parent"""
        sel.add(e["id"])
        if e["kind"] in G.PROC_KINDS and parent is not None and parent["kind"] in G.PROC_KINDS + ("generic",):
            # a procedure inside a procedure or inside a generic interface block has no page of its own: its
            # description is its doc, its dummy arguments and its result
            sel.update(c["id"] for c in e["children"] if c["kind"] in ARGLIKE)
            return
        mine = spec_display_set(e["disp"], inforce, e["kind"] == "file")
        below[e["id"]] = mine
        off = e["kind"] in G.PROC_KINDS and not (e["pint"] if e["pint"] is not None else cfg["proc_internals"])
        for c in e["children"]:
            if e["kind"] == "file" or own_description(e, c):
                visit(c, mine, e)
            elif off:
                continue
            elif (c["kind"] in NO_ACCESS or c["perm"] in mine) and (c["doc"] or not cfg["hide_undoc"]):
                visit(c, mine, e)

    for f in P["files"]:
        visit(f, proj)
    byid = G.index(P)
    ref = set()

    def refer(r):
        ref.add(r)
        ref.update(c["id"] for c in byid[r]["children"] if c["kind"] in ARGLIKE)

    for i in sel:
        for r in byid[i]["refs"]:
            refer(r)
    # an extending type displays the members it inherits under the display options in force in *it*
    for t, members in G.inherited_members(P).items():
        if t not in sel or t not in below:
            continue
        for i in members:
            m = byid[i]
            if m["perm"] in below[t] and (m["doc"] or not cfg["hide_undoc"]):
                ref.add(i)
                if inherited is not None:
                    inherited.add(i)
                for r in m["refs"]:
                    refer(r)
    return sel, ref


def has_own_page(e, byid):
    k = e["kind"]
    if k in ("file", "module", "program", "submodule", "blockdata"):
        return True
    par = byid.get(e["_parent"])
    if par is None:
        return False
    if par["kind"] == "file":
        return True
    if k == "namelist":
        # a namelist of a program, or of a procedure that has a page (module-level namelists are listed on
        # the module's page)
        return par["kind"] == "program" or (par["kind"] in G.PROC_KINDS and has_own_page(par, byid))
    return par["kind"] in ("module", "program", "submodule", "blockdata") and k in (
        "subroutine", "function", "type", "generic", "iface", "absint", "modproc")


# --------------------------------------------------------------------------- classification of failing inputs

SEARCH_DB = "search/search_database.json"


def nearest_page(e, byid):
    """page of the nearest ancestor (not the entity itself) that has one"""
    anc = byid.get(e["_parent"])
    while anc is not None and not has_own_page(anc, byid):
        anc = byid.get(anc["_parent"])
    return page_of(anc) if anc is not None else None


def namelist_collected(n, byid):
    """FORD writes a page for this namelist (`Project.namelists` is filled when the file is read, from programs
    and from procedures that stand directly in a file / module / submodule / program)"""
    return has_own_page(n, byid)


def classify(P, eid, what, mode="leak", page=None, sel=None, ref=None):
    """Known-finding class of an oracle failure about entity `eid`, or None.  `mode`: 'leak' (documentation of
    an unselected entity is kept / shown, on `page` if given), 'page' (a page exists for an unselected entity),
    'missing' (a selected entity is not described / has no page)."""
    byid = G.index(P)
    e = byid[eid]
    chain = []
    cur = e
    while cur is not None:
        chain.append(cur)
        cur = byid.get(cur["_parent"])
    if any(c["kind"] in ("enum", "enumerator") for c in chain):
        return "C05-enum-never-filtered"
    if sel is None:
        sel, ref = spec_selected(P)
    par = byid.get(e["_parent"])
    if e["kind"] == "namelist":
        if mode in ("leak", "page") and eid not in sel:
            ok = {page_of(e), nearest_page(e, byid), SEARCH_DB, "lists/namelists.html", None}
            if page in ok:
                return "C05-namelist-never-filtered"
        if mode == "missing" and eid in sel and par is not None and par["kind"] in ("module", "submodule"):
            return "C05-module-namelist-not-described"
    if mode == "leak" and eid not in sel:
        # a variable shown in the variable table of a namelist that should not be there itself
        for n in byid.values():
            if (eid not in (ref or ()) and n["kind"] == "namelist" and eid in n["refs"] and n["id"] not in sel
                    and namelist_collected(n, byid)):
                if page in (page_of(n), nearest_page(n, byid), SEARCH_DB, None):
                    return "C05-namelist-never-filtered"
        # a common block, or a variable that is a member of one
        if e["kind"] == "common" or (par is not None and par["kind"] == "common"):
            if page in (nearest_page(e, byid), SEARCH_DB, None):
                return "C05-common-never-filtered"
    f = chain[-1]
    if f["kind"] == "file" and f["disp"] is not None:
        cfg = P["config"]
        proj = frozenset() if "none" in cfg["display"] else frozenset(w for w in cfg["display"] if w in G.WORDS)
        if spec_display_set(f["disp"], proj, True) != proj:
            return "C05-file-display-not-inherited"
    return None


def classify_href(P, rel, href, sel):
    """Known-finding class of `page rel carries href, which does not exist`, or None.
    C05-inherited-binding-links-to-unselected-type: the href names the page of a type that is not selected, `rel`
    is the page of (or the page that summarises) a selected type that extends it - directly or through other
    types - and thereby carries one of its non-private bindings, whose name FORD links to the declaring type."""
    byid = G.index(P)
    tgt = os.path.normpath(os.path.join(os.path.dirname(rel), href.split("#")[0]))
    inh = G.inherited_members(P)
    for t1, members in inh.items():
        e1 = byid[t1]
        if t1 not in sel or rel not in (page_of(e1) if has_own_page(e1, byid) else None, nearest_page(e1, byid)):
            continue
        for i in members:
            m = byid[i]
            t0 = byid[m["_parent"]]
            if m["kind"] == "boundproc" and t0["id"] not in sel and has_own_page(t0, byid) and tgt == page_of(t0):
                return "C05-inherited-binding-links-to-unselected-type"
    # C05-blockdata-type-visible-before-prune: the href names the page of an unselected type of a block data unit
    # (`FortranBlockData.correlate` marked it visible) and stands on the page of that unit or of a type of the
    # unit that extends it, or in the list of all types (`extends(...)`, column "Extends")
    for t0 in byid.values():
        par = byid.get(t0["_parent"])
        if t0["kind"] != "type" or par is None or par["kind"] != "blockdata" or t0["id"] in sel or tgt != page_of(t0):
            continue
        for t1 in par["children"]:
            if t1["kind"] == "type" and t1.get("ext") == t0["id"] and t1["id"] in sel and rel in (page_of(t1), page_of(par), "lists/types.html"):
                return "C05-blockdata-type-visible-before-prune"
    return None


def referrer_of(P, i, sel, ref):
    """the unselected procedure displayed by reference whose description contains the comment of entity `i`
    (the procedure itself or one of its dummy arguments), or None"""
    byid = G.index(P)
    if i in sel or i not in ref:
        return None
    e = byid[i]
    if e["kind"] == "arg":
        e = byid[e["_parent"]]
    return e if e["kind"] in G.PROC_KINDS else None


def classify_link(P, ctx, k, page, sel, ref, incl_src=True):
    """Known-finding class of `link k of the comment of ctx points at `page`, which is no page of a selected
    entity`, or None."""
    byid = G.index(P)
    e = byid[ctx]
    tid = e["link_ids"][k]
    # (0) file pages are switched off, the link extension does not know
    if not incl_src and byid[tid]["kind"] == "file" and page == page_of(byid[tid]):
        return "C05-link-to-source-file-page-not-written"
    # (1) a binding / final procedure naming the procedure it binds: `bindings` / `procedure` hold the
    #     procedure object itself, whether or not it was selected
    if e["kind"] in ("boundproc", "finalproc") and any(r not in sel and page == page_of(byid[r]) for r in e["refs"]):
        return "C05-link-to-unselected-bound-procedure"
    # (2) the comment of an unselected procedure that is displayed by reference, naming one of that
    #     procedure's own children (its lists were never pruned; its page does not exist)
    r = referrer_of(P, ctx, sel, ref)
    if r is not None and page == page_of(r):
        t = byid[tid]
        cur = t
        while cur is not None and cur is not r:
            cur = byid.get(cur["_parent"])
        if cur is r:
            return "C05-link-inside-unselected-referenced-procedure"
    return classify(P, tid, "")


def allowed_pages(P, sel, files=True):
    """pages of the selected entities (what a link may point at)"""
    byid = G.index(P)
    return {page_of(byid[i]) for i in sel if has_own_page(byid[i], byid) and (files or byid[i]["kind"] != "file")}


def oracle_links(P, links, sel, ref):
    """Property oracle for the links (from the statement: "links never point at pages of unselected entities"):
    every link written in a comment that is displayed - the comment of a selected entity, or of a procedure /
    dummy argument displayed by reference - points, if anywhere, at the page of a selected entity.
    -> [(ctx, k, why)]"""
    byid = G.index(P)
    ok = allowed_pages(P, sel)
    fails = []
    for (i, k), page in sorted(links.items()):
        if i not in sel and i not in ref:
            continue
        e = byid[i]
        if isinstance(page, str) and page.startswith("error: "):
            fails.append((i, k, f"converting the comment of {e['kind']} {e['name']} with [[{e['links'][k]}]] failed: {page[7:]}"))
        elif page is not None and page not in ok:
            t = byid[e["link_ids"][k]]
            fails.append((i, k, f"[[{e['links'][k]}]] in the comment of {e['kind']} {e['name']} links to {page}: "
                                f"no page of a selected entity ({t['kind']} {t['name']} is "
                                f"{'selected' if t['id'] in sel else 'not selected'})"))
    return fails


# --------------------------------------------------------------------------- implementation side (objects)

def build_keys(P):
    """key -> id for the objects FORD creates"""
    byid = G.index(P)
    keys = {}
    for e in byid.values():
        k = e["kind"]
        if k == "file":
            keys[e["name"] + ".f90"] = e["id"]
        elif k == "modproc":
            keys["impl:" + e["name"]] = e["id"]
        elif k == "enum":
            keys["enum:" + (e["children"][0]["name"] if e["children"] else "")] = e["id"]
        elif k == "finalproc":
            keys["final:" + byid[e["_parent"]]["name"] + ":" + byid[e["refs"][0]]["name"]] = e["id"]
        else:
            keys[e["name"]] = e["id"]
    return keys


def key_of(obj, lst, parent):
    cn = type(obj).__name__
    if cn == "FortranEnum":
        return "enum:" + (obj.variables[0].name if obj.variables else "")
    if cn == "FortranFinalProc":
        return "final:" + parent.name + ":" + obj.name
    if cn == "FortranModuleProcedureImplementation":
        return "impl:" + obj.name
    return obj.name


def walk_objects(proj, keys, rep_unknown, objs=None):
    """-> list of (id, list name, visible, permission, documented, meta display) reachable through the lists;
    `objs` (optional dict) receives id -> object"""
    out = []
    seen = set()

    def visit(obj, lst, parent):
        k = key_of(obj, lst, parent)
        i = keys.get(k)
        if i is None:
            rep_unknown.append(f"{type(obj).__name__} {k!r} in {lst}")
            return
        if (i, lst) in seen:
            return
        seen.add((i, lst))
        if objs is not None:
            objs.setdefault(i, obj)
        md = getattr(getattr(obj, "meta", None), "display", None)
        out.append((i, lst, bool(getattr(obj, "visible", False)), getattr(obj, "permission", None),
                    bool(getattr(obj, "doc_list", [])), md))
        holder = obj
        if type(obj).__name__ == "FortranModuleProcedureInterface":
            holder = obj.procedure
        if type(obj).__name__ == "FortranNamelist":
            return  # `variables` of a namelist are references to variables of the enclosing scopes
        for l in LISTS:
            for ch in getattr(holder, l, None) or []:
                if isinstance(ch, str):
                    continue
                visit(ch, l, obj)
        # the declared result of a function (`result(r)`; an undeclared one is called like the function)
        rv = getattr(holder, "retvar", None)
        if rv is not None and not isinstance(rv, str) and getattr(rv, "name", None) != getattr(holder, "name", None):
            visit(rv, "retvar", obj)

    for f in proj.files:
        visit(f, "files", None)
    return out


def make_settings(ford, d, cfg, **kw):
    from ford.settings import ProjectSettings

    return ProjectSettings(src_dir=[d], display=list(cfg["display"]), proc_internals=cfg["proc_internals"],
                           hide_undoc=cfg["hide_undoc"], preprocess=False, dbg=False, **kw)


def impl_prune(ford, P, d: Path):
    """Parse + correlate with the real code.  -> dict(pre=..., post=..., pages=...) or dict(error=...)"""
    import ford.sourceform as sf
    from ford.fortran_project import Project

    for p in d.glob("*.f90"):
        p.unlink()
    for n, t in G.render_project(P).items():
        (d / n).write_text(t)
    keys = build_keys(P)
    sf.namelist = sf.NameSelector()
    unknown = []
    objs = {}
    try:
        with common.quiet():
            proj = Project(make_settings(ford, d, P["config"]))
            pre = walk_objects(proj, keys, unknown, objs)
            proj.correlate()
            post_objs = {}
            post = walk_objects(proj, keys, unknown, post_objs)
            links = impl_links(proj, objs, P)
            bind_links = impl_bind_links(post_objs, keys, P)
            node_urls = impl_node_urls(objs, P)
    except Exception as e:  # noqa
        return {"error": f"{type(e).__name__}: {e}"}
    pages = []
    for l in PAGE_LISTS:
        for obj in getattr(proj, l):
            i = keys.get(key_of(obj, l, None))
            if i is None:
                unknown.append(f"page list {l}: {obj.name!r}")
            else:
                pages.append(i)
    pages += [keys[f.name] for f in proj.files]
    return {"pre": pre, "post": post, "pages": sorted(pages), "unknown": unknown, "links": links,
            "bind_links": bind_links, "node_urls": node_urls}


_MACROS = {}
BIND_NAME_RE = re.compile(r"""<strong>\s*(?:<a\s+href=["']([^"']*)["']\s*>)?\s*([^<\s]+)\s*(?:</a>)?\s*</strong>""")


def macros_module(page_url):
    """`macros.html` of the FORD under test, loaded through FORD's own Jinja2 environment (its filters `relurl`,
    `meta`, its tests and globals) - as an overlay with the loader `Documentation.__init__` installs"""
    from translate import c05_probe as PR

    if "env" not in _MACROS:
        _MACROS["env"] = PR.template_env()
    return _MACROS["env"].get_template("macros.html").make_module({"page_url": page_url})


def impl_bind_links(post_objs, keys, P):
    """The summary card of every type that survived `prune()`, rendered by the real macro `type_summary` on the real
    objects: which binding names are links, and into the page of which type.
    -> sorted [(type id, binding id, id of the type whose page is linked | page path)] or 'error: ...'"""
    import pathlib

    byid = G.index(P)
    type_pages = {page_of(e): i for i, e in byid.items() if e["kind"] == "type"}
    out = set()
    mod = None
    _MACROS["types_rendered"] = 0
    for i, obj in sorted(post_objs.items()):
        if byid[i]["kind"] != "type" or not getattr(obj, "boundprocs", None):
            continue
        _MACROS["types_rendered"] += 1
        if mod is None:
            mod = macros_module(pathlib.Path(obj.base_url) / "module" / "x.html")
        names = {tb.name: keys.get(tb.name) for tb in obj.boundprocs if not isinstance(tb, str)}
        try:
            html = str(mod.type_summary(obj))
        except Exception as ex:  # noqa: BLE001
            return f"error: type_summary of {obj.name}: {type(ex).__name__}: {ex}"
        for m in BIND_NAME_RE.finditer(html):
            href, name = m.group(1), m.group(2).split("/")[-1]
            if name not in names or href is None or "#boundprocedure-" not in href:
                continue
            page = href_page(href, "module") if href.startswith("..") else os.path.normpath(href.split("#")[0])
            out.add((i, names[name], type_pages.get(page, page)))
    return sorted(out, key=str)


NODE_KINDS = ("file", "module", "submodule", "program", "blockdata", "type", "subroutine", "function", "modproc",
              "generic", "iface", "absint", "boundproc")


def impl_node_urls(objs, P):
    """`ford.graphs.BaseNode(obj, graph_data)` - what every graph node class runs first - for the real object of every
    entity of a kind the graphs make nodes of, as `correlate()` + `prune()` left it (`objs`: all entities found
    before `correlate`, so the ones `prune()` removed are included: the graphs reach them through calls, `extends`,
    component types).  -> sorted [(entity id, id of the entity whose page the node links to | page path)] or 'error: ...'"""
    import ford.graphs as gr

    byid = G.index(P)
    pages = {}
    for i, e in byid.items():
        pg = page_of(e)
        if pg is not None:
            pages.setdefault(pg, i)
    gd = gr.GraphData("../", False, False)
    out = set()
    for i, obj in sorted(objs.items()):
        if byid[i]["kind"] not in NODE_KINDS:
            continue
        try:
            node = gr.BaseNode(obj, gd)
        except Exception as ex:  # noqa: BLE001
            return f"error: BaseNode({type(obj).__name__} {getattr(obj, 'name', '?')}): {type(ex).__name__}: {ex}"
        url = node.attribs.get("URL")
        if url is None:
            continue
        page = os.path.normpath(url.split("#")[0])
        page = page[3:] if page.startswith("../") else page
        out.add((i, pages.get(page, page)))
    return sorted(out, key=str)


LK_RE = re.compile(r"""lk(\d+)x(\d+) <a(?:\s+href=["']([^"']*)["'])?\s*>([^<]*)</a>""")


def href_page(href, rel_dir):
    """page (path below the output directory, no fragment) an href written on a page in `rel_dir` names"""
    return os.path.normpath(os.path.join(rel_dir, href.split("#")[0]))


def impl_links(proj, objs, P):
    """Convert the doc comment of every entity that carries `[[...]]` links exactly as `FortranBase.markdown`
    does (the project's Markdown instance with the FORD link extension, the entity as context).
    -> {(ctx id, k): page | None | 'error: ...'}"""
    import textwrap

    from ford._markdown import MetaMarkdown

    byid = G.index(P)
    md = None
    out = {}
    for i in sorted(byid):
        e = byid[i]
        if not e.get("links"):
            continue
        obj = objs.get(i)
        if obj is None:
            continue
        if md is None:
            md = MetaMarkdown(project=proj)
        try:
            html = md.reset().convert(textwrap.dedent("\n".join(obj.doc_list)), context=obj)
        except Exception as ex:  # noqa
            for k in range(len(e["links"])):
                out[(i, k)] = f"error: {type(ex).__name__}: {ex}"
            continue
        got = {}
        for m in LK_RE.finditer(html):
            if int(m.group(1)) == i:
                # links are written relative to a sibling of the page directories
                got[int(m.group(2))] = None if m.group(3) is None else href_page(m.group(3), "x")
        for k in range(len(e["links"])):
            out[(i, k)] = got.get(k, "error: link not found in the converted comment")
    return out


def check_generator_assumptions(P, pre):
    """The abstract project claims a permission / documentedness / metadata for every entity; FORD's parser must
    agree (otherwise the comparison below would not be about the same input)."""
    byid = G.index(P)
    bad = []
    seen = set()
    for i, lst, vis, perm, doc, md in pre:
        e = byid[i]
        seen.add(i)
        if e["kind"] == "file":
            continue
        if e["kind"] not in ("arg", "finalproc", "module", "program", "submodule") and perm != e["perm"]:
            bad.append(f"{e['name']}: permission {perm} expected {e['perm']}")
        if doc != e["doc"]:
            bad.append(f"{e['name']}: documented {doc} expected {e['doc']}")
        if md is not None and list(md) != list(e["disp"] or []):
            bad.append(f"{e['name']}: meta.display {md} expected {e['disp']}")
    missing = [byid[i]["name"] for i in byid if i not in seen]
    if missing:
        bad.append(f"entities not found after parsing: {missing[:5]}")
    return bad


def parse_ids(s):
    return [int(x) for x in s.split(",") if x]


def model_batch(drv, Ps, variant):
    reqs = [G.encode_request(P, "c05.prune", variant) for P in Ps]
    out = []
    for r in drv.batch(reqs):
        if r[0] != "ok":
            out.append(None)
        else:
            r = r + [""] * (9 - len(r))
            per_page = {}
            for ent in [x for x in r[5].split(";") if x]:
                pg, _, ids = ent.partition(":")
                per_page[int(pg)] = sorted({int(x) for x in ids.split(".") if x})
            out.append({"survivors": parse_ids(r[1]), "visible": parse_ids(r[2]), "pages": parse_ids(r[3]),
                        "shown": parse_ids(r[4]), "per_page": per_page,
                        "bind_links": {g: sorted({tuple(int(x) for x in t.split(".")) for t in r[f].split(";") if t}, key=str)
                                       for g, f in (("guarded", 6), ("unguarded", 7))},
                        "node_urls": sorted({tuple(int(x) for x in t.split(".")) for t in r[8].split(";") if t}, key=str)})
    # the `[[name]]` links of the doc comments of the survivors, resolved by the model: as the link extension
    # is ("asis") and with the test that the target's page is written ("repaired")
    for lv in LINK_VARIANTS:
        reqs = [G.encode_links_request(P, variant, checks_page=(lv == "repaired")) for P in Ps]
        for P, m, r in zip(Ps, out, drv.batch(reqs)):
            if m is None:
                continue
            m.setdefault("links", {})
            if r[0] != "ok":
                m["links"][lv] = None
                continue
            r = r + [""] * (3 - len(r))
            m["links"][lv] = model_links(P, r[1])
    return out


LINK_VARIANTS = ("asis", "repaired")


def model_links(P, field):
    """`ctx:name:target:page:viaRef` / `ctx:name:-` entries -> {(ctx, k): (page path | None, viaRef)}"""
    byid = G.index(P)
    per_ctx = {}
    for ent in [x for x in field.split(",") if x]:
        f = ent.split(":")
        per_ctx.setdefault(int(f[0]), []).append(f)
    out = {}
    for i, fs in per_ctx.items():
        # the model lists the bare `[[name]]` links of one comment in the order they were given
        for k, f in zip(G.plain_links(byid[i]), fs):
            if f[2] == "-":
                out[(i, k)] = (None, False)
            else:
                out[(i, k)] = (page_of(byid[int(f[3])]), f[4] == "1")
    return out


def link_observations(P, im, post_ids):
    """what the implementation did with the bare `[[name]]` links written in the comments of the surviving
    entities (the qualified forms are judged by the oracle only)"""
    alive = set(post_ids)
    byid = G.index(P)
    return {k: v for k, v in im["links"].items() if k[0] in alive and k[1] in G.plain_links(byid[k[0]])}


def links_agree(m, lv, obs_links):
    ml = (m.get("links") or {}).get(lv)
    if ml is None:
        return False
    return {k: v[0] for k, v in ml.items()} == obs_links


def features(P):
    """histogram keys describing where options are set in this project"""
    byid = G.index(P)
    f = set()
    c = P["config"]
    f.add("proj-display=" + ("none" if "none" in c["display"] else "+".join(sorted(c["display"])) or "empty"))
    f.add(f"proj-proc_internals={c['proc_internals']}")
    f.add(f"proj-hide_undoc={c['hide_undoc']}")
    for e in byid.values():
        if e["disp"] is not None:
            lvl = {"subroutine": "procedure", "function": "procedure", "modproc": "procedure"}.get(e["kind"], e["kind"])
            f.add(f"display@{lvl}")
            if "none" in e["disp"]:
                f.add(f"display-none@{lvl}")
            if all(w not in G.WORDS for w in e["disp"]):
                f.add("display-unknown-words-only")
        if e["pint"] is not None:
            f.add(f"proc_internals@procedure={e['pint']}")
        if not e["doc"]:
            f.add("undocumented-entity")
        if e["kind"] in ("boundproc", "generic", "finalproc") and e["refs"]:
            if any(byid[r]["perm"] == "private" for r in e["refs"]):
                f.add(f"{e['kind']}->private-procedure")
        if e["kind"] == "enum":
            f.add("enum")
        if e["kind"] == "modproc":
            f.add("submodule-module-procedure")
        if e["kind"] in G.PROC_KINDS and byid.get(e["_parent"], {}).get("kind") in G.PROC_KINDS:
            f.add("internal-procedure")
        if e["kind"] == "type" and byid.get(e["_parent"], {}).get("kind") in G.PROC_KINDS:
            f.add("type-in-procedure")
        pk = byid.get(e["_parent"], {}).get("kind")
        if e["kind"] == "namelist":
            f.add("namelist@" + ("procedure" if pk in G.PROC_KINDS else str(pk)))
            if any(byid[r]["_parent"] != e["_parent"] and byid[byid[r]["_parent"]]["kind"] != "common" for r in e["refs"]):
                f.add("namelist-groups-host-variable")
        if e["kind"] == "common":
            f.add("common@" + ("procedure" if pk in G.PROC_KINDS else str(pk)))
        if e["kind"] == "blockdata":
            f.add("blockdata")
        if e["kind"] == "type" and pk == "blockdata":
            f.add("type-in-blockdata")
        if e["kind"] in G.PROC_KINDS and pk == "generic":
            f.add("interface-body-in-generic")
        if e["kind"] == "retvar":
            f.add("declared-function-result")
        if e["kind"] == "type" and e.get("ext") is not None:
            f.add("type-extension")
            if byid[e["ext"]].get("ext") is not None:
                f.add("type-extension-chain")
            if byid[e["ext"]]["perm"] != e["perm"]:
                f.add("type-extension-across-permissions")
    return f


# --------------------------------------------------------------------------- streams

def micro_stream(ford, drv, rng, n, rep, stats=None):
    """`_set_display` vs `setDisplay`, on copies of *real* objects: one of every class of the translator's probe
    project (variable, procedures, types, bindings, modules, ... and the source file) x `meta.proc_internals` off / on.
    The model takes neither the class nor `proc_internals`: `display` is independent of both (property statement:
    `display`, `proc_internals` and `hide_undoc` are separate options).  An exception of the implementation is a
    disagreement, not a harness error."""
    import copy

    import ford.sourceform as sf
    from translate import c05_probe as PR

    words = ["public", "private", "protected", "none", "bogus", "PUBLIC", "None"]

    class Par:
        def __init__(self, display):
            self.display = display

    cx = PR.Ctx()
    try:
        insts = {c: o for c, o in sorted(cx.by_class.items()) if hasattr(o, "_set_display") and hasattr(o, "meta")}
    finally:
        cx.close()
    files = [c for c, o in insts.items() if isinstance(o, sf.FortranSourceFile)]
    procs = [c for c, o in insts.items() if getattr(o, "obj", None) == "proc"]
    others = [c for c in insts if c not in files and c not in procs]
    hist = {}
    reqs, exp, raised = [], [], 0
    for _ in range(n):
        is_file = rng.random() < 0.3
        parent = [rng.choice(words[:5]) for _ in range(rng.randint(0, 3))]
        md = [rng.choice(words) for _ in range(rng.choice([0, 0, 1, 1, 2, 3]))]
        cname = rng.choice(files) if is_file else rng.choice(procs if rng.random() < 0.5 else others)
        pi = rng.random() < 0.5
        hist[f"{cname}/proc_internals={'on' if pi else 'off'}"] = hist.get(f"{cname}/proc_internals={'on' if pi else 'off'}", 0) + 1
        obj = copy.copy(insts[cname])
        obj.meta = copy.copy(obj.meta)
        obj.meta.display = list(md)
        obj.meta.proc_internals = pi
        if is_file:
            obj.parent = None
            obj.display = list(parent)
        else:
            obj.parent = Par(list(parent))
            obj.display = ["stale"]
        req = ["c05.setdisplay", "1" if is_file else "0", G.enc_words(parent), G.enc_words([m.lower() for m in md])]
        try:
            obj._set_display()
            out = ["ok", "+".join(WORD_CODE.get(w, "other") for w in obj.display)]
        except Exception as ex:  # noqa: BLE001
            raised += 1
            out = ["raised", type(ex).__name__]
        reqs.append(req)
        exp.append((out, cname, pi))
    got = drv.batch(reqs)
    bad = 0
    for r, (e, cname, pi), g in zip(reqs, exp, got):
        g = g + [""] * (2 - len(g))
        if e != g[:2]:
            bad += 1
            rep.tie_broken(f"correspondence micro/_set_display: model {g} vs implementation {e} on {r[1:]} "
                           f"({cname}, proc_internals {'on' if pi else 'off'})",
                           {"stream": "micro", "request": r, "impl": e, "model": g, "class": cname, "proc_internals": pi})
    if stats is not None:
        stats["micro_histogram"] = dict(sorted(hist.items()))
    return len(reqs), bad


def oracle_objects(P, post_ids, pages):
    """Property oracle on the object level: survivors == selected, page lists == selected with a page kind."""
    byid = G.index(P)
    inherited = set()
    sel, _ = spec_selected(P, inherited=inherited)
    fails = []

    def unrendered_namelist(i):
        """a namelist of a module / submodule (or of a procedure without a page) is kept in `namelists`, but no
        template renders more than its name there"""
        e = byid[i]
        return e["kind"] == "namelist" and not has_own_page(e, byid)

    def in_internal(i):
        """inside a procedure that has no page (only its dummy arguments are rendered)"""
        e = byid[i]
        par = byid.get(e["_parent"])
        while par is not None:
            gp = byid.get(par["_parent"])
            if par["kind"] in G.PROC_KINDS and gp is not None and gp["kind"] in G.PROC_KINDS:
                return True
            e, par = par, gp
        return False

    for i in sorted(set(post_ids) - sel):
        if in_internal(i) or unrendered_namelist(i):
            continue
        if i in inherited:
            continue  # kept in the lists of a selected extending type, under that type's display options
        fails.append((i, f"unselected {byid[i]['kind']} {byid[i]['name']} is kept in a list that the pages render"))
    for i in sorted(sel - set(post_ids)):
        fails.append((i, f"selected {byid[i]['kind']} {byid[i]['name']} was removed"))
    want_pages = {i for i in sel if has_own_page(byid[i], byid)}
    for i in sorted(set(pages) - want_pages):
        fails.append((i, f"page for unselected / pageless {byid[i]['kind']} {byid[i]['name']}"))
    for i in sorted(want_pages - set(pages)):
        fails.append((i, f"no page for selected {byid[i]['kind']} {byid[i]['name']}"))
    return fails


def link_features(P, links, sel, stats):
    """histogram: where links were written and what became of them"""
    byid = G.index(P)
    h = stats.setdefault("link_hist", {})
    for (i, k), page in links.items():
        e = byid[i]
        t = byid[e["link_ids"][k]]
        shown = "shown" if i in sel else "hidden"
        tsel = "selected" if t["id"] in sel else "unselected"
        res = "error" if isinstance(page, str) and page.startswith("error: ") else ("linked" if page else "no-link")
        for key in (f"{shown}-comment/{tsel}-target/{res}", f"ctx={e['kind']}", f"target={t['kind']}",
                    f"form={e['link_forms'][k]}"):
            h[key] = h.get(key, 0) + 1
        if any(m for a in chain_of(byid, e) for m, _ in a.get("uses") or [] if in_module(byid, t, m)):
            h["target-through-use"] = h.get("target-through-use", 0) + 1
    stats["links"] = stats.get("links", 0) + len(links)


def chain_of(byid, e):
    out = []
    while e is not None:
        out.append(e)
        e = byid.get(e["_parent"])
    return out


def in_module(byid, t, mod):
    return any(a["kind"] == "module" and a["name"] == mod for a in chain_of(byid, t)[1:])


def oracle_mode(why):
    """which clause of the property a failure of `oracle_objects` is about"""
    if "was removed" in why or why.startswith("no page"):
        return "missing"
    return "page" if why.startswith("page for") else "leak"


def prune_stream(ford, drv, rng, n, rep, stats, d, lrng=None, xrng=None, hrng=None):
    Ps = []
    for k in range(n):
        risky = (k % 4 == 3)
        Ps.append(G.gen_project(rng, size=1.0 if k % 3 else 1.6, risky=risky))
    if xrng is not None:
        # round 3: block data, interface bodies in generic interfaces, function results, type extension in
        # three of four cases; namelists and common blocks (never filtered: known findings) in every second
        for k, P in enumerate(Ps):
            if k % 4 != 0:
                G.extend(P, xrng, gaps=(k % 2 == 1))
    if lrng is not None:
        for P in Ps:
            G.decorate(P, lrng)
    if hrng is not None:
        # round 6: type hierarchies (appended, own rng: the cases above stay what they were)
        Ps += [G.gen_hierarchy(hrng) for _ in range(max(1, n // 8))]
    m_asis = model_batch(drv, Ps, "asis")
    m_rep = model_batch(drv, Ps, "repaired")
    agree = {"asis": 0, "repaired": 0}
    differ = {"asis": [], "repaired": []}
    discriminating = 0
    lagree = {(a, b): 0 for a in ("asis", "repaired") for b in LINK_VARIANTS}
    ldiffer = {(a, b): [] for a in ("asis", "repaired") for b in LINK_VARIANTS}
    ldiscr = 0
    nagree = {"asis": 0, "repaired": 0}
    ndiffer = {"asis": [], "repaired": []}
    bagree = {"asis": 0, "repaired": 0}
    bdiffer = {"asis": [], "repaired": []}
    for k, P in enumerate(Ps):
        im = impl_prune(ford, P, d)
        if "error" in im:
            rep.tie_broken(f"prune stream: implementation raised {im['error']} on case {k}",
                           {"stream": "prune", "case": k, "project": G.strip(P), "files": G.render_project(P)})
            continue
        bad = check_generator_assumptions(P, im["pre"]) + im["unknown"]
        if bad:
            rep.tie_broken(f"prune stream: generator assumption not met on case {k}: {bad[0]}",
                           {"stream": "prune", "case": k, "problems": bad[:10], "files": G.render_project(P)})
            continue
        for ft in features(P):
            stats["features"][ft] = stats["features"].get(ft, 0) + 1
        post_ids = sorted({i for i, *_ in im["post"]})
        vis = sorted({i for i, lst, v, *_ in im["post"] if v})
        obs = {"survivors": post_ids, "visible": vis, "pages": im["pages"]}
        obs_links = link_observations(P, im, post_ids)
        stats["entities"] += len(G.index(P))
        stats["dropped"] += len(G.index(P)) - len(post_ids)
        if len(post_ids) < len(G.index(P)):
            stats["distinct"].add(common.digest(G.strip(P)))
        if len(stats["samples"]) < 2 and k % 4 == 3:
            stats["samples"].append({"config": P["config"], "entities": len(G.index(P)), "survivors": post_ids,
                                     "pages": im["pages"]})
        ma, mr = m_asis[k], m_rep[k]
        if ma is None or mr is None:
            rep.tie_broken(f"prune stream: driver could not read case {k}")
            continue
        # (an inherited member stands in the model's tree once per type that carries it: compare as sets)
        cmp = lambda m: all(sorted(set(m[x])) == obs[x] for x in ("survivors", "visible", "pages"))
        if {x: sorted(set(ma[x])) for x in obs} != {x: sorted(set(mr[x])) for x in obs}:
            discriminating += 1
        for name, m in (("asis", ma), ("repaired", mr)):
            if cmp(m):
                agree[name] += 1
            elif len(differ[name]) < 5:
                differ[name].append({"stream": "prune", "case": k, "variant": name, "config": P["config"],
                                     "model": {x: sorted(set(m[x])) for x in obs}, "impl": obs,
                                     "files": G.render_project(P), "project": G.strip(P)})
            # links: the model of this display variant x each variant of the link extension
            for lv in LINK_VARIANTS:
                if links_agree(m, lv, obs_links):
                    lagree[(name, lv)] += 1
                elif len(ldiffer[(name, lv)]) < 3:
                    ml = {f"{a}x{b}": v[0] for (a, b), v in sorted(((m.get("links") or {}).get(lv) or {}).items())}
                    il = {f"{a}x{b}": v for (a, b), v in sorted(obs_links.items())}
                    ldiffer[(name, lv)].append({
                        "stream": "prune", "case": k, "variant": name, "link_variant": lv, "config": P["config"],
                        "links_differ [model, implementation]": {x: [ml.get(x, "absent"), il.get(x, "absent")]
                                                                 for x in sorted(set(ml) | set(il)) if ml.get(x, "absent") != il.get(x, "absent")},
                        "files": G.render_project(P), "project": G.strip(P)})
            if (m.get("links") or {}).get("asis") != (m.get("links") or {}).get("repaired") and name == "asis":
                ldiscr += 1
        # binding names that are links in type summaries (real macro on the real objects vs `bindLinksOf`)
        bl = im["bind_links"]
        if isinstance(bl, str):
            rep.tie_broken(f"prune stream: rendering the type summaries of case {k} failed: {bl}",
                           {"stream": "prune", "case": k, "files": G.render_project(P)})
        else:
            bstats = stats.setdefault("bind_links", {"types_rendered": 0, "links": 0, "links_into_another_type": 0,
                                                      "model_agrees": 0, "model_differs": 0, "guard_discriminates": 0,
                                                      "oracle_failures": 0})
            bstats["links"] += len(bl)
            bstats["types_rendered"] += _MACROS.get("types_rendered", 0)
            bstats["links_into_another_type"] += sum(1 for t, b, dd in bl if t != dd)
            for name, m in (("asis", ma), ("repaired", mr)):
                if m["bind_links"]["guarded"] != m["bind_links"]["unguarded"] and name == "asis":
                    bstats["guard_discriminates"] += 1
                if [tuple(x) for x in m["bind_links"]["guarded"]] == [tuple(x) for x in bl]:
                    bagree[name] += 1
                elif len(bdiffer[name]) < 3:
                    bdiffer[name].append({"stream": "prune", "case": k, "variant": name, "config": P["config"],
                                          "bind_links [type, binding, declaring type]": {
                                              "model (macro tests the declaring type)": m["bind_links"]["guarded"],
                                              "model (no test)": m["bind_links"]["unguarded"], "implementation": bl},
                                          "files": G.render_project(P), "project": G.strip(P)})
            # oracle (statement: "links ... never point at pages of unselected entities"): the page a binding's
            # name links into is the page of a selected type that has a page
            bsel, _ = spec_selected(P)
            byid_k = G.index(P)
            for t, b, dd in bl:
                if isinstance(dd, int) and dd in bsel and has_own_page(byid_k[dd], byid_k):
                    continue
                tn = byid_k[dd]["name"] if isinstance(dd, int) else dd
                why = (f"the summary of type {byid_k[t]['name']} links the name of binding {byid_k[b]['name']} to the page of "
                       f"{tn}, " + ("which is not selected" if isinstance(dd, int) and dd not in bsel else "which has no page"))
                stats["oracle_failures"] += 1
                bstats["oracle_failures"] += 1
                rep.failing_input({"stream": "prune", "case": k, "why": why, "config": P["config"],
                                   "files": G.render_project(P), "entity": b}, None)
        # graph nodes that carry a URL (real `BaseNode` on the real objects, removed ones included, vs `nodeUrlsOf`)
        nu = im["node_urls"]
        if isinstance(nu, str):
            rep.tie_broken(f"prune stream: making graph nodes for case {k} failed: {nu}",
                           {"stream": "prune", "case": k, "files": G.render_project(P)})
        else:
            nstats = stats.setdefault("graph_nodes", {"nodes": 0, "with_url": 0, "of_removed_entities": 0,
                                                       "bindings_with_url": 0, "oracle_failures": 0})
            byid_n = G.index(P)
            alive = set(post_ids)
            nstats["nodes"] += sum(1 for e in byid_n.values() if e["kind"] in NODE_KINDS)
            nstats["of_removed_entities"] += sum(1 for i, e in byid_n.items() if e["kind"] in NODE_KINDS and i not in alive)
            nstats["with_url"] += len(nu)
            nstats["bindings_with_url"] += sum(1 for i, _ in nu if byid_n[i]["kind"] == "boundproc")
            for name, m in (("asis", ma), ("repaired", mr)):
                if [tuple(x) for x in m["node_urls"]] == [tuple(x) for x in nu]:
                    nagree[name] += 1
                elif len(ndiffer[name]) < 3:
                    ndiffer[name].append({"stream": "prune", "case": k, "variant": name, "config": P["config"],
                                          "graph node URLs [entity, entity whose page is linked]": {
                                              "only in the model": [x for x in m["node_urls"] if tuple(x) not in set(nu)],
                                              "only in the implementation": [x for x in nu if tuple(x) not in {tuple(y) for y in m["node_urls"]}]},
                                          "files": G.render_project(P), "project": G.strip(P)})
            # oracle (statement: "graph nodes never point at pages of unselected entities")
            nsel, _ = spec_selected(P)
            for i, pg in nu:
                if isinstance(pg, int) and pg in nsel and has_own_page(byid_n[pg], byid_n):
                    continue
                tn = f"{byid_n[pg]['kind']} {byid_n[pg]['name']}" if isinstance(pg, int) else pg
                why = (f"the graph node of {byid_n[i]['kind']} {byid_n[i]['name']} links to the page of {tn}, "
                       + ("which is not selected" if isinstance(pg, int) and pg not in nsel else "which has no page"))
                stats["oracle_failures"] += 1
                nstats["oracle_failures"] += 1
                rep.failing_input({"stream": "prune", "case": k, "why": why, "config": P["config"],
                                   "files": G.render_project(P), "entity": i}, None)
        # property oracle on the real objects
        for eid, why in oracle_objects(P, post_ids, im["pages"]):
            cls = classify(P, eid, why, mode=oracle_mode(why))
            stats["oracle_failures"] += 1
            rep.failing_input({"stream": "prune", "case": k, "why": why, "config": P["config"],
                               "files": G.render_project(P), "entity": eid}, cls)
        # ... and on the links the real Markdown extension produced
        sel, ref = spec_selected(P)
        link_features(P, im["links"], sel, stats)
        for ctx, lk, why in oracle_links(P, im["links"], sel, ref):
            page = im["links"][(ctx, lk)]
            cls = None if str(page).startswith("error: ") else classify_link(P, ctx, lk, page, sel, ref)
            stats["oracle_failures"] += 1
            stats["link_oracle_failures"] = stats.get("link_oracle_failures", 0) + 1
            rep.failing_input({"stream": "prune", "case": k, "why": why, "config": P["config"],
                               "files": G.render_project(P), "entity": ctx, "link": lk}, cls)
    total = len(Ps)
    stats["prune_cases"] = total
    stats["discriminating"] = discriminating
    if agree["repaired"] == total and (discriminating > 0 or agree["asis"] < total):
        variant = "repaired"
    elif agree["asis"] == total:
        variant = "asis"
    else:
        variant = None
        better = "asis" if agree["asis"] >= agree["repaired"] else "repaired"
        for dcase in differ[better][:3]:
            rep.tie_broken(f"correspondence prune: model ({better}) and implementation differ on case {dcase['case']}",
                           dcase)
        stats["agree"] = agree
    # binding names in type summaries: the macro as the model has it (`bound_declaration_probe_matches_model`)
    if variant is not None and "bind_links" in stats:
        stats["bind_links"]["model_agrees"] = bagree[variant]
        stats["bind_links"]["model_differs"] = len(bdiffer[variant])
        for dcase in bdiffer[variant][:3]:
            rep.tie_broken(f"correspondence prune: the binding names the model links in type summaries and the ones the "
                           f"real `type_summary` macro links differ on case {dcase['case']}", dcase)
    if variant is not None and "graph_nodes" in stats:
        stats["graph_nodes"]["model_agrees"] = nagree[variant]
        stats["graph_nodes"]["model_differs"] = len(ndiffer[variant])
        for dcase in ndiffer[variant][:3]:
            rep.tie_broken(f"correspondence prune: the graph nodes the model gives a URL and the ones the real `BaseNode` "
                           f"gives one differ on case {dcase['case']}", dcase)
    # which link extension is this: with or without the test that the target's page is written
    stats["link_discriminating"] = ldiscr
    lvariant = None
    if variant is not None:
        if lagree[(variant, "repaired")] == total and (ldiscr > 0 or lagree[(variant, "asis")] < total):
            lvariant = "repaired"
        elif lagree[(variant, "asis")] == total:
            lvariant = "asis"
        else:
            better = "asis" if lagree[(variant, "asis")] >= lagree[(variant, "repaired")] else "repaired"
            for dcase in ldiffer[(variant, better)][:3]:
                rep.tie_broken(f"correspondence prune: the links the model ({variant}, link extension {better}) resolves and "
                               f"the links the implementation made differ on case {dcase['case']}", dcase)
            stats["link_agree"] = {f"{a}/{b}": v for (a, b), v in lagree.items()}
    stats["link_variant"] = lvariant
    return variant


# --------------------------------------------------------------------------- e2e

TR_RE = re.compile(r"zq(\d{4})qz")
LISTING_RE = re.compile(r'''<div class="hl codehilite">.*?</pre></div>''', re.S)
HREF_RE = re.compile(r"""href=["']([^"'#]+\.html)(?:#[^"']*)?["']""")
PAGE_DIRS = {"type": "type", "subroutine": "proc", "function": "proc", "generic": "interface", "iface": "interface",
             "absint": "interface", "module": "module", "program": "program", "file": "sourcefile",
             "submodule": "module", "modproc": "proc", "blockdata": "blockdata", "namelist": "namelist"}
ENTITY_DIRS = ("type", "proc", "interface", "module", "program", "sourcefile", "blockdata", "namelist")


def run_e2e_case(args):
    """Worker: run ford.main on one project in a scratch dir; return observations (picklable)."""
    P, root, graphs, incl_src = args
    from . import e2e

    root = Path(root)
    files = G.render_project(P)
    cfg = P["config"]
    opts = {"search": "true", "graph": "true" if graphs else "false", "proc_internals": str(cfg["proc_internals"]).lower(),
            "hide_undoc": str(cfg["hide_undoc"]).lower(), "incl_src": "true" if incl_src else "false", "parallel": "0", "warn": "false",
            "quiet": "true"}
    disp = list(cfg["display"])
    if not disp:
        # an empty list cannot be spelled in the project file; `display: bogus` would be ignored there too
        disp = ["none"]
    opts["display"] = disp
    pf = e2e.write_project(root, files, opts, text="Project text.\n")
    res = e2e.run_inprocess(pf)
    out = {"rc": res["rc"], "exc": res.get("exc"), "trace": res.get("trace", "")[-1500:], "tracers": {}, "pages": [],
           "bad_hrefs": [], "links": [], "bind_links": []}
    if res["rc"] != 0 or res["out"] is None:
        return out
    outdir = Path(res["out"])
    existing = set()
    seen_links = {}
    for p in outdir.rglob("*.html"):
        existing.add(str(p.relative_to(outdir)))
    for rel in sorted(existing):
        if rel.startswith("src/"):
            continue
        text = (outdir / rel).read_text(encoding="utf-8", errors="replace")
        # the highlighted source listing (file pages, `source: true`) is the raw source by design
        text = LISTING_RE.sub("", text)
        ids = sorted({int(x) for x in TR_RE.findall(text)})
        out["tracers"][rel] = ids
        # the `[[name]]` links of the generated comments carry a marker word: they are attributed to the
        # comment they were written in and judged one by one; all other hrefs are checked below
        # names of type-bound procedures printed as links (`bound_declaration(tb, link_name=True)`)
        for m in BIND_NAME_RE.finditer(text):
            if m.group(1) and "#boundprocedure-" in m.group(1) and not m.group(1).startswith("http"):
                out["bind_links"].append([rel, m.group(2).split("/")[-1], href_page(m.group(1), os.path.dirname(rel))])
        for m in LK_RE.finditer(text):
            tgt = None if m.group(3) is None else href_page(m.group(3), os.path.dirname(rel))
            key = (int(m.group(1)), int(m.group(2)), tgt)
            if key not in seen_links:
                seen_links[key] = rel
        text = LK_RE.sub("", text)
        top = rel.split("/")[0]
        if top in ENTITY_DIRS:
            out["pages"].append(rel)
        for h in HREF_RE.findall(text):
            if "://" in h or h.startswith("mailto:"):
                continue
            tgt = os.path.normpath(os.path.join(os.path.dirname(rel), h))
            # only links into the entity page directories are C05's business (lists/ etc. belong to C09)
            if tgt.split("/")[0] not in ENTITY_DIRS:
                continue
            if tgt not in existing and len(out["bad_hrefs"]) < 20:
                out["bad_hrefs"].append([rel, h])
    sdb = outdir / "search" / "search_database.json"
    if sdb.exists():
        ids = set()
        try:
            raw = sdb.read_text(errors="replace")
            raw = raw[raw.index("{"):].rstrip().rstrip(";")
            for pg in json.loads(raw).get("pages", []):
                # the index entry of a file page contains the source listing (all comments) by design
                if "sourcefile/" in pg.get("url", ""):
                    continue
                ids.update(int(x) for x in TR_RE.findall(pg.get("text", "") + " " + pg.get("title", "")))
            out["tracers"]["search/search_database.json"] = sorted(ids)
        except ValueError:
            out["no_search_db"] = True
    else:
        out["no_search_db"] = True
    # the raw source copies legitimately contain every comment
    out["links"] = [[i, k, tgt, rel, tgt is None or tgt in existing] for (i, k, tgt), rel in sorted(seen_links.items(), key=str)]
    return out


def page_of(e):
    d = PAGE_DIRS.get(e["kind"])
    if d is None:
        return None
    name = e["name"] + ".f90" if e["kind"] == "file" else e["name"]
    return f"{d}/{name}.html"


def e2e_stream(ford, drv, rng, n, rep, stats, d, variant, graphs, workers, lrng=None, xrng=None):
    import multiprocessing as mp

    Ps = []
    for k in range(n):
        risky = (k % 4 == 3)
        P = G.gen_project(rng, size=0.8, risky=risky, typey=(k % 2 == 1))
        if not P["config"]["display"]:
            P["config"]["display"] = ["none"]
        Ps.append(P)
    if xrng is not None:
        for k, P in enumerate(Ps):
            if k % 4 != 0:
                G.extend(P, xrng, gaps=(k % 4 in (2, 3)))
    if lrng is not None:
        for P in Ps:
            G.decorate(P, lrng)
    # the witnesses of the findings that only show on the generated site, as cases of their own (at positions
    # with `incl_src` on and, for the second, the type summaries of the module page)
    for fid, mk in E2E_WITNESSES:
        Ps.append(mk())
    model = model_batch(drv, Ps, variant or "asis")
    # graphs are expensive: all cases in the thorough tier, every second case in the quick tier
    jobs = [(G.strip(P), str(d / f"e{k}"), graphs or k % 2 == 1, k % 2 == 0) for k, P in enumerate(Ps)]
    stats["e2e_graph_cases"] = sum(1 for j in jobs if j[2])
    ctx = mp.get_context("fork")
    with ctx.Pool(workers) as pool:
        results = pool.map(run_e2e_case, jobs, chunksize=1)
    ncorr = 0
    for k, (P, res, mo) in enumerate(zip(Ps, results, model)):
        byid = G.index(P)
        files = G.render_project(P)
        base = {"stream": "e2e", "case": k, "config": P["config"], "files": files}
        if res["rc"] != 0:
            rep.tie_broken(f"e2e: ford.main failed on case {k}: {res['exc']}", dict(base, trace=res["trace"]))
            continue
        if res.get("no_search_db"):
            rep.tie_broken(f"e2e: no search database written on case {k}", base)
        stats["e2e_cases"] += 1
        for ft in features(P):
            stats["e2e_features"][ft] = stats["e2e_features"].get(ft, 0) + 1
        found_anywhere = set()
        for rel, ids in res["tracers"].items():
            found_anywhere.update(ids)
        documented = {i for i, e in byid.items() if e["doc"]}
        # ---- correspondence with the model
        if mo is not None:
            want = set(mo["shown"]) & documented
            if k % 2 == 1:  # incl_src off: no file pages, file-level docs are not rendered
                want -= {i for i, e in byid.items() if e["kind"] == "file"}
            if found_anywhere != want:
                ncorr += 1
                rep.tie_broken(f"correspondence e2e: tracer words on the site differ from the model's shownIds on case {k}",
                               dict(base, only_on_site=sorted(found_anywhere - want), only_in_model=sorted(want - found_anywhere)))
            incl_src = k % 2 == 0
            mpages = sorted(p for p in (page_of(byid[i]) for i in mo["pages"] if incl_src or byid[i]["kind"] != "file") if p)
            if mpages != sorted(res["pages"]):
                ncorr += 1
                rep.tie_broken(f"correspondence e2e: page files differ from the model's pages on case {k}",
                               dict(base, model_pages=mpages, site_pages=sorted(res["pages"])))
            # tracer words per page: what the model says each page shows == what the page file contains
            for pid, ids in sorted(mo["per_page"].items()):
                rel = page_of(byid[pid])
                if rel is None or (byid[pid]["kind"] == "file" and not incl_src):
                    continue
                want_pg = sorted(set(ids) & documented)
                got_pg = sorted(res["tracers"].get(rel, []))
                stats["e2e_pages_compared"] = stats.get("e2e_pages_compared", 0) + 1
                if want_pg != got_pg:
                    ncorr += 1
                    rep.tie_broken(f"correspondence e2e: tracer words on {rel} differ from what the model says the page shows (case {k})",
                                   dict(base, page=rel, only_on_page=sorted(set(got_pg) - set(want_pg)),
                                        only_in_model=sorted(set(want_pg) - set(got_pg))))
            # binding names that are links in the type summaries of the site == `bindLinksOf` (macro as it is)
            want_bl = sorted({(nearest_page(byid[t], byid), byid[b]["name"], page_of(byid[dd]))
                              for t, b, dd in mo["bind_links"]["guarded"]})
            got_bl = sorted({tuple(x) for x in res.get("bind_links", [])})
            stats["e2e_bind_links"] = stats.get("e2e_bind_links", 0) + len(got_bl)
            if want_bl != got_bl:
                ncorr += 1
                rep.tie_broken(f"correspondence e2e: the binding names the site links in type summaries differ from the model's on case {k}",
                               dict(base, only_on_site=[x for x in got_bl if x not in want_bl],
                                    only_in_model=[x for x in want_bl if x not in got_bl]))
        # ---- property oracle
        sel, ref = spec_selected(P)
        fails = []
        for rel, ids in res["tracers"].items():
            for i in ids:
                if i not in sel and i not in ref:
                    fails.append((i, f"documentation text of unselected {byid[i]['kind']} {byid[i]['name']} appears in {rel}", "leak", rel))
        incl_src = k % 2 == 0
        for i in sorted(sel & documented):
            e = byid[i]
            par = byid.get(e["_parent"])
            if e["kind"] == "file":
                if incl_src and i not in res["tracers"].get(page_of(e), []):
                    fails.append((i, f"documentation of file {e['name']} is not on {page_of(e)}", "missing", page_of(e)))
                continue
            if par["kind"] == "file":
                par = None  # program units are described on their own page
            own = page_of(e) if has_own_page(e, byid) else None
            if own and i not in res["tracers"].get(own, []):
                fails.append((i, f"selected {e['kind']} {e['name']} is not described on its own page {own}", "missing", own))
            if own and own not in res["pages"]:
                fails.append((i, f"selected {e['kind']} {e['name']} has no page {own}", "missing", own))
            # described on its parent's page (the nearest ancestor that has a page)
            anc = par
            while anc is not None and not has_own_page(anc, byid):
                anc = byid.get(anc["_parent"])
            if anc is not None:
                pg = page_of(anc)
                if i not in res["tracers"].get(pg, []):
                    fails.append((i, f"selected {e['kind']} {e['name']} is not described on {pg}", "missing", pg))
            if i not in res["tracers"].get("search/search_database.json", []):
                fails.append((i, f"selected {e['kind']} {e['name']} is missing from the search index", "missing", SEARCH_DB))
        for i in sorted(set(byid) - sel):
            e = byid[i]
            pg = page_of(e)
            if pg and pg in res["pages"] and PAGE_DIRS.get(e["kind"]):
                fails.append((i, f"page {pg} exists for unselected {e['kind']} {e['name']}", "page", pg))
        for rel, h in res["bad_hrefs"]:
            fails.append((None, f"{rel} links to {h}, which does not exist", "link", rel))
        # links written in the generated comments, wherever the comment was rendered
        ok_pages = allowed_pages(P, sel, files=incl_src)
        lfails = []
        stats["e2e_links_seen"] = stats.get("e2e_links_seen", 0) + len(res["links"])
        for i, lk, tgt, rel, exists in res["links"]:
            e = byid[i]
            t = byid[e["link_ids"][lk]]
            if i not in sel and i not in ref:
                continue  # the comment itself should not be there: reported by the tracer oracle above
            if tgt is not None and (tgt not in ok_pages or not exists):
                lfails.append((i, lk, tgt, f"[[{e['links'][lk]}]] in the comment of {e['kind']} {e['name']}, rendered on {rel}, "
                                           f"links to {tgt}: " + ("no page of a selected entity" if tgt not in ok_pages else "the page was not written")
                                           + f" ({t['kind']} {t['name']} is {'selected' if t['id'] in sel else 'not selected'})"))
            # correspondence: the model predicts the page for the comments of surviving entities
            ml = ((mo or {}).get("links") or {}).get(stats.get("link_variant") or "asis")
            if ml is not None and (i, lk) in ml:
                want_page = ml[(i, lk)][0]
                if stats.get("link_variant") == "repaired" and not incl_src and want_page is not None and want_page.startswith("sourcefile/"):
                    want_page = None  # file pages are not written (`incl_src` is outside the model)
                if want_page != tgt:
                    ncorr += 1
                    rep.tie_broken(f"correspondence e2e: link {lk} of the comment of {e['kind']} {e['name']} points at {tgt} on {rel}, "
                                   f"the model says {want_page} (case {k})", dict(base, entity=i, link=lk))
        seen_cls = set()
        for eid, why, mode, pg in fails:
            if eid is not None:
                cls = classify(P, eid, why, mode=mode, page=pg, sel=sel, ref=ref)
            else:
                cls = classify_href(P, pg, why.split(" links to ")[1].split(",")[0], sel) if mode == "link" else None
            stats["oracle_failures"] += 1
            if (cls, eid) in seen_cls:
                continue
            seen_cls.add((cls, eid))
            rep.failing_input(dict(base, why=why, entity=eid), cls)
        for i, lk, tgt, why in lfails:
            cls = classify_link(P, i, lk, tgt, sel, ref, incl_src=incl_src)
            stats["oracle_failures"] += 1
            stats["link_oracle_failures"] = stats.get("link_oracle_failures", 0) + 1
            if (cls, i, lk) in seen_cls:
                continue
            seen_cls.add((cls, i, lk))
            rep.failing_input(dict(base, why=why, entity=i, link=lk), cls)
    stats["e2e_corr_disagreements"] = ncorr


# --------------------------------------------------------------------------- witnesses of the known findings

def witness_file_display():
    """module with a private variable, file-level `display: private`, project display public."""
    g = G.Gen(random.Random(0))
    f = g.new("file", "public", disp=["private"], doc=True)
    m = g.new("module", "public", default=None)
    v = g.new("variable", "private", explicit=True)
    w = g.new("variable", "public", explicit=True)
    m["children"] = [v, w]
    f["children"] = [m]
    return {"config": {"display": ["public"], "proc_internals": False, "hide_undoc": False}, "files": [f]}


def witness_enum():
    g = G.Gen(random.Random(0))
    f = g.new("file", "public", doc=False)
    m = g.new("module", "public", default="private")
    en = g.new("enum", "private", explicit=False)
    ev = g.new("enumerator", "private", explicit=False)
    en["children"] = [ev]
    m["children"] = [en]
    f["children"] = [m]
    return {"config": {"display": ["public"], "proc_internals": False, "hide_undoc": False}, "files": [f]}


def witness_link_binding():
    """private procedure bound by a public binding whose comment names it"""
    g = G.Gen(random.Random(0))
    f = g.new("file", "public", doc=False)
    m = g.new("module", "public", default="private")
    t = g.new("type", "public", explicit=True)
    b = g.new("boundproc", "public", explicit=True)
    s = g.new("subroutine", "private", explicit=False)
    a = g.new("arg", "private", explicit=False)
    s["children"] = [a]
    b["refs"] = [s["id"]]
    b["link_ids"], b["links"], b["link_forms"] = [s["id"]], [s["name"]], ["plain"]
    t["children"] = [b]
    m["children"] = [t, s]
    f["children"] = [m]
    return {"config": {"display": ["public"], "proc_internals": False, "hide_undoc": False}, "files": [f]}


def witness_link_referenced():
    """private procedure under a public generic interface; its comment names its own dummy argument"""
    g = G.Gen(random.Random(0))
    f = g.new("file", "public", doc=False)
    m = g.new("module", "public", default="private")
    gi = g.new("generic", "public", explicit=True)
    s = g.new("subroutine", "private", explicit=False)
    a = g.new("arg", "private", explicit=False)
    s["children"] = [a]
    gi["refs"] = [s["id"]]
    s["link_ids"], s["links"], s["link_forms"] = [a["id"]], [a["name"]], ["plain"]
    m["children"] = [gi, s]
    f["children"] = [m]
    return {"config": {"display": ["public"], "proc_internals": False, "hide_undoc": False}, "files": [f]}


def witness_namelist():
    """module (default private), public subroutine with a private local variable and a namelist grouping it"""
    g = G.Gen(random.Random(0))
    f = g.new("file", "public", doc=False)
    m = g.new("module", "public", default="private")
    sb = g.new("subroutine", "public", explicit=True)
    v = g.new("variable", "private", explicit=False)
    nl = g.new("namelist", "private", explicit=False)
    nl["refs"] = [v["id"]]
    sb["children"] = [v, nl]
    m["children"] = [sb]
    f["children"] = [m]
    return {"config": {"display": ["public"], "proc_internals": False, "hide_undoc": False}, "files": [f]}


def witness_module_namelist():
    g = G.Gen(random.Random(0))
    f = g.new("file", "public", doc=False)
    m = g.new("module", "public", default=None)
    v = g.new("variable", "public", explicit=True)
    nl = g.new("namelist", "public", explicit=False)
    nl["refs"] = [v["id"]]
    m["children"] = [v, nl]
    f["children"] = [m]
    return {"config": {"display": ["public"], "proc_internals": False, "hide_undoc": False}, "files": [f]}


def witness_common():
    g = G.Gen(random.Random(0))
    f = g.new("file", "public", doc=False)
    m = g.new("module", "public", default="private")
    cb = g.new("common", "public", explicit=False)
    v = g.new("variable", "private", explicit=False)
    cb["children"] = [v]
    m["children"] = [cb]
    f["children"] = [m]
    return {"config": {"display": ["public"], "proc_internals": False, "hide_undoc": False}, "files": [f]}


def witness_inherited_binding():
    """private type with a public binding, public type extending it"""
    g = G.Gen(random.Random(0))
    f = g.new("file", "public", doc=False)
    m = g.new("module", "public", default="private")
    t0 = g.new("type", "private", explicit=False)
    b = g.new("boundproc", "public", explicit=True)
    t1 = g.new("type", "public", explicit=True, ext=t0["id"])
    c = g.new("component", "public", explicit=True)
    sb = g.new("subroutine", "private", explicit=False)
    a = g.new("arg", "private", explicit=False)
    sb["children"] = [a]
    b["refs"] = [sb["id"]]
    t0["children"] = [b]
    t1["children"] = [c]
    m["children"] = [t0, t1, sb]
    f["children"] = [m]
    return {"config": {"display": ["public"], "proc_internals": False, "hide_undoc": False}, "files": [f]}


def witness_blockdata_extends():
    """block data unit: public type extending a private type of the same unit"""
    g = G.Gen(random.Random(0))
    f = g.new("file", "public", doc=False)
    bd = g.new("blockdata", "public", default=None)
    t0 = g.new("type", "private", explicit=True)
    c = g.new("component", "public", explicit=False)
    t1 = g.new("type", "public", explicit=False, ext=t0["id"])
    c2 = g.new("component", "public", explicit=False)
    t0["children"] = [c]
    t1["children"] = [c2]
    bd["children"] = [t0, t1]
    f["children"] = [bd]
    return {"config": {"display": ["public"], "proc_internals": False, "hide_undoc": False}, "files": [f]}


# witnesses of the findings that only the generated site shows: run as extra cases of the e2e stream
E2E_WITNESSES = (("C05-module-namelist-not-described", witness_module_namelist),
                 ("C05-inherited-binding-links-to-unselected-type", witness_inherited_binding),
                 ("C05-namelist-never-filtered", witness_namelist),
                 ("C05-blockdata-type-visible-before-prune", witness_blockdata_extends))


def replay_link_witnesses(ford, rep, d, stats):
    for fid, P in (("C05-link-to-unselected-bound-procedure", witness_link_binding()),
                   ("C05-link-inside-unselected-referenced-procedure", witness_link_referenced())):
        im = impl_prune(ford, P, d)
        if "error" in im:
            rep.tie_broken(f"witness {fid}: implementation raised {im['error']}")
            continue
        sel, ref = spec_selected(P)
        fails = oracle_links(P, im["links"], sel, ref)
        stats["witness_" + fid] = "fails" if fails else "holds"
        for ctx, lk, why in fails:
            page = im["links"][(ctx, lk)]
            cls = None if str(page).startswith("error: ") else classify_link(P, ctx, lk, page, sel, ref)
            rep.failing_input({"stream": "witness", "finding": fid, "why": why, "config": P["config"],
                               "files": G.render_project(P), "entity": ctx, "link": lk}, cls)


def replay_witnesses(ford, rep, d, variant, stats):
    for fid, P in (("C05-file-display-not-inherited", witness_file_display()), ("C05-enum-never-filtered", witness_enum()),
                   ("C05-namelist-never-filtered", witness_namelist()), ("C05-common-never-filtered", witness_common())):
        im = impl_prune(ford, P, d)
        if "error" in im:
            rep.tie_broken(f"witness {fid}: implementation raised {im['error']}")
            continue
        post_ids = sorted({i for i, *_ in im["post"]})
        fails = oracle_objects(P, post_ids, im["pages"])
        stats["witness_" + fid] = "fails" if fails else "holds"
        for eid, why in fails:
            rep.failing_input({"stream": "witness", "finding": fid, "why": why, "config": P["config"],
                               "files": G.render_project(P), "entity": eid}, classify(P, eid, why, mode=oracle_mode(why)))


# --------------------------------------------------------------------------- entry point

def translate():
    from translate import c05 as T

    T.translate()


def run(tier: str, seed: int, replay: str | None = None) -> int:
    rep = Report(PROP, tier, seed)
    lean = lean_prove(PROP, translate=translate, thorough=(tier == "thorough"))
    for b in lean.broken():
        rep.tie_broken("proof: " + b)
    ford = common.import_ford()
    rng = random.Random(seed * 7919 + 5)
    drv = Driver()
    quick = tier == "quick"
    n_micro = 3000 if quick else 30000
    n_prune = 500 if quick else 6000
    n_e2e = 96 if quick else 1500
    workers = min(16, os.cpu_count() or 4)
    stats = {"features": {}, "e2e_features": {}, "entities": 0, "dropped": 0, "distinct": set(), "samples": [],
             "oracle_failures": 0, "e2e_cases": 0}
    if replay:
        return run_replay(ford, drv, rep, lean, replay)
    ev_micro, bad_micro = micro_stream(ford, drv, rng, n_micro, rep, stats)
    with common.scratch_dir() as d:
        (d / "p").mkdir()
        variant = prune_stream(ford, drv, rng, n_prune, rep, stats, d / "p",
                               lrng=random.Random(seed * 15485863 + 23), xrng=random.Random(seed * 49979687 + 31),
                               hrng=random.Random(seed * 86028121 + 41))
        replay_witnesses(ford, rep, d / "p", variant, stats)
        replay_link_witnesses(ford, rep, d / "p", stats)
        t0 = time.time()
        e2e_stream(ford, drv, random.Random(seed * 104729 + 11), n_e2e, rep, stats, d, variant,
                   graphs=not quick, workers=workers, lrng=random.Random(seed * 32452843 + 29),
                   xrng=random.Random(seed * 67867967 + 37))
        stats["e2e_wall_s"] = round(time.time() - t0, 1)
    rep.coverage.update(
        evaluations=ev_micro + stats.get("prune_cases", 0) + stats["e2e_cases"],
        distinct_nontrivial=len(stats["distinct"]),
        rule="prune cases are generated projects (entity tree x permissions x docs x display/proc_internals metadata at "
             "file, module, type, procedure level x project options); non-trivial = at least one entity was removed by "
             "prune(); distinct by digest of the abstract project",
        samples=stats["samples"],
        traces_validated_against_impl=ev_micro + stats.get("prune_cases", 0) + stats["e2e_cases"],
        variant_decided=variant,
        link_variant_decided=stats.get("link_variant"),
        link_variant_discriminating_cases=stats.get("link_discriminating"),
        links_resolved_by_implementation=stats.get("links", 0),
        link_histogram=dict(sorted(stats.get("link_hist", {}).items())),
        link_oracle_failures=stats.get("link_oracle_failures", 0),
        e2e_link_occurrences=stats.get("e2e_links_seen", 0),
        e2e_pages_compared_tracer_by_tracer=stats.get("e2e_pages_compared", 0),
        variant_discriminating_cases=stats.get("discriminating"),
        entities_generated=stats["entities"],
        entities_removed_by_prune=stats["dropped"],
        oracle_failures=stats["oracle_failures"],
        correspondence_disagreements=bad_micro + stats.get("e2e_corr_disagreements", 0) + (0 if variant else 1)
        + (0 if stats.get("link_variant") or not variant else 1),
        prune_feature_histogram=dict(sorted(stats["features"].items())),
        e2e_cases=stats["e2e_cases"],
        e2e_graph_cases=stats.get("e2e_graph_cases"),
        e2e_feature_histogram=dict(sorted(stats["e2e_features"].items())),
        e2e_wall_s=stats.get("e2e_wall_s"),
        micro_histogram=stats.get("micro_histogram"),
        binding_name_links=stats.get("bind_links"),
        graph_nodes=stats.get("graph_nodes"),
        e2e_binding_name_links_compared=stats.get("e2e_bind_links", 0),
        witnesses={k: v for k, v in stats.items() if k.startswith("witness_")},
    )
    rep.assumptions += [
        "permissions are inputs (C04 decides them); the generator spells them explicitly and checks FORD parsed the same",
        "a procedure displayed by a selected binding / generic interface / final procedure counts as part of that entity's description (its doc and dummy arguments may appear there even if the procedure itself is private)",
        "templates (Jinja2), Markdown and the search indexer are on the implementation side only; the model predicts which tracer words occur on the site, not where on a page",
        "round 3: block data units, common blocks (members moved out of the parent's variables), namelists (module / submodule / program / procedure level), interface bodies inside generic interfaces, declared function results and type extension (same scoping unit) are generated; they carry no `[[...]]` links, and members of extended types are neither link sources nor targets (FORD resolves those through the declaring type: not modelled)",
        "the variables a selected namelist groups, and the members a selected extending type inherits (under the display options in force in the extending type), count as part of that entity's description",
        "a common block has no accessibility of its own (FORD's 'public' is not a declared accessibility): `display` cannot deselect it, `hide_undoc` and `proc_internals` can",
        "doc links: names are unique in a generated project (no shadowing between scopes); the Lean model resolves the bare `[[name]]` form, `[[name(entity)]]` and `[[parent:name]]` are generated for the oracle only; links to types declared inside procedures (no URL: FORD raises) are not generated; interface bodies are subroutines",
        "the model's page test (`checksPage`) stands for `visible` of the page owner; the equivalence is checked by the exact comparison of `visible` flags and page lists",
    ]
    return rep.finish(lean)


def run_replay(ford, drv, rep, lean, path):
    data = json.loads(Path(path).read_text())
    cases = data.get("cases") or data.get("first_disagreements") or []
    with common.scratch_dir() as d:
        for c in cases:
            files = c.get("files")
            cfg = c.get("config")
            if not files or not cfg:
                continue
            for n, t in files.items():
                (d / n).write_text(t)
            print(f"replay: config={cfg} why={c.get('why')}")
            for n, t in files.items():
                print(f"--- {n}\n{t}")
    rep.coverage.update(evaluations=len(cases), distinct_nontrivial=len(cases), rule="replay", samples=[],
                        traces_validated_against_impl=0)
    return rep.finish(lean)
