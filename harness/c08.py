"""C08 - recorded calls are exactly the user procedures a unit invokes.

Streams
  micro : `strip_paren`, CALL_RE.finditer, SUBCALL_RE.search, the chain clean-up, the QUOTES_RE
          masking loop and the cascade recognisers (BLOCK/ASSOCIATE/END/VARIABLE/ATTRIB/USE:
          hand-written Lean mirrors; FORMAT/ARITH_GOTO: the parse tree of the compiled regex,
          regenerated from the working tree and interpreted by the model, with the method
          `.match`/`.search` read from the call site) on random strings (exact comparison);
          `quote_split(";", .)` (statement separation) on random strings and on every word over
          {', ", ;, a} up to a fixed length.
  unit  : generated executable parts (AST -> text -> random legal layout -> file -> real FORD
          `Project` in-process):
          (a0) correspondence: the reader's statements of the executable part == the Lean
              `unitStatements` of the logical lines (`;` outside literals, literals with free
              content: other quote kind, doubled delimiter, `;`, `!`, `&`, call-like text);
          (a) correspondence: `unit.calls` before `correlate()` == the Lean `runUnit` on the
              statements the reader delivers; after `correlate()` the kept chains of length 1
              == the Lean `resolve1`;
          (b) property oracle: the identities in `unit.calls` after `correlate()` are exactly
              the user procedures the AST invokes (`spec`, structural recursion on the AST),
              each once.
"""
from __future__ import annotations

import random
import re
import sys
from pathlib import Path

from . import common
from .common import Driver, Report, lean_prove

PROP = "C08"

sys.path.insert(0, str(common.VERIF))
from translate import c08 as translator  # noqa: E402

# --------------------------------------------------------------------------
# the universe of names
# --------------------------------------------------------------------------

FUNC_POOL = ["fa", "fb", "sinx", "asin_", "cosf", "getv", "f2", "maxv", "lenx", "size_of", "ifx", "callf"]
SUB_POOL = ["sa", "sb", "run_all", "setup", "print_it", "init_all", "callme", "dowork"]
EXTF_POOL = ["ext", "extf", "sin_x", "hh", "realx"]
EXTS_POOL = ["exts", "do_it", "call_out"]
ARR_POOL = ["arr", "v", "sinv", "a2", "cosv", "fa_arr", "iff", "wherev"]
INTR_F = ["sin", "cos", "abs", "max", "min", "sqrt", "mod", "real", "int", "size", "sum", "maxval",
          "exp", "nint", "merge", "len_trim", "trim", "any", "all", "allocated", "present"]
TYPES = {
    "t0": {"scalars": ["val"], "arrays": ["q"], "objs": {}, "bound": {}},
    "t1": {"scalars": ["cnt"], "arrays": ["vals"], "objs": {"inner": "t0"},
           "bound": {"init": "sub", "get": "fun", "run": "sub"}},
    "t2": {"scalars": ["cnt"], "arrays": ["w"], "objs": {},
           "bound": {"reset": "sub", "fetch": "fun", "stop_": "sub"}},
}
TYPES_COLLIDING = dict(TYPES, t2={"scalars": ["cnt"], "arrays": ["w"], "objs": {},
                                  "bound": {"init": "sub", "get": "fun", "stop_": "sub"}})
OBJS = {"a": "t1", "b": "t2", "c": "t1"}
SCALARS = ["x", "y", "z", "i", "j", "n", "ok"]
LABELS = ["10", "20", "30", "100"]
GOTO_SPELLINGS = ["go to", "goto", "GO TO", "GOTO", "Go To", "go  to", "GoTo"]
LITERAL_POOL = ["'call g(1)'", '"x = f2(3)"', "'it''s sa(1)'", '"a%init()"', "'if (fa(1)) call sb'", "'('", '")"', "' '"]
FORMAT_ITEMS = ["(a, f(2), i3)", "(3(f8.2, 1x), a)", "('call g(1)', i0)", "(f2(3))", "(1x, 2(i4, sa(2)))"]


class Universe:
    def __init__(self, rng: random.Random):
        self.funcs = rng.sample(FUNC_POOL, rng.randint(2, 4))
        self.subs = rng.sample(SUB_POOL, rng.randint(2, 3))
        self.extf = rng.sample(EXTF_POOL, rng.randint(1, 2))
        self.exts = rng.sample(EXTS_POOL, rng.randint(1, 2))
        self.arrs = rng.sample(ARR_POOL, rng.randint(2, 3))
        self.garr = "garr"
        # name collisions between different entities (class of the de-duplication finding)
        self.collide = rng.random() < 0.12
        self.types = TYPES
        if self.collide:
            k = rng.random()
            if k < 0.3:
                self.types = TYPES_COLLIDING   # both types bind `init` and `get`
            elif k < 0.5:
                self.funcs.append("get")       # module function `get` and bound `get`
            elif k < 0.7:
                self.extf.append("vals")       # external function `vals` and component array `vals`
            else:
                self.exts.append("init")       # external subroutine `init` and bound `init`
        self.unit_kind = rng.choice(["subroutine", "subroutine", "function", "program"])
        # procedures defined in the module (superset of the ones the unit may call)
        self.module_funcs = list(self.funcs)
        self.module_subs = list(self.subs)
        # a local array that hides a host-associated module procedure of the same name
        # (only legal for host association, i.e. not in the program that USEs the module)
        self.shadow = None
        if self.unit_kind != "program" and rng.random() < 0.2:
            cands = [f for f in FUNC_POOL + SUB_POOL if f not in self.funcs and f not in self.subs]
            self.shadow = rng.choice(cands)
            if self.shadow in FUNC_POOL:
                self.module_funcs.append(self.shadow)
            else:
                self.module_subs.append(self.shadow)
            self.arrs.append(self.shadow)


# --------------------------------------------------------------------------
# AST generation.  Expressions and statements are nested tuples.
# --------------------------------------------------------------------------


class Gen:
    def __init__(self, rng: random.Random, u: Universe):
        self.r = rng
        self.u = u
        self.assoc = []  # stack of dicts name -> ('obj', type) | ('arr',) | ('scalar',)
        self.kinds = {}

    def note(self, k):
        self.kinds[k] = self.kinds.get(k, 0) + 1

    # ---- expressions
    def args(self, depth, lo=0, hi=3):
        n = self.r.randint(lo, hi)
        out = []
        for _ in range(n):
            e = self.literal() if self.r.random() < 0.10 else self.expr(depth + 1)
            if self.r.random() < 0.12:
                e = ("kw", self.r.choice(["dim", "mask", "n", "flag"]), e)
            out.append(e)
        return out

    def literal(self):
        """A character literal with free content: either quote kind as delimiter; the body is any
        text without a lone delimiter - the *other* quote character (an apostrophe in "...", a `"`
        in '...'), doubled delimiters, `;`, `!`, `&`, `%`, parentheses and call-like text naming
        the unit's own procedures.  Nothing in it is a call."""
        r = self.r
        self.note("literal")
        if r.random() < 0.25:
            return ("str", r.choice(LITERAL_POOL))
        q = r.choice("'\"")
        o = '"' if q == "'" else "'"
        names = self.u.funcs + self.u.subs + self.u.extf + self.u.exts
        out = []
        feats = set()
        for _ in range(r.randint(1, 6)):
            k = r.random()
            if k < 0.16:
                out.append(r.choice(["call ", " call ", "Call "]) + r.choice(names) + r.choice(["(1)", "(x)", "", "()", "(fa(2))"]))
            elif k < 0.28:
                out.append(r.choice(["x = ", "", "if (", " "]) + r.choice(names) + r.choice(["(1)", "(x, y)", "()"]))
            elif k < 0.34:
                out.append(r.choice(["a%init()", "b % fetch(2)", "a%vals(1)"]))
            elif k < 0.50:
                out.append(r.choice([";", "; ", " ; "])); feats.add("semicolon")
            elif k < 0.66:
                out.append(o); feats.add("other-quote")
            elif k < 0.72:
                out.append(q + q); feats.add("doubled-quote")
            elif k < 0.76:
                out.append(r.choice(["!", " ! ", "!!"])); feats.add("bang")
            elif k < 0.79:
                out.append(r.choice(["&", " & "])); feats.add("ampersand")
            elif k < 0.84:
                out.append(r.choice(["(", ")", "((", ") (", "%", "=>"]))
            else:
                out.append(r.choice(["it", "s", "can", "t continue", " over", "done", "100", " ", "n", "say", ", ", "x"]))
        body = "".join(out)
        if body.endswith("&"):
            body += " "          # a literal is never split over lines here
        for f in feats:
            self.note("literal:" + f)
        if "other-quote" in feats and body.count(o) % 2 == 1:
            self.note("literal:odd-other-quote")
            if "semicolon" in feats:
                self.note("literal:odd-other-quote+semicolon")
        return ("str", q + body + q)

    def assoc_names(self, kind):
        merged = {}
        for d in self.assoc:      # inner scopes shadow outer ones
            merged.update(d)
        return [(k, v) for k, v in merged.items() if v[0] == kind]

    def obj(self):
        """an object designator: (name, type)"""
        cands = list(OBJS.items())
        for k, v in self.assoc_names("obj"):
            cands.append((k, v[1]))
            cands.append((k, v[1]))
        return self.r.choice(cands)

    def subs(self, depth, n=1):
        out = []
        for _ in range(n):
            if self.r.random() < 0.2:
                lo = self.expr(depth + 1) if self.r.random() < 0.6 else None
                hi = self.expr(depth + 1) if self.r.random() < 0.6 else None
                out.append(("slice", lo, hi))
            else:
                out.append(self.expr(depth + 1))
        return out

    def expr(self, depth=0):
        r = self.r
        leaf = depth >= 3 or r.random() < 0.25
        if leaf:
            k = r.random()
            if k < 0.35:
                return ("var", r.choice(SCALARS))
            if k < 0.6:
                return ("num", r.choice(["1", "2", "10", "42"]))
            if k < 0.7:
                return ("real", r.choice(["1.0", "2.5e0", "1.d0", "3.0_8"]))
            if k < 0.8:
                return self.literal()
            if k < 0.9:
                o, t = self.obj()
                return ("comp", o, [(r.choice(self.u.types[t]["scalars"]), None)])
            sc = self.assoc_names("scalar")
            if sc:
                return ("var", r.choice(sc)[0])
            return ("var", r.choice(SCALARS))
        k = r.random()
        if k < 0.22:
            self.note("funref")
            return ("fun", r.choice(self.u.funcs + self.u.extf), self.args(depth, 0, 3))
        if k < 0.36:
            self.note("intrinsic")
            return ("intr", r.choice(INTR_F), self.args(depth, 1, 2))
        if k < 0.52:
            self.note("arrayref")
            names = self.u.arrs + [self.u.garr] + [n for n, _ in self.assoc_names("arr")]
            return ("arr", r.choice(names), self.subs(depth, r.choice([1, 1, 2])))
        if k < 0.60:
            self.note("component-array")
            o, t = self.obj()
            if self.u.types[t]["objs"] and r.random() < 0.4:
                io, it = r.choice(list(self.u.types[t]["objs"].items()))
                return ("comp", o, [(io, None), (r.choice(self.u.types[it]["arrays"]), self.subs(depth))])
            return ("comp", o, [(r.choice(self.u.types[t]["arrays"]), self.subs(depth))])
        if k < 0.70:
            self.note("bound-funref")
            o, t = self.obj()
            b = r.choice([k for k, v in self.u.types[t]["bound"].items() if v == "fun"])
            return ("tbf", o, t, b, self.args(depth, 0, 2))
        if k < 0.74:
            self.note("constructor")
            return ("ctor", r.choice(["t0", "t1", "t2"]), self.args(depth, 1, 2))
        if k < 0.90:
            op = r.choice(["+", "-", "*", "/", "**", "==", "<", ">=", "/=", ".and.", ".or.", "//", ".eq."])
            return ("bin", op, self.expr(depth + 1), self.expr(depth + 1))
        if k < 0.94:
            return ("un", r.choice(["-", ".not. "]), self.expr(depth + 1))
        if k < 0.97:
            return ("paren", self.expr(depth + 1))
        self.note("array-constructor")
        if r.random() < 0.5:
            return ("aconst", r.choice(["[", "(/"]), [self.expr(depth + 1) for _ in range(r.randint(1, 3))])
        return ("implied", self.expr(depth + 1), "i", ("num", "1"), self.expr(depth + 2))

    def lhs(self):
        r = self.r
        k = r.random()
        if k < 0.45:
            return ("var", r.choice(SCALARS))
        if k < 0.75:
            return ("arr", r.choice(self.u.arrs + [self.u.garr]), self.subs(1, 1))
        o, t = self.obj()
        if k < 0.88:
            return ("comp", o, [(r.choice(self.u.types[t]["scalars"]), None)])
        return ("comp", o, [(r.choice(self.u.types[t]["arrays"]), self.subs(1))])

    # ---- simple statements
    def call_stmt(self):
        r = self.r
        if r.random() < 0.3:
            self.note("call-bound")
            o, t = self.obj()
            b = r.choice([k for k, v in self.u.types[t]["bound"].items() if v == "sub"])
            return ("callb", o, t, b, self.args(0, 0, 2) if r.random() < 0.7 else None)
        name = r.choice(self.u.subs + self.u.exts)
        if r.random() < 0.3:
            self.note("call-noargs")
            return ("call", name, None)
        self.note("call")
        return ("call", name, self.args(0, 0, 3))

    def assign(self):
        self.note("assign")
        return ("assign", self.lhs(), self.expr(0))

    def action(self):
        """an action statement allowed after `if (...)` / a label"""
        r = self.r
        k = r.random()
        if k < 0.38:
            return self.assign()
        if k < 0.70:
            return self.call_stmt()
        if k < 0.80:
            # a computed GO TO is an action statement like any other: it may follow `if (...)`
            # and / or a statement label
            return self.cgoto()
        if k < 0.86:
            self.note("goto")
            return ("goto", r.choice(LABELS), r.choice(GOTO_SPELLINGS))
        if k < 0.91:
            return ("simple", r.choice(["return", "exit", "cycle", "continue", "stop"]))
        if k < 0.97:
            return self.io_stmt()
        return self.alloc_stmt()

    def cgoto(self):
        r = self.r
        self.note("computed-goto")
        sel = ("var", "i") if r.random() < 0.7 else self.expr(2)
        return ("cgoto", r.sample(LABELS, r.choice([1, 2, 2, 3])), sel, r.choice(GOTO_SPELLINGS),
                r.choice([" (", " (", "(", "  ("]), r.choice([", ", ",", " , "]), r.choice([") ", "), ", ")", "),", ") , "]))

    def io_stmt(self):
        r = self.r
        k = r.random()
        items = [self.literal() if r.random() < 0.2 else self.expr(1) for _ in range(r.randint(1, 3))]
        if k < 0.3:
            self.note("print")
            fmt = r.choice(["*", "*", "'(a, i0, f(2))'", '"(3f8.2)"'])
            return ("print", fmt, items)
        if k < 0.6:
            self.note("write")
            ctl = r.choice([[(None, "*"), (None, "*")], [("unit", "6"), ("fmt", "*")],
                            [(None, "*"), (None, "'(a, fa(1))'")], [("unit", ("expr", self.expr(1))), ("fmt", "'(i0)'")],
                            [(None, "s"), (None, "'(a)'")]])
            return ("write", ctl, items)
        if k < 0.72:
            self.note("read")
            return ("read", [self.lhs() for _ in range(r.randint(1, 2))])
        if k < 0.86:
            self.note("open")
            return ("open", [("unit", ("expr", self.expr(2))), ("file", r.choice(["'data(1).txt'", ("expr", ("intr", "trim", [("var", "s")]))]))])
        self.note("close")
        return ("close", self.expr(2))

    def alloc_stmt(self):
        r = self.r
        if r.random() < 0.3:
            self.note("deallocate")
            return ("deallocate", [r.choice(["pv", "pm"])])
        self.note("allocate")
        what = r.choice(["pv", "pm", "comp"])
        if what == "pv":
            tgt = ("arr", "pv", [self.expr(1)])
        elif what == "pm":
            tgt = ("arr", "pm", [self.expr(1), self.expr(1)])
        else:
            tgt = ("comp", "a", [("pvals", [self.expr(1)])])
        return ("allocate", r.choice([None, None, "real"]) if what != "comp" else None, tgt, r.random() < 0.3)

    def body(self, depth, lo=1, hi=3):
        out = []
        for _ in range(self.r.randint(lo, hi)):
            out.append(self.stmt(depth + 1))
        return out

    def stmt(self, depth=0):
        r = self.r
        k = r.random()
        if depth >= 2:
            k = k * 0.62  # only simple statements deep down
        if k < 0.20:
            return self.assign()
        if k < 0.36:
            return self.call_stmt()
        if k < 0.44:
            self.note("if-stmt")
            cond, act = self.expr(1), self.action()
            self.note("if-stmt+" + act[0])
            return ("ifstmt", cond, act)
        if k < 0.50:
            return self.io_stmt()
        if k < 0.53:
            return self.alloc_stmt()
        if k < 0.56:
            self.note("where-stmt")
            return ("wherestmt", self.expr(1), ("assign", ("arr", r.choice(self.u.arrs), [("slice", None, None)]), self.expr(1)))
        if k < 0.58:
            self.note("forall")
            return ("forall", "i", ("num", "1"), self.expr(2), ("assign", ("arr", r.choice(self.u.arrs), [("var", "i")]), self.expr(1)))
        if k < 0.62:
            return self.labelled_or_goto()
        # ---- constructs
        if k < 0.70:
            self.note("if-construct")
            arms = [(self.expr(1), self.body(depth))]
            for _ in range(r.choice([0, 0, 1, 2])):
                arms.append((self.expr(1), self.body(depth, 1, 2)))
            els = self.body(depth, 1, 2) if r.random() < 0.4 else None
            return ("ifblock", arms, els, r.random() < 0.3)
        if k < 0.76:
            kind = r.choice(["do", "do", "dowhile", "doconc"])
            self.note(kind)
            if kind == "do":
                return ("do", r.choice(["i", "j"]), self.expr(2), self.expr(2),
                        self.expr(2) if r.random() < 0.3 else None, self.body(depth))
            if kind == "dowhile":
                return ("dowhile", self.expr(1), self.body(depth))
            return ("doconc", "i", ("num", "1"), self.expr(2), self.body(depth, 1, 2))
        if k < 0.81:
            self.note("select-case")
            cases = [(r.choice(["(1)", "(2:3)", "(4, 5)", "(:0)"]), self.body(depth, 1, 2)) for _ in range(r.randint(1, 2))]
            return ("select", self.expr(1), cases, self.body(depth, 1, 1) if r.random() < 0.5 else None)
        if k < 0.85:
            self.note("where-construct")
            mk = lambda: ("assign", ("arr", r.choice(self.u.arrs), [("slice", None, None)]), self.expr(1))
            return ("whereblock", self.expr(1), [mk() for _ in range(r.randint(1, 2))],
                    [mk()] if r.random() < 0.4 else None)
        if k < 0.93:
            self.note("associate")
            items = []
            env = {}
            for nm in r.sample(["p", "q", "w", "rr"], r.randint(1, 2)):
                kk = r.random()
                if kk < 0.35:
                    o, t = self.obj()
                    items.append((nm, ("var", o)))
                    env[nm] = ("obj", t)
                elif kk < 0.55:
                    items.append((nm, ("var", r.choice(self.u.arrs))))
                    env[nm] = ("arr",)
                else:
                    items.append((nm, self.expr(1)))
                    env[nm] = ("scalar",)
            self.assoc.append(env)
            body = self.body(depth, 1, 3)
            self.assoc.pop()
            return ("associate", items, body, r.random() < 0.2)
        self.note("block")
        decls = []
        if r.random() < 0.6:
            decls.append(("plain", r.choice(["integer :: kk", "real :: tmp, tmp2", "logical :: flag2"])))
        if r.random() < 0.35:
            self.note("block-local-array")
            nm = r.choice(["bk", "loc", "sin2"])
            decls.append(("array", nm, r.choice([f"integer :: {nm}(3)", f"real :: {nm}(2, 2)", f"real, dimension(4) :: zz, {nm}(5)"])))
        return ("block", decls, self.body(depth, 1, 3))

    def labelled_or_goto(self):
        r = self.r
        k = r.random()
        if k < 0.30:
            self.note("labelled")
            act = self.action() if r.random() < 0.7 else ("ifstmt", self.expr(1), self.action())
            self.note("labelled+" + act[0] + ("+" + act[2][0] if act[0] == "ifstmt" else ""))
            return ("labelled", r.choice(LABELS), act)
        if k < 0.45:
            self.note("format")
            # blanks around the keyword are free; `format(` without a blank is just as legal
            gap = r.choice([" ", " ", "  ", ""])
            if gap == "":
                self.note("format-without-blank")
            return ("format", r.choice(LABELS), r.choice(FORMAT_ITEMS), r.choice([" ", " ", "  "]),
                    r.choice(["format", "format", "FORMAT", "Format"]), gap)
        if k < 0.6:
            return self.cgoto()
        if k < 0.75:
            self.note("arith-if")
            return ("arithif", self.expr(1), r.sample(LABELS, 3))
        if k < 0.85:
            self.note("goto")
            return ("goto", r.choice(LABELS), r.choice(GOTO_SPELLINGS))
        if k < 0.93:
            self.note("sync-images")
            return ("sync", self.expr(2))
        self.note("doc-comment")
        return ("doc", "!! calls " + r.choice(self.u.subs) + "(1) later")


# --------------------------------------------------------------------------
# rendering (AST -> one logical statement per line)
# --------------------------------------------------------------------------


class Render:
    def __init__(self, rng: random.Random):
        self.r = rng

    def case(self, w):
        k = self.r.random()
        if k < 0.8:
            return w
        if k < 0.9:
            return w.upper()
        return w.capitalize()

    def sp(self, p=0.25):
        return " " if self.r.random() < p else ""

    def name(self, n):
        return self.case(n)

    def arglist(self, args):
        inner = ("," + self.sp(0.8)).join(self.e(a) for a in args)
        if not args:
            return "(" + self.sp(0.1) + ")" if False else "()"
        return "(" + self.sp(0.1) + inner + self.sp(0.1) + ")"

    def sub(self, s):
        if isinstance(s, tuple) and s[0] == "slice":
            return (self.e(s[1]) if s[1] else "") + ":" + (self.e(s[2]) if s[2] else "")
        return self.e(s)

    def pct(self):
        return self.r.choice(["%", "%", "%", " % ", "% "])

    def e(self, n):
        t = n[0]
        if t in ("var",):
            return self.name(n[1])
        if t in ("num", "real", "str", "log"):
            return n[1]
        if t == "kw":
            return n[1] + self.sp() + "=" + self.sp() + self.e(n[2])
        if t in ("fun", "intr", "ctor"):
            return self.name(n[1]) + self.sp(0.15) + self.arglist(n[2])
        if t == "arr":
            return self.name(n[1]) + self.sp(0.1) + "(" + ", ".join(self.sub(s) for s in n[2]) + ")"
        if t == "comp":
            s = self.name(n[1])
            for cname, subs in n[2]:
                s += self.pct() + self.name(cname)
                if subs is not None:
                    s += "(" + ", ".join(self.sub(x) for x in subs) + ")"
            return s
        if t == "tbf":
            return self.name(n[1]) + self.pct() + self.name(n[3]) + self.sp(0.1) + self.arglist(n[4])
        if t == "bin":
            return self.e(n[2]) + " " + n[1] + " " + self.e(n[3])
        if t == "un":
            return n[1] + self.e(n[2])
        if t == "paren":
            return "(" + self.e(n[1]) + ")"
        if t == "aconst":
            close = "]" if n[1] == "[" else "/)"
            return n[1] + ", ".join(self.e(x) for x in n[2]) + close
        if t == "implied":
            return "[(" + self.e(n[1]) + ", " + n[2] + " = " + self.e(n[3]) + ", " + self.e(n[4]) + ")]"
        if t == "expr":
            return self.e(n[1])
        raise ValueError(n)

    def ctl(self, items):
        out = []
        for key, val in items:
            v = self.e(val) if isinstance(val, tuple) else val
            out.append(v if key is None else f"{key}={v}")
        return ", ".join(out)

    def simple(self, n):
        """one-line statements"""
        t = n[0]
        if t == "assign":
            return self.e(n[1]) + " = " + self.e(n[2])
        if t == "call":
            s = self.case("call") + self.r.choice([" ", " ", "  "]) + self.name(n[1])
            if n[2] is not None:
                s += self.sp(0.15) + self.arglist(n[2])
            return s
        if t == "callb":
            s = self.case("call") + " " + self.name(n[1]) + self.pct() + self.name(n[3])
            if n[4] is not None:
                s += self.sp(0.1) + self.arglist(n[4])
            return s
        if t == "goto":
            return n[2] + " " + n[1]
        if t == "simple":
            return n[1]
        if t == "ifstmt":
            return self.case("if") + self.sp(0.7) + "(" + self.e(n[1]) + ")" + self.r.choice([" ", " ", "  "]) + self.simple(n[2])
        if t == "print":
            return self.case("print") + " " + n[1] + ", " + ", ".join(self.e(x) for x in n[2])
        if t == "write":
            return self.case("write") + self.sp(0.3) + "(" + self.ctl(n[1]) + ") " + ", ".join(self.e(x) for x in n[2])
        if t == "read":
            return "read(*,*) " + ", ".join(self.e(x) for x in n[1])
        if t == "open":
            return "open(" + self.ctl(n[1]) + ")"
        if t == "close":
            return "close(" + self.e(n[1]) + ")"
        if t == "allocate":
            pre = (n[1] + " :: ") if n[1] else ""
            return "allocate(" + pre + self.e(n[2]) + (", stat=i" if n[3] else "") + ")"
        if t == "deallocate":
            return "deallocate(" + ", ".join(n[1]) + ")"
        if t == "wherestmt":
            return self.case("where") + " (" + self.e(n[1]) + ") " + self.simple(n[2])
        if t == "forall":
            return "forall (" + n[1] + " = " + self.e(n[2]) + ":" + self.e(n[3]) + ") " + self.simple(n[4])
        if t == "labelled":
            return n[1] + " " + self.simple(n[2])
        if t == "format":
            return n[1] + n[3] + n[4] + n[5] + n[2]
        if t == "cgoto":
            return n[3] + n[4] + n[5].join(n[1]) + n[6] + self.e(n[2])
        if t == "arithif":
            return "if (" + self.e(n[1]) + ") " + ", ".join(n[2])
        if t == "sync":
            return "sync images (" + self.e(n[1]) + ")"
        if t == "doc":
            return n[1]
        raise ValueError(n)

    def stmts(self, body, out):
        for s in body:
            self.stmt(s, out)

    def stmt(self, n, out):
        t = n[0]
        if t == "ifblock":
            arms, els, named = n[1], n[2], n[3]
            lab = "chk: " if named else ""
            for k, (cond, body) in enumerate(arms):
                if k == 0:
                    out.append(lab + self.case("if") + " (" + self.e(cond) + ") " + self.case("then"))
                else:
                    out.append(self.r.choice(["else if", "elseif", "ELSE IF"]) + " (" + self.e(cond) + ") then")
                self.stmts(body, out)
            if els is not None:
                out.append("else")
                self.stmts(els, out)
            out.append(self.r.choice(["end if", "endif", "END IF"]) + (" chk" if named else ""))
        elif t == "do":
            s = "do " + n[1] + " = " + self.e(n[2]) + ", " + self.e(n[3])
            if n[4] is not None:
                s += ", " + self.e(n[4])
            out.append(s)
            self.stmts(n[5], out)
            out.append(self.r.choice(["end do", "enddo"]))
        elif t == "dowhile":
            out.append(self.case("do") + " " + self.case("while") + self.sp(0.7) + "(" + self.e(n[1]) + ")")
            self.stmts(n[2], out)
            out.append("end do")
        elif t == "doconc":
            out.append("do concurrent (" + n[1] + " = " + self.e(n[2]) + ":" + self.e(n[3]) + ")")
            self.stmts(n[4], out)
            out.append("end do")
        elif t == "select":
            out.append(self.case("select case") + " (" + self.e(n[1]) + ")")
            for val, body in n[2]:
                out.append("case " + val)
                self.stmts(body, out)
            if n[3] is not None:
                out.append("case default")
                self.stmts(n[3], out)
            out.append("end select")
        elif t == "whereblock":
            out.append("where (" + self.e(n[1]) + ")")
            for a in n[2]:
                out.append(self.simple(a))
            if n[3] is not None:
                out.append(self.r.choice(["elsewhere", "else where"]))
                for a in n[3]:
                    out.append(self.simple(a))
            out.append("end where")
        elif t == "associate":
            items = ", ".join(nm + self.r.choice([" => ", "=>", " =>"]) + self.e(ex) for nm, ex in n[1])
            out.append(("asc: " if n[3] else "") + self.case("associate") + self.sp(0.7) + "(" + items + ")")
            self.stmts(n[2], out)
            out.append(self.r.choice(["end associate", "END ASSOCIATE", "endassociate"]) + (" asc" if n[3] else ""))
        elif t == "block":
            out.append(self.case("block"))
            for d in n[1]:
                out.append(d[-1])
            self.stmts(n[2], out)
            out.append("end block")
        else:
            out.append(self.simple(n))


NO_JOIN = ("labelled", "format", "doc")


def layout(rng: random.Random, stmts: list[str], feat: set, logical: list | None = None) -> list[str]:
    """Physical lines: `;` joins, `&` continuations at blanks outside literals, trailing comments.
    `logical` (if given) receives, per group of physical lines, the completed logical line as
    Fortran's continuation rules define it (a leading `&` joins directly, its absence joins
    with one blank; comments and interspersed blank/comment lines vanish)."""
    lines = []
    k = 0
    while k < len(stmts):
        s = stmts[k]
        text = s
        special = s.startswith("!!") or s[:1].isdigit()
        # join with the following statement(s)
        while (not special and k + 1 < len(stmts) and rng.random() < 0.12
               and not stmts[k + 1].startswith("!!") and not stmts[k + 1][:1].isdigit()):
            k += 1
            text += rng.choice(["; ", ";", " ; "]) + stmts[k]
            feat.add("semicolon")
        k += 1
        ind = rng.choice(["", "  ", "    ", "      "])
        if s.startswith("!!"):
            lines.append(ind + text)
            continue
        joined = ""
        # continuation breaks
        pieces = [text]
        if rng.random() < 0.18:
            cands = break_positions(text)
            if cands:
                nb = 1 if len(cands) < 2 or rng.random() < 0.7 else 2
                pos = sorted(rng.sample(cands, nb))
                pieces = []
                last = 0
                for p in pos:
                    pieces.append(text[last:p])
                    last = p
                pieces.append(text[last:])
                feat.add("continuation")
        for i, pc in enumerate(pieces):
            lead = i > 0 and rng.random() < 0.5
            ln = ind + ("& " if lead else "") + pc
            if i < len(pieces) - 1:
                ln += " &"
            # the logical line: code part without the continuation marks
            joined = (joined + " " + pc) if lead else (joined.strip() + " " + pc.strip())
            if i < len(pieces) - 1:
                joined += " "
            if rng.random() < 0.08:
                ln += rng.choice(["  ! note: call cm(1)", " ! fa(2) here", " !"])
                feat.add("comment")
            lines.append(ln)
            if i < len(pieces) - 1 and rng.random() < 0.1:
                lines.append(rng.choice(["", "   ! comment between, zz(3)"]))
                feat.add("line-in-continuation")
        if logical is not None:
            logical.append(joined)
    return lines


def break_positions(text: str) -> list[int]:
    """indices of blanks outside character literals (a continuation may be placed there)"""
    out = []
    q = None
    for i, c in enumerate(text):
        if q is None:
            if c in "'\"":
                q = c
            elif c == " " and 0 < i < len(text) - 1 and text[i - 1] != " ":
                out.append(i)
        elif c == q:
            q = None
    return out


# --------------------------------------------------------------------------
# specification: which user procedures does the AST invoke?
# --------------------------------------------------------------------------


class Spec:
    """Structural recursion over the AST.  `refs` lists every parenthesised / called designator
    with its identity and the context it occurs in (used to classify known defect classes)."""

    def __init__(self, u: Universe):
        self.u = u
        self.calls = []  # identities of invoked user procedures (with repetition)
        self.refs = []   # (last name, identity, context)
        self.ctx = "normal"
        self.block_arrays = []
        self.format_noblank_heads = []
        self.sync = False

    def proc_id(self, name):
        if name in self.u.funcs or name in self.u.subs:
            return ("proc", name)
        return ("name", name)

    def invoke(self, ident, last):
        self.calls.append((ident, self.ctx))
        self.refs.append((last, ident))

    def e(self, n):
        if n is None:
            return
        t = n[0]
        if t in ("var", "num", "real", "str", "log"):
            return
        if t == "kw":
            return self.e(n[2])
        if t == "expr":
            return self.e(n[1])
        if t == "fun":
            self.invoke(self.proc_id(n[1]), n[1])
            for a in n[2]:
                self.e(a)
        elif t == "intr":
            for a in n[2]:
                self.e(a)
        elif t == "ctor":
            self.refs.append((n[1], ("type", n[1])))
            for a in n[2]:
                self.e(a)
        elif t == "arr":
            self.refs.append((n[1], ("var", n[1])))
            for s in n[2]:
                self.sub(s)
        elif t == "comp":
            for cname, subs in n[2]:
                if subs is not None:
                    self.refs.append((cname, ("component", cname)))
                    for s in subs:
                        self.sub(s)
        elif t == "tbf":
            self.invoke(("bound", n[2], n[3]), n[3])
            for a in n[4]:
                self.e(a)
        elif t == "bin":
            self.e(n[2])
            self.e(n[3])
        elif t in ("un", "paren"):
            self.e(n[-1])
        elif t == "aconst":
            for x in n[2]:
                self.e(x)
        elif t == "implied":
            self.e(n[1]); self.e(n[3]); self.e(n[4])
        elif t == "slice":
            self.e(n[1]); self.e(n[2])
        else:
            raise ValueError(n)

    def sub(self, s):
        if isinstance(s, tuple) and s[0] == "slice":
            self.e(s[1]); self.e(s[2])
        else:
            self.e(s)

    def ctl(self, items):
        for _, v in items:
            if isinstance(v, tuple):
                self.e(v)

    def body(self, b):
        for s in b:
            self.s(s)

    def s(self, n):
        t = n[0]
        if t == "assign":
            self.e(n[1]); self.e(n[2])
        elif t == "call":
            self.invoke(self.proc_id(n[1]), n[1])
            for a in n[2] or []:
                self.e(a)
        elif t == "callb":
            self.invoke(("bound", n[2], n[3]), n[3])
            for a in n[4] or []:
                self.e(a)
        elif t in ("goto", "simple", "doc"):
            pass
        elif t == "format":
            if n[5] == "":
                # tokens directly followed by `(` in the item list (character literals masked)
                items = re.sub(r"'[^']*'|\"[^\"]*\"", "''", n[2])
                self.format_noblank_heads += [m.lower() for m in re.findall(r"(\w+)\s*\(", items)]
        elif t == "ifstmt":
            if n[2][0] == "cgoto":
                # the logical IF and its action are ONE statement: the context of the condition
                # is the statement's
                old = self.ctx
                self.ctx = "computed-goto"
                self.e(n[1])
                self.ctx = old
            else:
                self.e(n[1])
            self.s(n[2])
        elif t == "print":
            for x in n[2]:
                self.e(x)
        elif t == "write":
            self.ctl(n[1])
            for x in n[2]:
                self.e(x)
        elif t == "read":
            for x in n[1]:
                self.e(x)
        elif t == "open":
            self.ctl(n[1])
        elif t == "close":
            self.e(n[1])
        elif t == "allocate":
            self.e(n[2])
        elif t == "deallocate":
            pass
        elif t == "wherestmt":
            self.e(n[1]); self.s(n[2])
        elif t == "forall":
            self.e(n[2]); self.e(n[3]); self.s(n[4])
        elif t == "labelled":
            inner = n[2]
            tgt = inner[2] if inner[0] == "ifstmt" else inner
            noarg = (tgt[0] == "call" and tgt[2] is None) or (tgt[0] == "callb" and tgt[4] is None)
            if noarg:
                # only the CALL itself is in the special context, not the IF condition
                if inner[0] == "ifstmt":
                    self.e(inner[1])
                old = self.ctx
                self.ctx = "labelled-call-noargs"
                self.s(tgt)
                self.ctx = old
            else:
                self.s(inner)
        elif t == "cgoto":
            old = self.ctx
            self.ctx = "computed-goto"
            self.e(n[2])
            self.ctx = old
        elif t == "arithif":
            self.e(n[1])
        elif t == "sync":
            self.sync = True
            self.e(n[1])
        elif t == "ifblock":
            for cond, body in n[1]:
                self.e(cond); self.body(body)
            if n[2] is not None:
                self.body(n[2])
        elif t == "do":
            self.e(n[2]); self.e(n[3]); self.e(n[4]); self.body(n[5])
        elif t == "dowhile":
            self.e(n[1]); self.body(n[2])
        elif t == "doconc":
            self.e(n[2]); self.e(n[3]); self.body(n[4])
        elif t == "select":
            self.e(n[1])
            for _, b in n[2]:
                self.body(b)
            if n[3] is not None:
                self.body(n[3])
        elif t == "whereblock":
            self.e(n[1])
            for a in n[2]:
                self.s(a)
            for a in n[3] or []:
                self.s(a)
        elif t == "associate":
            for _, ex in n[1]:
                self.e(ex)
            self.body(n[2])
        elif t == "block":
            for d in n[1]:
                if d[0] == "array":
                    self.block_arrays.append(d[1])
            self.body(n[2])
        else:
            raise ValueError(n)


def expected_set(spec: Spec) -> set:
    return {i for i, _ in spec.calls}


def classify_diff(spec: Spec, missing: set, extra: set, dup: list) -> tuple[set, list]:
    """Explain every element of the difference by a known defect class; returns
    (classes that explain something, unexplained elements)."""
    classes = set()
    unexplained = []
    idents_by_last = {}
    for last, ident in spec.refs:
        idents_by_last.setdefault(last, set()).add(ident)
    for m in sorted(missing, key=str):
        last = m[-1]
        ctxs = {c for i, c in spec.calls if i == m}
        if len(idents_by_last.get(last, ())) > 1:
            classes.add("C08-dedup-last-chain-element")
        elif ctxs and ctxs <= {"labelled-call-noargs", "computed-goto"}:
            if "labelled-call-noargs" in ctxs:
                classes.add("C08-labelled-call-without-arglist")
            if "computed-goto" in ctxs:
                classes.add("C08-computed-goto-selector-not-scanned")
        else:
            unexplained.append(("missing", m))
    for e in sorted(extra, key=str):
        if e[0] == "name" and e[1] in spec.block_arrays:
            classes.add("C08-block-local-array-recorded")
        elif e == ("name", "images") and spec.sync:
            classes.add("C08-sync-images-keyword-recorded")
        elif e[0] in ("name", "proc") and e[-1] in spec.format_noblank_heads:
            classes.add("C08-format-without-blank-scanned")
        else:
            unexplained.append(("extra", e))
    for d in dup:
        unexplained.append(("duplicate", d))
    return classes, unexplained


# --------------------------------------------------------------------------
# the generated project file
# --------------------------------------------------------------------------


def module_text(u: Universe) -> list[str]:
    L = ["module m_types", "  implicit none", f"  real :: {u.garr}(100)"]
    for tn, td in u.types.items():
        L.append(f"  type :: {tn}")
        for s in td["scalars"]:
            L.append(f"    integer :: {s}")
        for a in td["arrays"]:
            L.append(f"    real :: {a}(10)")
        if tn == "t1":
            L.append("    real, allocatable :: pvals(:)")
        for o, ot in td["objs"].items():
            L.append(f"    type({ot}) :: {o}")
        if td["bound"]:
            L.append("  contains")
            for b in td["bound"]:
                L.append(f"    procedure :: {b} => {tn}_{b}")
        L.append(f"  end type {tn}")
    L.append("contains")
    for tn, td in u.types.items():
        for b, kind in td["bound"].items():
            if kind == "sub":
                L += [f"  subroutine {tn}_{b}(self, k)", f"    class({tn}) :: self", "    integer, optional :: k",
                      f"  end subroutine {tn}_{b}"]
            else:
                L += [f"  function {tn}_{b}(self, k, k2) result(r)", f"    class({tn}) :: self",
                      "    integer, optional :: k, k2", "    real :: r", "    r = 0.0", f"  end function {tn}_{b}"]
    for f in u.module_funcs:
        L += [f"  function {f}(p1, p2, p3) result(r)", "    real, optional :: p1, p2, p3", "    real :: r", "    r = 1.0",
              f"  end function {f}"]
    for s in u.module_subs:
        L += [f"  subroutine {s}(p1, p2, p3)", "    real, optional :: p1, p2, p3", f"  end subroutine {s}"]
    return L


def decl_lines(u: Universe) -> list[str]:
    L = ["real :: x, y, z", "integer :: i, j, n", "logical :: ok", "character(len=20) :: s"]
    for k, a in enumerate(u.arrs):
        L.append([f"real :: {a}(10, 10)", f"integer, dimension(10,10) :: {a}", f"real :: {a}(10,10)"][k % 3])
    L.append("real, allocatable :: pv(:), pm(:,:)")
    for o, t in OBJS.items():
        L.append(f"type({t}) :: {o}")
    return L


UNIT_NAME = "main_unit"


def build_file(u: Universe, exec_lines: list[str]) -> tuple[list[str], str]:
    """returns (physical lines, header of the unit under test)"""
    mod = module_text(u)
    decls = ["  " + d for d in decl_lines(u)]
    if u.unit_kind == "program":
        head = f"program {UNIT_NAME}"
        unit = [head, "  use m_types", "  implicit none"] + decls + exec_lines + [f"end program {UNIT_NAME}"]
        return mod + ["end module m_types", ""] + unit, head
    if u.unit_kind == "function":
        head = f"function {UNIT_NAME}(d1) result(res)"
        unit = [head, "    real :: d1, res"] + decls + exec_lines + [f"end function {UNIT_NAME}"]
    else:
        head = f"subroutine {UNIT_NAME}(d1)"
        unit = [head, "    real :: d1"] + decls + exec_lines + [f"end subroutine {UNIT_NAME}"]
    return mod + unit + ["end module m_types"], head


def visible_names(u: Universe):
    vs = ["x", "y", "z", "i", "j", "n", "ok", "s", "pv", "pm", "d1", u.garr] + list(u.arrs) + list(OBJS)
    if u.unit_kind == "function":
        vs.append("res")
    types = list(TYPES)
    procs = list(u.module_funcs) + list(u.module_subs) + [f"{t}_{b}" for t, td in u.types.items() for b in td["bound"]] + [UNIT_NAME]
    return vs, types, procs


# --------------------------------------------------------------------------
# running the real code
# --------------------------------------------------------------------------


class Impl:
    def __init__(self):
        self.ford = common.import_ford()
        import ford.fortran_project as fp
        import ford.sourceform as sf
        import ford.settings as st
        import ford.reader as rd
        self.fp, self.sf, self.st, self.rd = fp, sf, st, rd

    def reader_lines(self, path: Path) -> list[str]:
        s = self.st.ProjectSettings()
        with common.quiet():
            return list(self.rd.FortranReader(str(path), s.docmark, s.predocmark, s.docmark_alt, s.predocmark_alt))

    def run(self, srcdir: Path):
        """(pre-correlate chains, post-correlate identities) of the unit under test, or an error string"""
        self.sf.namelist = self.sf.NameSelector()
        settings = self.st.ProjectSettings(src_dir=[srcdir], preprocess=False, dbg=False)
        try:
            with common.quiet():
                proj = self.fp.Project(settings)
            unit = self.find_unit(proj)
            if unit is None:
                return ("err", "unit under test not found after parsing")
            pre = [[str(x) for x in ch] for ch in unit.calls]
            with common.quiet():
                proj.correlate()
            post = [self.ident(c) for c in unit.calls]
            return ("ok", pre, post)
        except Exception as e:  # noqa
            return ("err", f"{type(e).__name__}: {e}")

    @staticmethod
    def find_unit(proj):
        for p in proj.programs:
            if p.name.lower() == UNIT_NAME:
                return p
        for m in proj.modules:
            for p in list(m.subroutines) + list(m.functions):
                if p.name.lower() == UNIT_NAME:
                    return p
        return None

    def ident(self, c):
        sf = self.sf
        if isinstance(c, str):
            return ("name", c.lower())
        if isinstance(c, sf.FortranBoundProcedure):
            return ("bound", str(getattr(c.parent, "name", "?")).lower(), c.name.lower())
        if isinstance(c, (sf.FortranSubroutine, sf.FortranFunction)):
            return ("proc", c.name.lower())
        return ("other:" + type(c).__name__, str(getattr(c, "name", "?")).lower())


# --------------------------------------------------------------------------
# micro stream
# --------------------------------------------------------------------------

MICRO_ALPHA = ["a", "b1", "_", " ", "(", ")", "()", "%", " % ", "call ", "if", "if (", ",", "=", "f(", "x)", "\t",
               "CALL", "If ", "=>", "'", '"', "''", "+", "1", ":", "go to (", "goto(", "1,2", "end", " block",
               "associate (", "format (", "10 ", "integer", "type", " is", "::", "real", "use ", "data", "intent(in)",
               "class", " default", "double  precision", "dimension", "/", "bind(c)", "function", " ::", "lbl:"]
STARTERS = {
    "subcall": ["call ", "CALL  ", "if (a) call ", "if(x)call ", "if (f()) call ", "call a%", "call a % b()%", "If (a) (b) call "],
    "callre": ["a%b(", "a () % c(", "f (", "x%y%z(", "a%b()%c", " q % r (", "a%()"],
    "FORMAT_RE": ["10 format (", "100  FORMAT (", "10 format(", "format (", "10 format ()", "1\tformat\t(a)",
                  " 10 format (a)", "10format (a)", "x 10 format (a)", "10 format  (a) x", "1 0 format (a)"],
    "ARITH_GOTO_RE": ["go to (", "goto (1,2", "GO  TO (10, 20)", "x goto(1)", "goto ( 1 , 2 ) ", "go to ()",
                      "if (a) go to (10, 20), i", "10 go to (1) i", "10 if (x) goto(1,2)", "if(a)GoTo (1 ,2)", " goto (1)",
                      "go to (1, a)", "go to (10", "got o (1)", "10  go to(1),", "x = 1; go to (3)"],
    "BLOCK_RE": ["block", "lbl: block", "lbl : BLOCK ", "block data", " block", "a b: block", ": block"],
    "ASSOCIATE_RE": ["associate (", "lbl: associate(", "ASSOCIATE (", "associate ()", "associate (a => b) ", "1: associate ("],
    "END_RE": ["end", "end ", "END block", "end block data", "endassociate", "end associate x", "end subroutine",
               "end function f", "end if", "endtype", "end module", "end block\tdata", "endblock data x", "end submodule s",
               "end procedure", "end interface", "end enum", "end program p"],
    "VARIABLE_RE": ["integer", "real", "double precision", "doubleprecision", "type", "type is", "class default", "class is",
                    "class(", "character", "logical", "complex", "procedure", "enumerator", "double complex", "type  isx",
                    "class  defaults", "TYPE(", "Real*"],
    "ATTRIB_RE": ["asynchronous", "allocatable", "data", "dimension", "external", "optional", "parameter", "pointer",
                  "private", "protected", "public", "save", "target", "value", "volatile", "intent(in)", "intent ( in )",
                  "intent(in out)", "bind(c)", "bind (c, name=(x))", "BIND(C) ::", "intent()", "data(", "save::", "save ::",
                  "parameter(", "PARAMETER(n = 3)", "Parameter (", "parameter", "parameterx(", "parameter::", "pointer(",
                  "parameter/", "parameter ("],
    "USE_RE": ["use m", "use :: m", "use, intrinsic :: iso", "use,non_intrinsic::m", "use m, only: x", "use  m ,", "usem",
               "use ::", "use, intrinsic m", "use , non_intrinsic :: m", "use m x", "USE M"],
}
QS_ALPHA = ["'", '"', "'", '"', "''", '""', ";", ";", " ; ", ";;", "a", " ", "x = 1", "call f(1)", "it", "s", "(", ")", "!", "&",
            "print *, ", "'a;b'", '"c;d"', "\"it's\"", "'say \"no\"'", ","]
TAILS = ["", " ", "x", " x", "(", " (", "::", " :: ", ",", "*", "/", "=", ")", " y)", "1", "_", ":"]
RX_NAMES = ["FORMAT_RE", "ARITH_GOTO_RE", "BLOCK_RE", "ASSOCIATE_RE", "END_RE", "VARIABLE_RE", "ATTRIB_RE", "USE_RE"]


def real_mask(sf, line: str) -> str:
    """The masking loop at the top of FortranContainer.__init__ (copied: it is inline there),
    driven by the real QUOTES_RE."""
    Q = sf.QUOTES_RE
    strings = []
    search_from = 0
    while quote := Q.search(line[search_from:]):
        strings.append(quote.group())
        line = line[0:search_from] + Q.sub(f'"{len(strings) - 1}"', line[search_from:], count=1)
        search_from += Q.search(line[search_from:]).end(0)
    return line


def micro_stream(impl: Impl, drv: Driver, rng, n, rep: Report, qs_len: int = 6):
    sf = impl.sf
    import ford.utils as U
    FC = sf.FortranContainer
    var_re = re.compile(FC.VARIABLE_STRING.format(""), re.IGNORECASE)
    rx = {"FORMAT_RE": FC.FORMAT_RE, "ARITH_GOTO_RE": FC.ARITH_GOTO_RE, "BLOCK_RE": FC.BLOCK_RE,
          "ASSOCIATE_RE": FC.ASSOCIATE_RE, "END_RE": FC.END_RE, "VARIABLE_RE": var_re, "ATTRIB_RE": FC.ATTRIB_RE,
          "USE_RE": FC.USE_RE}
    reqs, exp = [], []
    for k in range(n):
        s = "".join(rng.choice(MICRO_ALPHA) for _ in range(rng.randint(0, 9)))
        which = k % 7
        rxname = rng.choice(RX_NAMES)
        st = {1: "callre", 2: "subcall", 5: rxname}.get(which)
        if st and rng.random() < 0.7:
            s = rng.choice(STARTERS[st]).replace("\\t", "\t") + rng.choice(TAILS) + (s if rng.random() < 0.5 else rng.choice(TAILS))
        if which == 0:
            d = rng.randint(0, 3)
            reqs.append(["c08.strip", str(d), s]); exp.append(["ok"] + U.strip_paren(s, d))
        elif which == 1:
            reqs.append(["c08.callre", s]); exp.append(["ok"] + [m["call_chain"] for m in FC.CALL_RE.finditer(s)])
        elif which == 2:
            m = FC.SUBCALL_RE.search(s)
            reqs.append(["c08.subcall", s]); exp.append(["ok", m["call_chain"]] if m else ["none"])
        elif which == 3:
            reqs.append(["c08.chain", s]); exp.append(["ok"] + sf.CALL_AND_WHITESPACE_RE.sub("", s).lower().split("%"))
        elif which == 4:
            reqs.append(["c08.mask", s]); exp.append(["ok", real_mask(sf, s)])
        elif which == 6:
            # statement separation: `quote_split(";", logical line)` as the reader calls it
            s = "".join(rng.choice(QS_ALPHA) for _ in range(rng.randint(0, 10)))
            reqs.append(["c08.qsplit", s]); exp.append(["ok"] + U.quote_split(";", s))
        else:
            name = rxname
            s2 = s.strip()
            reqs.append(["c08.rx", name, s2])
            if name == "ARITH_GOTO_RE":
                exp.append(["ok", "1" if rx[name].search(s2) else "0"])
            else:
                m = rx[name].match(s2)
                if not m:
                    exp.append(["ok", "0"])
                elif name == "ASSOCIATE_RE":
                    exp.append(["ok", "1", m["associations"]])
                elif name == "END_RE":
                    exp.append(["ok", "1", (m.group(1) or "-").lower() if m.group(1) else "-"])
                else:
                    exp.append(["ok", "1"])
    # statement separation, exhaustively: every word over {', ", ;, a} up to a fixed length (the
    # mechanism is a two-flag scanner with one character of look-ahead, so every combination of
    # state, character and look-ahead occurs in words of length <= 4 already)
    import itertools
    for ln in range(0, qs_len + 1):
        for w in itertools.product("'\";a", repeat=ln):
            w = "".join(w)
            reqs.append(["c08.qsplit", w]); exp.append(["ok"] + U.quote_split(";", w))
    got = drv.batch(reqs)
    bad = 0
    hist = {}
    reported = {}
    for r, e, g in zip(reqs, exp, got):
        key = r[0] + ("/" + r[1] if r[0] == "c08.rx" else "")
        h = hist.setdefault(key, [0, 0])
        h[0] += 1
        if r[0] == "c08.qsplit":
            # non-trivial: a `;` inside a literal that also holds the other quote character, or
            # a `;` after such a literal
            if len(e) > 2 and ("'" in r[1] and '"' in r[1]):
                h[1] += 1
        elif len(e) > 1 and e[1:] not in (["0"], []):
            h[1] += 1
        # END_RE group: `block\sdata` may contain any white-space character; compare squeezed
        if r[0] == "c08.rx" and r[1] == "END_RE" and len(e) == 3 and len(g) == 3:
            e = [e[0], e[1], re.sub(r"\s", " ", e[2])]
        if e != g:
            bad += 1
            reported[key] = reported.get(key, 0) + 1
            if reported[key] <= 10:     # at most ten reports per stream; all are counted
                rep.tie_broken(f"correspondence micro/{key}: model {g} vs implementation {e} on {r[1:]!r}",
                               {"stream": "micro", "request": r, "impl": e, "model": g})
    return len(reqs), bad, {k: {"cases": v[0], "non_trivial": v[1]} for k, v in sorted(hist.items())}


# --------------------------------------------------------------------------
# one unit case
# --------------------------------------------------------------------------


def make_case(seed_tuple):
    rng = random.Random(str(seed_tuple))
    u = Universe(rng)
    g = Gen(rng, u)
    n = rng.choice([2, 3, 4, 5, 6, 8])
    body = [g.stmt(0) for _ in range(n)]
    return rng, u, g, body


def render_case(u: Universe, body, layout_seed):
    rr = random.Random(str(layout_seed))
    out = []
    Render(rr).stmts(body, out)
    feat = set()
    logical = []
    phys = layout(rr, out, feat, logical)
    lines, head = build_file(u, phys)
    return out, lines, head, feat, logical


def unit_lines_from_reader(rl: list[str], head: str) -> list[str] | None:
    for k, l in enumerate(rl):
        if l.lower() == head.lower():
            return rl[k + 1:]
    return None


def exec_slice(u: Universe, ul: list[str] | None) -> list[str] | None:
    """the reader's statements of the executable part: after the fixed specification part, up to
    the END statement of the unit; documentation items are not statements"""
    if ul is None:
        return None
    n_pre = len(decl_lines(u)) + (2 if u.unit_kind == "program" else 1)
    end = f"end {u.unit_kind} {UNIT_NAME}"
    out = []
    for l in ul[n_pre:]:
        if l.lower() == end:
            return [x for x in out if not x.startswith("!")]
        out.append(l)
    return None


def evaluate(impl: Impl, drv_requests, u, body, layout_seed, d: Path):
    """Run the real code on one case; returns a dict with everything the comparison needs."""
    stmts, lines, head, feat, logical = render_case(u, body, layout_seed)
    src = d / "src"
    src.mkdir(exist_ok=True)
    for old in src.glob("*.f90"):
        old.unlink()
    path = src / "c.f90"
    path.write_text("".join(l + "\n" for l in lines))
    res = impl.run(src)
    try:
        rl = impl.reader_lines(path)
    except Exception as e:  # noqa
        rl = None
    ul = unit_lines_from_reader(rl, head) if rl is not None else None
    return {"stmts": stmts, "lines": lines, "head": head, "feat": feat, "impl": res, "unit_lines": ul,
            "logical": logical, "exec_statements": exec_slice(u, ul)}


def oracle(u: Universe, body, post):
    """Property oracle on the real code's output. Returns None or (why, classes, unexplained)."""
    sp = Spec(u)
    sp.body(body)
    exp = expected_set(sp)
    obs = list(post)
    obs_set = set(obs)
    dup = sorted({o for o in obs if obs.count(o) > 1}, key=str)
    missing = exp - obs_set
    extra = obs_set - exp
    if not missing and not extra and not dup:
        return None, sp
    classes, unexplained = classify_diff(sp, missing, extra, dup)
    why = f"missing={sorted(missing, key=str)} extra={sorted(extra, key=str)} duplicates={dup}"
    return (why, classes, unexplained), sp


def shrink(impl, u, body, layout_seed, d, pred):
    """Greedy statement deletion (top level and inside construct bodies) while `pred` holds."""
    def variants(b):
        for k in range(len(b)):
            yield b[:k] + b[k + 1:]
        for k, s in enumerate(b):
            for inner in sub_bodies(s):
                for v in variants(inner[1]):
                    yield b[:k] + [replace_body(s, inner[0], v)] + b[k + 1:]
            if s[0] != "associate":
                for inner in sub_bodies(s):
                    # replace the construct by its body
                    yield b[:k] + list(inner[1]) + b[k + 1:]

    cur = body
    improved = True
    rounds = 0
    while improved and rounds < 40:
        improved = False
        rounds += 1
        for v in variants(cur):
            if not v:
                continue
            try:
                if pred(v):
                    cur = v
                    improved = True
                    break
            except Exception:
                continue
    return cur


def sub_bodies(s):
    t = s[0]
    if t == "ifblock":
        out = [(("arm", k), arm[1]) for k, arm in enumerate(s[1])]
        if s[2] is not None:
            out.append((("else",), s[2]))
        return out
    if t == "do":
        return [((5,), s[5])]
    if t in ("dowhile",):
        return [((2,), s[2])]
    if t == "doconc":
        return [((4,), s[4])]
    if t == "select":
        out = [(("case", k), c[1]) for k, c in enumerate(s[2])]
        if s[3] is not None:
            out.append(((3,), s[3]))
        return out
    if t in ("associate", "block"):
        return [((2,), s[2])]
    return []


def replace_body(s, key, new):
    s = list(s)
    if key[0] == "arm":
        arms = list(s[1]); arms[key[1]] = (arms[key[1]][0], new); s[1] = arms
    elif key[0] == "else":
        s[2] = new
    elif key[0] == "case":
        cs = list(s[2]); cs[key[1]] = (cs[key[1]][0], new); s[2] = cs
    else:
        s[key[0]] = new
    return tuple(s)


def run(tier: str, seed: int, replay: str | None = None) -> int:
    rep = Report(PROP, tier, seed)
    tinfo = {}

    def tr():
        tinfo.update(translator.translate())

    lean = lean_prove(PROP, translate=tr, thorough=(tier == "thorough"))
    for b in lean.broken():
        rep.tie_broken("proof: " + b)
    impl = Impl()
    drv = Driver()
    rng = random.Random(seed * 7919 + 8)
    n_micro = 7000 if tier == "quick" else 70000
    n_unit = 1500 if tier == "quick" else 15000
    ev_micro, bad_micro, micro_hist = micro_stream(impl, drv, rng, n_micro, rep, 6 if tier == "quick" else 8)

    kinds_hist, feat_hist, gate_hist = {}, {}, {}
    distinct = set()
    samples = []
    n_bad_corr = 0
    n_oracle_fail = 0
    n_impl_err = 0
    results = []
    with common.scratch_dir() as d:
        for k in range(n_unit):
            _, u, g, body = make_case((seed, "unit", k))
            ev = evaluate(impl, None, u, body, (seed, "layout", k), d)
            ev.update(u=u, body=body, k=k, kinds=g.kinds)
            results.append(ev)
        # ---- model, batched
        reqs = []
        for ev in results:
            reqs.append(["c08.unit"] + (ev["unit_lines"] or []))
        model = drv.batch(reqs)
        model_l = drv.batch([["c08.lines"] + ev["logical"] for ev in results])
        reqs2 = []
        for ev in results:
            vs, ts, ps = visible_names(ev["u"])
            pre = ev["impl"][1] if ev["impl"][0] == "ok" else []
            reqs2.append(["c08.resolve", ",".join(vs), ",".join(ts), ",".join(ps)] + ["%".join(c) for c in pre])
        model2 = drv.batch(reqs2)
        gate_reqs = []
        for ev in results[: 300 if tier == "quick" else 2000]:
            for l in (ev["unit_lines"] or [])[:60]:
                gate_reqs.append(["c08.gate", "0", real_mask(impl.sf, l)])
        for gname in drv.batch(gate_reqs):
            gate_hist[gname[1]] = gate_hist.get(gname[1], 0) + 1

        for ev, mo, mo2, mol in zip(results, model, model2, model_l):
            k, u, body = ev["k"], ev["u"], ev["body"]
            for kk, c in ev["kinds"].items():
                kinds_hist[kk] = kinds_hist.get(kk, 0) + c
            for f in ev["feat"]:
                feat_hist[f] = feat_hist.get(f, 0) + 1
            feat_hist["unit:" + u.unit_kind] = feat_hist.get("unit:" + u.unit_kind, 0) + 1
            if u.shadow:
                feat_hist["local-array-hides-module-procedure"] = feat_hist.get("local-array-hides-module-procedure", 0) + 1
            if u.collide:
                feat_hist["colliding-names"] = feat_hist.get("colliding-names", 0) + 1
            case = {"stream": "unit", "case": k, "file": ev["lines"], "unit_statements": ev["unit_lines"]}
            if ev["impl"][0] != "ok" or ev["unit_lines"] is None:
                n_impl_err += 1
                rep.tie_broken(f"unit case {k}: the implementation could not process a generated legal unit: {ev['impl'][1]}",
                               dict(case, impl=ev["impl"]))
                rep.failing_input(dict(case, why="FORD raised on a legal executable part: " + str(ev["impl"][1])), None)
                continue
            _, pre, post = ev["impl"]
            pre_s = ["%".join(c) for c in pre]
            if pre_s:
                distinct.add(common.digest(ev["unit_lines"]))
            # (a) correspondence before correlate
            if mo[0] != "ok" or mo[1:] != pre_s:
                n_bad_corr += 1
                rep.tie_broken(f"correspondence unit/pre-correlate: model and implementation differ on case {k}",
                               dict(case, impl=pre_s, model=mo))
            # (a0) statement separation: the statements the real reader delivers for the executable
            #      part == the model's `unitStatements` of the logical lines (`;` outside literals)
            if ev["exec_statements"] is None or mol[0] != "ok" or mol[1:] != ev["exec_statements"]:
                n_bad_corr += 1
                rep.tie_broken(f"correspondence unit/statement-separation: model and reader differ on case {k}",
                               dict(case, logical_lines=ev["logical"], reader=ev["exec_statements"], model=mol))
            # (a') after correlate, chains of length 1
            post_names = [p[-1] for p in post]
            kept1 = [c[0] for c in pre if len(c) == 1 and c[0] in post_names]
            if mo2[0] != "ok" or mo2[1:] != kept1:
                n_bad_corr += 1
                rep.tie_broken(f"correspondence unit/post-correlate: model and implementation differ on case {k}",
                               dict(case, impl=kept1, model=mo2, pre=pre_s))
            # (b) property oracle
            why, sp = oracle(u, body, post)
            if len(samples) < 3 and len(pre) >= 3:
                samples.append({"unit_statements": ev["stmts"], "recorded": [list(p) for p in post]})
            if why is not None:
                n_oracle_fail += 1
                text, classes, unexplained = why
                full = dict(case, expected=sorted(expected_set(sp), key=str), observed=post, why=text,
                            classes=sorted(classes), unexplained=unexplained)
                if unexplained and len(rep.violations) >= 3:
                    rep.failing_input(full, None)
                elif unexplained:
                    # shrink towards a small unexplained failure
                    def pred(b):
                        e2 = evaluate(impl, None, u, b, (seed, "layout", k), d)
                        if e2["impl"][0] != "ok":
                            return False
                        w2, _ = oracle(u, b, e2["impl"][2])
                        return w2 is not None and bool(w2[2])
                    small = shrink(impl, u, body, (seed, "layout", k), d, pred)
                    e3 = evaluate(impl, None, u, small, (seed, "layout", k), d)
                    w3, sp3 = oracle(u, small, e3["impl"][2])
                    full["shrunk"] = {"file": e3["lines"], "unit_statements": e3["stmts"],
                                      "expected": sorted(expected_set(sp3), key=str), "observed": e3["impl"][2],
                                      "why": w3[0] if w3 else None}
                    rep.failing_input(full, None)
                else:
                    for c in sorted(classes):
                        rep.failing_input(full, c)
    drv.close()
    rep.coverage.update(
        evaluations=ev_micro + len(results),
        distinct_nontrivial=len(distinct),
        rule="unit cases are (random universe of overlapping names x random executable part x random legal layout); "
             "non-trivial = the real parser recorded at least one call chain for the unit; distinct by digest of the "
             "statements the reader delivered",
        samples=samples,
        traces_validated_against_impl=ev_micro + 3 * len(results),
        correspondence_disagreements=n_bad_corr + bad_micro,
        oracle_failures=n_oracle_fail,
        implementation_errors=n_impl_err,
        statement_kind_histogram=dict(sorted(kinds_hist.items())),
        layout_feature_histogram=dict(sorted(feat_hist.items())),
        cascade_branch_histogram=dict(sorted(gate_hist.items())),
        micro_histogram=micro_hist,
        generated_tables={"intrinsics": tinfo.get("intrinsics"), "cascade_branches": len(tinfo.get("cascade", [])),
                          "interpreted_guards": tinfo.get("guards")},
    )
    rep.assumptions += [
        "identifiers of the generated units are not Fortran declaration keywords; units under test contain no "
        "internal procedures, derived-type definitions, interfaces or module-level statements",
        "CPython re is on the implementation side only; the hand-written recognisers are its deterministic reading, "
        "validated on the micro stream; FORMAT_RE and ARITH_GOTO_RE are not read by hand: their re._parser parse "
        "trees are regenerated on every run and interpreted by the model (list-of-successes matcher, ASCII "
        "IGNORECASE), also validated on the micro stream",
        "chains longer than one element are compared before correlate() and by the oracle after it; "
        "`_find_chain_item` itself is not modelled (C07)",
    ]
    return rep.finish(lean)
