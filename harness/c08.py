"""C08 - recorded calls are exactly the user procedures a unit invokes.

Streams
  micro : `strip_paren`, CALL_RE.finditer, SUBCALL_RE.search, the chain clean-up, the QUOTES_RE
          masking loop and the cascade recognisers (BLOCK/ASSOCIATE/END/VARIABLE/ATTRIB/USE:
          hand-written Lean mirrors; FORMAT/ARITH_GOTO: the parse tree of the compiled regex,
          regenerated from the working tree and interpreted by the model, with the method
          `.match`/`.search` read from the call site) on random strings (exact comparison);
          `quote_split(";", .)` (statement separation) on random strings and on every word over
          {', ", ;, a} up to a fixed length.
  unit  : generated units (universe of names -> specification part + executable part as ASTs ->
          text -> random legal layout -> file -> real FORD `Project` in-process).  The unit under
          test is a module procedure (host association), a main program, a procedure of a second
          module or an external procedure (USE association); it may have internal procedures, which
          are units under test themselves (host association from the unit).  The specification part
          is generated too (round 4): every variable / array / dummy argument / result variable /
          external procedure in one of the declaration forms of the language (entity declaration,
          DIMENSION / ALLOCATABLE / POINTER / EXTERNAL / INTENT attribute or statement in any
          letter case and order, interface block, type only, implicit typing).  Per unit:
          (a0) correspondence: the reader's statements of the executable part == the Lean
              `unitStatements` of the logical lines (`;` outside literals, literals with free
              content: other quote kind, doubled delimiter, `;`, `!`, `&`, call-like text);
          (a0') correspondence (round 5): the same statements == the Lean reader model (`readAll`,
              shared with C02) on the PHYSICAL lines of the executable part: comments, interspersed
              lines and every continuation style - a statement may be cut at any position outside
              literals, the blank between two tokens may stand only in front of the trailing `&`;
          (a) correspondence: `unit.calls` before `correlate()` == the Lean `runUnit` on the
              statements the reader delivers for the unit itself; after `correlate()` the kept
              chains of length 1 == the Lean `keptCalls` (scope model over the generated EXTERNAL
              filter, merge order of `get_label_item` and removed classes);
          (a'') correspondence: `unit.variables` after `_cleanup` == the Lean `scopeVarNames` of the
              generated specification part; dummy arguments and result variable as generated;
          (b) property oracle: the identities in `unit.calls` after `correlate()` are exactly
              the user procedures the AST invokes (`spec`, structural recursion on the AST),
              each once.
  names : (round 5) the deny-list `_add_procedure_calls` applies is probed on the real method
          (translator G1) and compared with the pinned specification `Spec/CallsNames.lean`; the
          generator names user procedures after (alleged) intrinsics and prefers the names in the
          difference of the two lists, so a grown or shrunk list meets a concrete failing input.
"""
from __future__ import annotations

import random
import re
import sys
from pathlib import Path

from . import common
from .common import Driver, Report, lean_prove

PROP = "C08"

sys.path.insert(0, str(common.VERIF))
from translate import c08 as translator  # noqa: E402

# --------------------------------------------------------------------------
# the universe of names
# --------------------------------------------------------------------------

FUNC_POOL = ["fa", "fb", "sinx", "asin_", "cosf", "getv", "f2", "maxv", "lenx", "size_of", "ifx", "callf"]
SUB_POOL = ["sa", "sb", "run_all", "setup", "print_it", "init_all", "callme", "dowork"]
EXTF_POOL = ["ext", "extf", "sin_x", "hh", "realx"]
EXTS_POOL = ["exts", "do_it", "call_out"]
ARR_POOL = ["arr", "v", "sinv", "a2", "cosv", "fa_arr", "iff", "wherev"]
INTR_F = ["sin", "cos", "abs", "max", "min", "sqrt", "mod", "real", "int", "size", "sum", "maxval",
          "exp", "nint", "merge", "len_trim", "trim", "any", "all", "allocated", "present"]
# round 5: standard intrinsic functions / subroutines (Fortran 2008).  They are used (a) as references
# that must NOT be recorded - only those the specification lists (`Spec/CallsNames.lean`) - and (b) as
# names a USER procedure may carry: Fortran has no reserved words, a module procedure `sum` or `index`
# hides the intrinsic and a reference to it invokes the user procedure.
STD_INTR_F = INTR_F + ["acos", "aimag", "anint", "atan2", "ceiling", "cmplx", "conjg", "count", "dble", "dot_product",
                       "epsilon", "floor", "huge", "iand", "index", "ior", "ishft", "lbound", "len", "log", "log10",
                       "matmul", "maxloc", "minval", "modulo", "norm2", "product", "reshape", "scan", "shape", "sign",
                       "sinh", "spread", "tan", "tanh", "tiny", "transpose", "ubound", "verify", "associated", "kind",
                       "adjustl", "repeat", "char", "ichar", "floor", "bit_size", "btest", "cshift", "eoshift"]
STD_INTR_S = ["random_number", "random_seed", "cpu_time", "system_clock", "date_and_time", "get_command_argument",
              "get_environment_variable", "move_alloc", "mvbits", "execute_command_line", "get_command"]


class Names:
    """What decides whether a name is withheld from `calls` (set once per run, before generation):
      spec     the specified intrinsic / keyword names (`Ford.CallsSpec.neverRecorded`, pinned)
      impl     the names the implementation really never records (probed on the real method)
      added    impl - spec : names a user procedure may carry but the implementation swallows
      dropped  spec - impl : intrinsics / keywords the implementation would record
    The generator is DIRECTED by the difference: user procedures are preferably given `added` names,
    intrinsic references preferably `dropped` names - on the unchanged tree both are empty."""
    spec: set = set()
    impl: set = set()
    added: list = []
    dropped: list = []
    intr_f: list = list(INTR_F)
    intr_s: list = []
    user_like_f: list = []
    user_like_s: list = []

    @classmethod
    def setup(cls, spec, impl):
        cls.spec, cls.impl = set(spec), set(impl)
        cls.added = sorted(cls.impl - cls.spec)
        cls.dropped = sorted(n for n in cls.spec - cls.impl if n in STD_INTR_F or n in STD_INTR_S)
        cls.intr_f = [n for n in dict.fromkeys(STD_INTR_F) if n in cls.spec]
        cls.intr_s = [n for n in STD_INTR_S if n in cls.spec]
        cls.user_like_f = [n for n in dict.fromkeys(STD_INTR_F) if n in cls.spec
                           # `reshape` and `trim` are written into generated declarations / I/O statements as the
                           # intrinsics; type keywords would make a function statement ambiguous
                           and n not in ("real", "int", "kind", "len", "char", "reshape", "trim")]
        cls.user_like_s = list(cls.intr_s)


def pool_names() -> list[str]:
    """every identifier the generator may use for a procedure or array (candidates of the deny-list probe)"""
    out = (FUNC_POOL + SUB_POOL + EXTF_POOL + EXTS_POOL + ARR_POOL + INT_POOL_F + INT_POOL_S + STD_INTR_F + STD_INTR_S
           + ["genf", "gensub", "get", "vals", "init", UNIT_NAME])
    for td in TYPES_COLLIDING.values():
        out += list(td["bound"])
    for td in TYPES.values():
        out += list(td["bound"])
    return sorted(set(out))
TYPES = {
    "t0": {"scalars": ["val"], "arrays": ["q"], "objs": {}, "objarrs": {}, "bound": {"show": "sub", "peek": "fun"}},
    "t1": {"scalars": ["cnt"], "arrays": ["vals"], "objs": {"inner": "t0"}, "objarrs": {"cells": "t2"},
           "bound": {"init": "sub", "get": "fun", "run": "sub"}},
    # round 6: t2 extends t0 - it inherits the components `val`, `q` and the bindings `show`, `peek`,
    # and has the parent component `t0`
    "t2": {"scalars": ["cnt"], "arrays": ["w"], "objs": {}, "objarrs": {}, "extends": "t0",
           "bound": {"reset": "sub", "fetch": "fun", "stop_": "sub"}},
}
TYPES_COLLIDING = dict(TYPES, t2={"scalars": ["cnt"], "arrays": ["w"], "objs": {}, "objarrs": {}, "extends": "t0",
                                  "bound": {"init": "sub", "get": "fun", "stop_": "sub"}})


def type_parents(types, t):
    out = []
    while types[t].get("extends"):
        t = types[t]["extends"]
        out.append(t)
    return out


def type_members(types, t, key):
    """members of kind `key` of type `t`, inherited ones included (own first)"""
    out = list(types[t][key])
    for p_ in type_parents(types, t):
        out += [x for x in types[p_][key] if x not in out]
    return out


def type_bindings(types, t, kind):
    """[(binding, declaring type)] of type `t` with the given kind, inherited ones included"""
    out = [(b, t) for b, k in types[t]["bound"].items() if k == kind]
    for p_ in type_parents(types, t):
        out += [(b, p_) for b, k in types[p_]["bound"].items() if k == kind and b not in [x[0] for x in out]
                and b not in types[t]["bound"]]
    return out
OBJS = {"a": "t1", "b": "t2", "c": "t1"}
# round 6: arrays of derived type - a designator may carry a subscript list on ANY part of its
# component chain (`oa(i) % vals(j)`, `a%cells(k) % fetch()`), not only on the last one
OBJ_ARRS = {"oa": "t1", "ob": "t2"}
SCALARS = ["x", "y", "z", "i", "j", "n", "ok"]
LABELS = ["10", "20", "30", "100"]
GOTO_SPELLINGS = ["go to", "goto", "GO TO", "GOTO", "Go To", "go  to", "GoTo"]
LITERAL_POOL = ["'call g(1)'", '"x = f2(3)"', "'it''s sa(1)'", '"a%init()"', "'if (fa(1)) call sb'", "'('", '")"', "' '"]
FORMAT_ITEMS = ["(a, f(2), i3)", "(3(f8.2, 1x), a)", "('call g(1)', i0)", "(f2(3))", "(1x, 2(i4, sa(2)))"]


class Universe:
    def __init__(self, rng: random.Random):
        self.funcs = rng.sample(FUNC_POOL, rng.randint(2, 4))
        self.subs = rng.sample(SUB_POOL, rng.randint(2, 3))
        self.extf = rng.sample(EXTF_POOL, rng.randint(1, 2))
        self.exts = rng.sample(EXTS_POOL, rng.randint(1, 2))
        self.arrs = rng.sample(ARR_POOL, rng.randint(2, 3))
        self.garr = "garr"
        # name collisions between different entities (class of the de-duplication finding)
        self.collide = rng.random() < 0.12
        self.types = TYPES
        if self.collide:
            k = rng.random()
            if k < 0.3:
                self.types = TYPES_COLLIDING   # both types bind `init` and `get`
            elif k < 0.5:
                self.funcs.append("get")       # module function `get` and bound `get`
            elif k < 0.7:
                self.extf.append("vals")       # external function `vals` and component array `vals`
            else:
                self.exts.append("init")       # external subroutine `init` and bound `init`
        # round 5: a user procedure whose name the implementation (or the specification) takes for an
        # intrinsic.  Names the implementation withholds but the specification does not list come first.
        self.deny_named = []
        if rng.random() < (0.35 if Names.added else 0.10):
            for _ in range(rng.choice([1, 1, 2])):
                kind = rng.choice(["function", "subroutine"])
                if Names.added and rng.random() < 0.8:
                    nm = rng.choice(Names.added)
                else:
                    nm = rng.choice(Names.user_like_f if kind == "function" else Names.user_like_s)
                if nm in self.funcs + self.subs + self.extf + self.exts + self.arrs or nm in [d[0] for d in self.deny_named]:
                    continue
                where = "module" if rng.random() < 0.7 else "external"
                self.deny_named.append((nm, kind, where))
                if where == "module":
                    (self.funcs if kind == "function" else self.subs).append(nm)
                else:
                    (self.extf if kind == "function" else self.exts).append(nm)
        self.unit_kind = rng.choice(["subroutine", "subroutine", "function", "program"])
        self.name = UNIT_NAME
        # where the unit lives: in the module that defines the procedures and types (host
        # association), in a main program or in a second module (USE association)
        # or as an external procedure in the file (USE association, no host)
        k = rng.random()
        self.ctx = ("program" if self.unit_kind == "program" else
                    "other-module" if k < 0.16 else "external" if k < 0.28 else "same-module")
        # procedures defined in the module (superset of the ones the unit may call)
        self.module_funcs = list(self.funcs)
        self.module_subs = list(self.subs)
        # a local array that hides a host-associated module procedure of the same name
        # (only legal for host association, i.e. not in a unit that USEs the module)
        self.shadow = None
        if self.ctx == "same-module" and rng.random() < 0.2:
            cands = [f for f in FUNC_POOL + SUB_POOL if f not in self.funcs and f not in self.subs]
            self.shadow = rng.choice(cands)
            if self.shadow in FUNC_POOL:
                self.module_funcs.append(self.shadow)
            else:
                self.module_subs.append(self.shadow)
            self.arrs.append(self.shadow)
        # generic interfaces of the module over some of its procedures: a reference to the generic
        # name invokes a user procedure and is recorded as that generic interface
        self.generics = {}
        if rng.random() < 0.25:
            if rng.random() < 0.6:
                self.generics["genf"] = ("function", rng.sample(self.module_funcs, min(len(self.module_funcs), rng.choice([1, 2]))))
                self.funcs.append("genf")
            if not self.generics or rng.random() < 0.4:
                self.generics["gensub"] = ("subroutine", rng.sample(self.module_subs, min(len(self.module_subs), rng.choice([1, 2]))))
                self.subs.append("gensub")
        # internal procedures of the unit (round 4): further units under test; they see the
        # unit's entities by host association and are called from it and from each other
        ints = []
        if rng.random() < 0.3:
            for _ in range(rng.choice([1, 1, 2])):
                kind = rng.choice(["subroutine", "function"])
                pool = INT_POOL_F if kind == "function" else INT_POOL_S
                ints.append((rng.choice([p for p in pool if p not in [i[0] for i in ints]]), kind))
        self.internal_names = [i[0] for i in ints]
        for nm, kind in ints:
            (self.funcs if kind == "function" else self.subs).append(nm)
        # the specification part of the unit under test (round 4): every entity in one of the
        # declaration forms the language offers
        self.ro_arrs = []
        self.spec = SpecPart(rng, self)
        self.internals = [InnerUniverse(rng, self, nm, kind) for nm, kind in ints]

    @property
    def warrs(self):
        """arrays that may be assigned to"""
        return [a for a in self.arrs if a not in self.ro_arrs] or [self.garr]

    def units(self):
        return [self] + self.internals


class InnerUniverse:
    """An internal procedure of the unit under test: it may call what its host may call (the
    internal procedures included), sees the host's arrays, objects and external declarations by
    host association, and declares dummy arguments and local arrays of its own - one of which may
    hide a host-associated procedure."""

    def __init__(self, rng: random.Random, host: Universe, name: str, kind: str):
        self.host, self.name, self.unit_kind = host, name, kind
        self.ctx = "internal"
        self.funcs, self.subs = list(host.funcs), list(host.subs)
        self.extf, self.exts = list(host.extf), list(host.exts)
        self.arrs = [a for a in host.arrs if a != UNIT_NAME]
        self.garr, self.types, self.collide, self.shadow = host.garr, host.types, host.collide, None
        self.ro_arrs = list(host.ro_arrs)
        self.module_funcs, self.module_subs = host.module_funcs, host.module_subs
        self.generics = host.generics
        self.internals = []
        self.spec = InnerSpec(rng, self)

    @property
    def warrs(self):
        return [a for a in self.arrs if a not in self.ro_arrs] or [self.garr]


# --------------------------------------------------------------------------
# the specification part of the unit under test
# --------------------------------------------------------------------------

UNIT_NAME = "main_unit"
INT_POOL_F = ["inner_f", "sinh_x", "absx", "locf"]
INT_POOL_S = ["helper", "do_step", "inner_s", "printx"]
ARRAY_TYPES = ["real", "integer", "real(8)", "real(kind=8)", "double precision", "complex", "logical",
               "character(len=8)", "integer(kind=4)", "type(t0)", "doubleprecision", "character*8"]
HARMLESS_ATTRS = ["save", "target", "volatile", "asynchronous"]


def rcase(r: random.Random, w: str) -> str:
    k = r.random()
    if k < 0.5:
        return w
    if k < 0.72:
        return w.upper()
    if k < 0.85:
        return w.capitalize()
    return "".join(c.upper() if r.random() < 0.5 else c for c in w)


class SpecBase:
    """A specification part: a list of statements
         ("T", type text, [attribute as spelled], `::` present, [(name as spelled, suffix)])
         ("A", keyword as spelled, `::` present, [(name as spelled, array spec)])     attribute statement
         ("X", text)                                                                  anything else
       plus the dummy arguments and the form of the function result.  What each name *is* (variable,
       dummy argument, result variable, external procedure) is fixed by the declaration form chosen
       here; the oracle uses only that, never the parser's view."""

    def __init__(self, r: random.Random):
        self.r = r
        self.stmts = []
        self.args = []
        self.ret = None            # name of the result variable (functions)
        self.ret_typed = False     # type given in the function statement
        self.result_clause = None
        self.head_prefix = ""
        self.ext_form = {}         # external procedure -> declaration form
        self.typed_only_ext = []   # functions declared by type only (no EXTERNAL anywhere)
        self.implicit_arrays = []  # arrays that get their shape from DIMENSION/COMMON and no type
        self.iface_ext = []        # external procedures declared by an interface block
        self.forms = []            # coverage notes
        self.head = ""

    def note(self, k):
        self.forms.append(k)

    def T(self, typ, attrs, ents, dc=None):
        r = self.r
        need = bool(attrs) or any("=" in sfx for _, sfx in ents)
        if dc is None:
            dc = need or r.random() < 0.75
        return ("T", self.type_case(typ), [self.attr_case(a) for a in attrs], dc or need,
                [(rcase(r, n) if r.random() < 0.3 else n, sfx) for n, sfx in ents])

    def A(self, kw, names, dc=None):
        r = self.r
        return ("A", rcase(r, kw), r.random() < 0.4 if dc is None else dc,
                [(rcase(r, n) if r.random() < 0.3 else n, d) for n, d in names])

    def extras(self):
        return self.r.sample(HARMLESS_ATTRS, self.r.choice([0, 0, 0, 1, 2]))

    def shuffled(self, xs):
        xs = list(xs)
        self.r.shuffle(xs)
        return xs

    def type_case(self, typ):
        return rcase(self.r, typ) if not typ.startswith(("type", "class")) else typ

    def attr_case(self, a):
        # keyword in any case; blanks inside `intent ( in )` are kept as chosen
        return rcase(self.r, a)

    def interface_block(self, procs):
        """("I", lines): an interface block with the interface bodies of the given external procedures"""
        r = self.r
        L = [rcase(r, "interface")]
        for nm, kind in procs:
            if kind == "function":
                L += [f"  function {nm}(p1, p2, p3) result(r)", "    real, optional :: p1, p2, p3", "    real :: r",
                      f"  end function {nm}"]
            else:
                L += [f"  subroutine {nm}(p1, p2, p3)", "    real, optional :: p1, p2, p3", f"  end subroutine {nm}"]
        L.append(r.choice(["end interface", "END INTERFACE", "endinterface"]))
        return ("I", L)

    def array_decl(self, a, typ, d, allow_dummy, allow_param):
        """one array in one of the declaration forms; returns (form, statements, is dummy, read-only)"""
        r = self.r
        T, A, extras = self.T, self.A, self.extras
        k = r.random()
        dummy = ro = False
        if k < 0.20:
            form, g = "entity-dims", [T(typ, extras(), [(a, d)])]
        elif k < 0.34:
            form, g = "dimension-attr", [T(typ, self.shuffled(["dimension" + d] + extras()), [(a, "")])]
        elif k < 0.44:
            form, g = "no-double-colon", [T(typ, [], [(a, d)], dc=False)]
        elif k < 0.58:
            form, g = "dimension-stmt", [T(typ, [], [(a, "")]), A("dimension", [(a, d)])]
            if r.random() < 0.25:
                g.reverse()
        elif k < 0.70:
            at = r.choice(["allocatable", "pointer"])
            form = at + "-attr"
            g = [T(typ, [at], [(a, "(:,:)")])] if r.random() < 0.5 else [T(typ, self.shuffled(["dimension(:,:)", at]), [(a, "")])]
        elif k < 0.78:
            at = r.choice(["allocatable", "pointer", "target"])
            form = at + "-stmt"
            g = [T(typ, [], [(a, "")]), A(at, [(a, "(:,:)" if at != "target" else d)])]
        elif k < 0.90 and allow_dummy:
            form = "dummy-array"
            dummy = True
            dd = r.choice([d, "(:,:)", "(10,*)"])
            kk = r.random()
            if kk < 0.6:
                g = [T(typ, [r.choice(["intent(in)", "intent(inout)", "intent(in out)", "intent (out)"])] + (["optional"] if r.random() < 0.2 else []),
                       [(a, dd)])]
            elif kk < 0.8:
                g = [T(typ, [], [(a, dd)])]
            else:
                g = [T(typ, [], [(a, dd)]), A(r.choice(["intent(in)", "optional", "intent(inout)"]), [(a, "")])]
        elif k < 0.95 and allow_param and typ != "type(t0)":
            form = "parameter-array"
            ro = True
            val = {"logical": ".false.", "complex": "(0.0, 1.0)"}.get(typ, "'ab'" if typ.startswith("character") else "1")
            dim_attr = r.random() < 0.5
            init = f" = reshape([{val}, {val}, {val}, {val}], [2, 2])"
            g = [T(typ, self.shuffled(["parameter"] + (["dimension(2,2)"] if dim_attr else [])),
                   [(a, ("" if dim_attr else "(2,2)") + init)])]
        else:
            form, g = "entity-dims", [T(typ, [], [(a, d)])]
        return form, g, dummy, ro

    # ---- text
    def lines(self) -> list[str]:
        out = []
        for st in self.stmts:
            if st[0] == "X":
                out.append(st[1])
            elif st[0] == "I":
                out.extend(st[1])
            elif st[0] == "T":
                _, typ, attrs, dc, ents = st
                sep = "," if len(out) % 3 == 0 else ", "
                head = typ + "".join(sep + a for a in attrs)
                out.append(head + (" :: " if dc else " ") + ", ".join(n + sfx for n, sfx in ents))
            else:
                _, kw, dc, names = st
                if kw.lower() == "parameter":
                    out.append(kw + " (" + ", ".join(n + sfx for n, sfx in names) + ")")
                else:
                    out.append(kw + (" :: " if dc else " ") + ", ".join(n + sfx for n, sfx in names))
        return out

    def line_mask(self) -> list[bool]:
        """per line of `lines()`: is it a statement of the unit itself (False: it belongs to a nested
        container - an interface block - which consumes it)"""
        out = []
        for st in self.stmts:
            out.extend([False] * len(st[1]) if st[0] == "I" else [True])
        return out

    # ---- the structured view the model is given
    def model_fields(self) -> list[str]:
        out = []
        for st in self.stmts:
            if st[0] == "T":
                out.append("T|" + ";".join(st[2]) + "|" + ";".join(n for n, _ in st[4]))
            elif st[0] == "A":
                out.append("A|" + st[1] + "|" + ";".join(n for n, _ in st[3]))
        return out


class SpecPart(SpecBase):
    """Generated specification part of the unit under test (module procedure or main program)."""

    def __init__(self, r: random.Random, u: "Universe"):
        super().__init__(r)
        prog = u.unit_kind == "program"
        groups = []                # each group = list of statements that stay in this order
        note, T, A, extras = self.note, self.T, self.A, self.extras

        # ---- scalars
        for typ, names in (("real", ["x", "y", "z"]), ("integer", ["i", "j", "n"]), ("logical", ["ok"])):
            k = r.random()
            if k < 0.6:
                groups.append([T(typ, extras() if r.random() < 0.2 else [], [(n, "") for n in names])])
            elif k < 0.8:
                init = {"real": " = 0.0", "integer": " = 0", "logical": " = .false."}[typ]
                groups.append([T(typ, [], [(n, init if r.random() < 0.5 else "") for n in names])])
            else:
                for n in names:
                    groups.append([T(typ, extras(), [(n, "")])])
        groups.append([T(r.choice(["character(len=20)", "character(20)", "character*20", "character(len=20, kind=1)"]), [], [("s", "")])])
        if r.random() < 0.25:
            note("parameter-statement")
            groups.append([T("integer", [], [("n2", "")]), ("A", rcase(r, "parameter"), False, [("n2", " = 3")])])
        if r.random() < 0.15:
            note("data-statement")
            groups.append([("A", rcase(r, "data"), False, [("x", " /1.0/")])])
        # ---- dummy argument d1 and the function result
        if not prog:
            self.args.append("d1")
            k = r.random()
            if k < 0.3:
                groups.append([T("real", [], [("d1", "")])])
            elif k < 0.75:
                groups.append([T("real", r.choice([["intent(in)"], ["intent(in)", "optional"], ["intent (in)"], ["intent( in )"],
                                                   ["intent(inout)"], ["intent(in out)"], ["value"]]), [("d1", "")])])
            else:
                note("intent-statement")
                groups.append([T("real", [], [("d1", "")]), A(r.choice(["intent(in)", "intent (in)", "optional"]), [("d1", "")])])
        if u.unit_kind == "function":
            k = r.random()
            dims = r.choice(["(10,10)", "(10, 10)", "(5,5)"])
            if k < 0.40:
                self.ret, self.result_clause = "res", "res"
                groups.append([T("real", [], [("res", "")])])
            elif k < 0.55:
                note("array-result")
                self.ret, self.result_clause = "res", "res"
                groups.append([T("real", [], [("res", dims)])] if r.random() < 0.6 else
                              [T("real", [], [("res", "")]), A("dimension", [("res", dims)])])
                u.arrs.append("res")
            elif k < 0.65:
                note("typed-function-statement")
                self.ret, self.result_clause, self.ret_typed = "res", "res", True
                self.head_prefix = r.choice(["real ", "REAL ", "real(8) ", "pure real ", "double precision "])
            elif k < 0.80:
                note("result-is-function-name")
                self.ret = UNIT_NAME
                groups.append([T("real", [], [(UNIT_NAME, "")])])
            elif k < 0.92:
                note("array-result-is-function-name")
                self.ret = UNIT_NAME
                groups.append([T("real", [], [(UNIT_NAME, dims)])])
                u.arrs.append(UNIT_NAME)
            else:
                note("typed-function-statement")
                self.ret, self.ret_typed = UNIT_NAME, True
                self.head_prefix = r.choice(["real ", "Real ", "integer "])
        # ---- arrays
        for a in list(u.arrs):
            if a in ("res", UNIT_NAME):
                continue
            typ = r.choice(ARRAY_TYPES)
            d = r.choice(["(10,10)", "(10, 10)", "(0:9, 10)", "(10,10)"])
            form, g, dummy, ro = self.array_decl(a, typ, d, allow_dummy=(not prog and a != u.shadow), allow_param=True)
            if dummy:
                self.args.append(a)
            if ro:
                u.ro_arrs.append(a)
            note("array:" + form)
            groups.append(g)
        # ---- allocatables used by ALLOCATE
        k = r.random()
        if k < 0.5:
            groups.append([T("real", ["allocatable"], [("pv", "(:)"), ("pm", "(:,:)")])])
        elif k < 0.75:
            groups.append([T("real", self.shuffled(["dimension(:)", "allocatable"]), [("pv", "")]),
                           T("real", self.shuffled(["allocatable", "dimension(:,:)"]), [("pm", "")])])
        else:
            groups.append([T("real", [], [("pv", ""), ("pm", "")]), A("allocatable", [("pv", "(:)"), ("pm", "(:,:)")])])
        # ---- objects
        objs = dict(OBJS)
        dummy_obj = None
        if not prog and r.random() < 0.2:
            dummy_obj = r.choice(sorted(objs))
            note("dummy-object")
            self.args.append(dummy_obj)
        if r.random() < 0.5 and dummy_obj is None:
            groups.append([T("type(t1)", extras() if r.random() < 0.2 else [], [("a", ""), ("c", "")])])
            groups.append([T(r.choice(["type(t2)", "type (t2)", "type( t2 )"]), [], [("b", "")])])
        else:
            for o, t in objs.items():
                if o == dummy_obj:
                    groups.append([T(r.choice([f"class({t})", f"type({t})", f"class ({t})"]), [r.choice(["intent(inout)", "intent(in)"])], [(o, "")])])
                else:
                    groups.append([T(f"type({t})", ["target"] if r.random() < 0.15 else [], [(o, "")])])
        # ---- arrays of objects (round 6)
        k = r.random()
        if k < 0.5:
            groups.append([T("type(t1)", [], [("oa", "(5)")]), T(r.choice(["type(t2)", "type (t2)"]), [], [("ob", "(3)")])])
        elif k < 0.8:
            groups.append([T("type(t1)", [r.choice(["dimension(5)", "DIMENSION(5)"])], [("oa", "")]),
                           T("type(t2)", self.shuffled(["target", "dimension(3)"]), [("ob", "")])])
        else:
            groups.append([T("type(t1)", ["allocatable"], [("oa", "(:)")]), T("type(t2)", [], [("ob", "(0:2)")])])
        note("object-arrays")
        # ---- external procedures
        ext_stmt_names = []
        iface_names = []
        for f in u.extf:
            k = r.random()
            ftype = r.choice(["real", "real", "double precision", "integer", "real(8)", "logical"])
            if k < 0.20:
                form = "undeclared"
            elif k < 0.30:
                form = "interface-block"
                iface_names.append((f, "function"))
            elif k < 0.58:
                form = "external-attr"
                groups.append([T(ftype, ["external"], [(f, "")])])
            elif k < 0.78:
                form = "type+external-stmt"
                groups.append([T(ftype, [], [(f, "")])])
                ext_stmt_names.append(f)
            elif k < 0.90:
                form = "external-stmt"
                ext_stmt_names.append(f)
            else:
                form = "type-only"
                self.typed_only_ext.append(f)
                groups.append([T(ftype, [], [(f, "")])])
            self.ext_form[f] = form
            note("extf:" + form)
        for sname in u.exts:
            k = r.random()
            if k < 0.45:
                self.ext_form[sname] = "external-stmt"
                ext_stmt_names.append(sname)
            elif k < 0.6:
                self.ext_form[sname] = "interface-block"
                iface_names.append((sname, "subroutine"))
            else:
                self.ext_form[sname] = "undeclared"
            note("exts:" + self.ext_form[sname])
        # explicit interfaces: one interface block per procedure or one block for several
        r.shuffle(iface_names)
        while iface_names:
            nn = r.randint(1, len(iface_names))
            groups.append([self.interface_block(iface_names[:nn])])
            self.iface_ext += [x for x, _ in iface_names[:nn]]
            iface_names = iface_names[nn:]
        r.shuffle(ext_stmt_names)
        while ext_stmt_names:
            nn = r.randint(1, len(ext_stmt_names))
            groups.append([A("external", [(x, "") for x in ext_stmt_names[:nn]])])
            ext_stmt_names = ext_stmt_names[nn:]
        # ---- implicit typing (main programs only: the module says IMPLICIT NONE)
        self.implicit_none = True
        if prog and r.random() < 0.25:
            self.implicit_none = False
            if r.random() < 0.7:
                nm = r.choice(["w2", "c1", "hv"])
                note("implicitly-typed-array")
                self.implicit_arrays.append(nm)
                u.arrs.append(nm)
                groups.append([A("dimension", [(nm, "(10,10)")])] if r.random() < 0.5 else
                              [("X", rcase(r, "common") + " /blk/ " + nm + "(10,10), c2")])
        r.shuffle(groups)
        # dummy arguments in a random order
        r.shuffle(self.args)
        pre = []
        # USE association: the statement stands in the unit itself or (second module) in its host
        self.use_in_unit = prog or u.ctx == "external" or (u.ctx == "other-module" and r.random() < 0.5)
        if self.use_in_unit:
            pre.append(("X", r.choice(["use m_types", "use m_types", "USE m_types", "use :: m_types", "use, non_intrinsic :: m_types"])))
        if prog:
            if self.implicit_none:
                pre.append(("X", rcase(r, "implicit none")))
        elif r.random() < 0.2:
            pre.append(("X", "implicit none"))
        self.stmts = pre + [st for g in groups for st in g]
        if r.random() < 0.1:
            self.stmts.append(("X", "save"))
        # ---- the unit's first statement
        if prog:
            self.head = f"program {UNIT_NAME}"
        elif u.unit_kind == "function":
            self.head = (self.head_prefix + f"function {UNIT_NAME}(" + ", ".join(self.args) + ")"
                         + (f" result({self.result_clause})" if self.result_clause else ""))
        else:
            self.head = f"subroutine {UNIT_NAME}(" + ", ".join(self.args) + ")"


class InnerSpec(SpecBase):
    """Specification part of an internal procedure: its dummy arguments, its result variable and
    0-2 local arrays (new names, the name of a host array again, or the name of a procedure of the
    module, which the local array then hides); everything else is host-associated."""

    def __init__(self, r: random.Random, iu: "InnerUniverse"):
        super().__init__(r)
        host = iu.host
        note, T, A = self.note, self.T, self.A
        # what the host declared is seen here too
        self.typed_only_ext = list(host.spec.typed_only_ext)
        self.implicit_arrays = list(host.spec.implicit_arrays)
        self.iface_ext = list(host.spec.iface_ext)
        groups = []
        self.args = ["k1"]
        groups.append([T("integer", r.choice([[], ["intent(in)"], ["intent(in)", "optional"], ["value"]]), [("k1", "")])])
        prefix = r.choice(["", "", "recursive ", "pure "])
        if iu.unit_kind == "function":
            self.ret = self.result_clause = "r_"
            k = r.random()
            if k < 0.6:
                groups.append([T("real", [], [("r_", "")])])
            elif k < 0.8:
                note("inner:array-result")
                groups.append([T("real", [], [("r_", "(10,10)")])])
                iu.arrs.append("r_")
            else:
                note("inner:typed-function-statement")
                self.ret_typed = True
                prefix += r.choice(["real ", "integer ", "REAL "])
        for _ in range(r.choice([0, 1, 1, 2])):
            k = r.random()
            hidden = [p for p in host.module_funcs + host.module_subs if p not in host.internal_names]
            if k < 0.4:
                cands = [n for n in ["loc1", "tmpv", "wk", "sin3"] if n not in iu.arrs]
                if not cands:
                    continue
                nm, what = r.choice(cands), "new"
            elif k < 0.7 and hidden:
                nm, what = r.choice(hidden), "hides-module-procedure"
                if nm in iu.arrs:
                    continue
                for lst in (iu.funcs, iu.subs):
                    if nm in lst:
                        lst.remove(nm)
            else:
                cands = [a for a in iu.arrs if a not in ("res", "r_") and a not in self.args and a not in iu.ro_arrs
                         and a not in self.implicit_arrays]
                if not cands:
                    continue
                nm, what = r.choice(cands), "redeclares-host-array"
            if any(nm == n for g in groups for st in g if st[0] == "T" for n, _ in st[4]):
                continue
            form, g, dummy, _ = self.array_decl(nm, r.choice(ARRAY_TYPES), r.choice(["(10,10)", "(10, 10)"]),
                                                allow_dummy=True, allow_param=False)
            if dummy:
                self.args.append(nm)
            if nm not in iu.arrs:
                iu.arrs.append(nm)
            note(f"inner:local-array:{what}:{form}")
            groups.append(g)
        # a local EXTERNAL declaration of a function the host does not declare by type
        cands = [f for f in iu.extf if host.spec.ext_form.get(f) in ("undeclared", "external-stmt")]
        if cands and r.random() < 0.25:
            f = r.choice(cands)
            note("inner:external-attr")
            groups.append([T(r.choice(["real", "integer"]), ["external"], [(f, "")])])
        r.shuffle(groups)
        r.shuffle(self.args)
        self.stmts = ([("X", "implicit none")] if r.random() < 0.2 else []) + [st for g in groups for st in g]
        self.head = (prefix + f"{iu.unit_kind} {iu.name}(" + ", ".join(self.args) + ")"
                     + (f" result({self.result_clause})" if self.result_clause else ""))


# --------------------------------------------------------------------------
# AST generation.  Expressions and statements are nested tuples.
# --------------------------------------------------------------------------


class Gen:
    def __init__(self, rng: random.Random, u: Universe):
        self.r = rng
        self.u = u
        self.assoc = []  # stack of dicts name -> ('obj', type) | ('arr',) | ('scalar',)
        self.kinds = {}

    def note(self, k):
        self.kinds[k] = self.kinds.get(k, 0) + 1

    # ---- expressions
    def args(self, depth, lo=0, hi=3):
        n = self.r.randint(lo, hi)
        out = []
        for _ in range(n):
            e = self.literal() if self.r.random() < 0.10 else self.expr(depth + 1)
            if self.r.random() < 0.12:
                e = ("kw", self.r.choice(["dim", "mask", "n", "flag"]), e)
            out.append(e)
        return out

    def literal(self):
        """A character literal with free content: either quote kind as delimiter; the body is any
        text without a lone delimiter - the *other* quote character (an apostrophe in "...", a `"`
        in '...'), doubled delimiters, `;`, `!`, `&`, `%`, parentheses and call-like text naming
        the unit's own procedures.  Nothing in it is a call."""
        r = self.r
        self.note("literal")
        if r.random() < 0.25:
            return ("str", r.choice(LITERAL_POOL))
        q = r.choice("'\"")
        o = '"' if q == "'" else "'"
        names = self.u.funcs + self.u.subs + self.u.extf + self.u.exts
        out = []
        feats = set()
        for _ in range(r.randint(1, 6)):
            k = r.random()
            if k < 0.16:
                out.append(r.choice(["call ", " call ", "Call "]) + r.choice(names) + r.choice(["(1)", "(x)", "", "()", "(fa(2))"]))
            elif k < 0.28:
                out.append(r.choice(["x = ", "", "if (", " "]) + r.choice(names) + r.choice(["(1)", "(x, y)", "()"]))
            elif k < 0.34:
                out.append(r.choice(["a%init()", "b % fetch(2)", "a%vals(1)"]))
            elif k < 0.50:
                out.append(r.choice([";", "; ", " ; "])); feats.add("semicolon")
            elif k < 0.66:
                out.append(o); feats.add("other-quote")
            elif k < 0.72:
                out.append(q + q); feats.add("doubled-quote")
            elif k < 0.76:
                out.append(r.choice(["!", " ! ", "!!"])); feats.add("bang")
            elif k < 0.79:
                out.append(r.choice(["&", " & "])); feats.add("ampersand")
            elif k < 0.84:
                out.append(r.choice(["(", ")", "((", ") (", "%", "=>"]))
            else:
                out.append(r.choice(["it", "s", "can", "t continue", " over", "done", "100", " ", "n", "say", ", ", "x"]))
        body = "".join(out)
        if body.endswith("&"):
            body += " "          # a literal is never split over lines here
        for f in feats:
            self.note("literal:" + f)
        if "other-quote" in feats and body.count(o) % 2 == 1:
            self.note("literal:odd-other-quote")
            if "semicolon" in feats:
                self.note("literal:odd-other-quote+semicolon")
        return ("str", q + body + q)

    def user_names(self):
        u = self.u
        return set(u.funcs + u.subs + u.extf + u.exts + u.arrs + list(u.module_funcs) + list(u.module_subs))

    def intrinsic_name(self, kind):
        """an intrinsic function / subroutine of the specification that no entity of the unit is
        named after; names the implementation no longer withholds come first"""
        r = self.r
        taken = self.user_names()
        dropped = [n for n in Names.dropped if n not in taken and (n in STD_INTR_S) == (kind == "s")]
        if dropped and r.random() < 0.5:
            return r.choice(dropped)
        if kind == "f" and r.random() < 0.6:
            pool = [n for n in INTR_F if n in Names.spec and n not in taken]
        else:
            pool = [n for n in (Names.intr_f if kind == "f" else Names.intr_s) if n not in taken]
        return r.choice(pool)

    def assoc_names(self, kind):
        merged = {}
        for d in self.assoc:      # inner scopes shadow outer ones
            merged.update(d)
        return [(k, v) for k, v in merged.items() if v[0] == kind]

    def obj(self):
        """an object designator: (name, type)"""
        cands = list(OBJS.items())
        for k, v in self.assoc_names("obj"):
            cands.append((k, v[1]))
            cands.append((k, v[1]))
        return self.r.choice(cands)

    def via_parent(self, t):
        """optionally the parent component (`b % t0 % q(1)`): [] or [(parent type name, None)]"""
        ps = type_parents(self.u.types, t)
        if ps and self.r.random() < 0.25:
            self.note("parent-component")
            return [(ps[0], None)]
        return []

    def members(self, t, key, parts):
        """components of kind `key` reachable at the end of `parts` (after a parent component only
        the parent's own and inherited ones)"""
        if parts and parts[-1][0] in self.u.types and parts[-1][1] is None and parts[-1][0] in type_parents(self.u.types, t):
            return type_members(self.u.types, parts[-1][0], key)
        return type_members(self.u.types, t, key)

    def chain(self, depth):
        """(base, base subscripts | None, parts, type of the designated object): a designator of
        an object of derived type in which some part carries a subscript list"""
        r = self.r
        k = r.random()
        one = lambda: self.subs(depth, 1)
        if k < 0.3:
            return "oa", one(), [], "t1"
        if k < 0.55:
            return "ob", one(), [], "t2"
        if k < 0.75:
            return r.choice(["a", "c"]), None, [("cells", one())], "t2"
        if k < 0.9:
            return "oa", one(), [("cells", one())], "t2"
        return "oa", one(), [("inner", None)], "t0"

    def subs(self, depth, n=1):
        out = []
        for _ in range(n):
            if self.r.random() < 0.2:
                lo = self.expr(depth + 1) if self.r.random() < 0.6 else None
                hi = self.expr(depth + 1) if self.r.random() < 0.6 else None
                out.append(("slice", lo, hi))
            else:
                out.append(self.expr(depth + 1))
        return out

    def expr(self, depth=0):
        r = self.r
        leaf = depth >= 3 or r.random() < 0.25
        if leaf:
            k = r.random()
            if k < 0.35:
                return ("var", r.choice(SCALARS))
            if k < 0.6:
                return ("num", r.choice(["1", "2", "10", "42"]))
            if k < 0.7:
                return ("real", r.choice(["1.0", "2.5e0", "1.d0", "3.0_8"]))
            if k < 0.8:
                return self.literal()
            if k < 0.9:
                o, t = self.obj()
                return ("comp", o, [(r.choice(self.u.types[t]["scalars"]), None)])
            sc = self.assoc_names("scalar")
            if sc:
                return ("var", r.choice(sc)[0])
            return ("var", r.choice(SCALARS))
        k = r.random()
        if k < 0.22:
            self.note("funref")
            return ("fun", r.choice(self.u.funcs + self.u.extf), self.args(depth, 0, 3))
        if k < 0.36:
            self.note("intrinsic")
            return ("intr", self.intrinsic_name("f"), self.args(depth, 1, 2))
        if k < 0.52:
            self.note("arrayref")
            names = self.u.arrs + [self.u.garr] + [n for n, _ in self.assoc_names("arr")]
            return ("arr", r.choice(names), self.subs(depth, r.choice([1, 1, 2])))
        if k < 0.60 and r.random() < 0.45:
            # round 6: a data reference / bound-function reference through an array of objects
            b, bs, parts, t = self.chain(depth)
            funs = type_bindings(self.u.types, t, "fun")
            if funs and r.random() < 0.45:
                self.note("bound-funref-through-array-element")
                bn, owner = r.choice(funs)
                if owner != t:
                    self.note("inherited-binding")
                return ("tbfx", b, bs, parts, owner, bn, self.args(depth, 0, 2))
            self.note("component-of-array-element")
            parts = parts + self.via_parent(t)
            if r.random() < 0.7:
                return ("compx", b, bs, parts + [(r.choice(self.members(t, "arrays", parts)), self.subs(depth))])
            return ("compx", b, bs, parts + [(r.choice(self.members(t, "scalars", parts)), None)])
        if k < 0.60:
            self.note("component-array")
            o, t = self.obj()
            if self.u.types[t]["objs"] and r.random() < 0.4:
                io, it = r.choice(list(self.u.types[t]["objs"].items()))
                return ("comp", o, [(io, None), (r.choice(self.u.types[it]["arrays"]), self.subs(depth))])
            return ("comp", o, [(r.choice(type_members(self.u.types, t, "arrays")), self.subs(depth))])
        if k < 0.70:
            self.note("bound-funref")
            o, t = self.obj()
            b, owner = r.choice(type_bindings(self.u.types, t, "fun"))
            if owner != t:
                self.note("inherited-binding")
            return ("tbf", o, owner, b, self.args(depth, 0, 2))
        if k < 0.74:
            self.note("constructor")
            return ("ctor", r.choice(["t0", "t1", "t2"]), self.args(depth, 1, 2))
        if k < 0.90:
            op = r.choice(["+", "-", "*", "/", "**", "==", "<", ">=", "/=", ".and.", ".or.", "//", ".eq."])
            return ("bin", op, self.expr(depth + 1), self.expr(depth + 1))
        if k < 0.94:
            return ("un", r.choice(["-", ".not. "]), self.expr(depth + 1))
        if k < 0.97:
            return ("paren", self.expr(depth + 1))
        self.note("array-constructor")
        if r.random() < 0.5:
            return ("aconst", r.choice(["[", "(/"]), [self.expr(depth + 1) for _ in range(r.randint(1, 3))])
        return ("implied", self.expr(depth + 1), "i", ("num", "1"), self.expr(depth + 2))

    def lhs(self):
        r = self.r
        k = r.random()
        if k < 0.45:
            return ("var", r.choice(SCALARS))
        if k < 0.75:
            return ("arr", r.choice(self.u.warrs + [self.u.garr]), self.subs(1, 1))
        if k >= 0.75 and r.random() < 0.35:
            b, bs, parts, t = self.chain(1)
            self.note("assign-to-component-of-array-element")
            parts = parts + self.via_parent(t)
            if r.random() < 0.6:
                return ("compx", b, bs, parts + [(r.choice(self.members(t, "arrays", parts)), self.subs(1))])
            return ("compx", b, bs, parts + [(r.choice(self.members(t, "scalars", parts)), None)])
        o, t = self.obj()
        if k < 0.88:
            return ("comp", o, [(r.choice(self.u.types[t]["scalars"]), None)])
        return ("comp", o, [(r.choice(self.u.types[t]["arrays"]), self.subs(1))])

    # ---- simple statements
    def call_stmt(self):
        r = self.r
        if r.random() < 0.08:
            b, bs, parts, t = self.chain(0)
            sbs = type_bindings(self.u.types, t, "sub")
            if sbs:
                self.note("call-bound-through-array-element")
                bn, owner = r.choice(sbs)
                if owner != t:
                    self.note("inherited-binding")
                return ("callbx", b, bs, parts, owner, bn, self.args(0, 0, 2) if r.random() < 0.7 else None)
        if r.random() < 0.3:
            self.note("call-bound")
            o, t = self.obj()
            b, owner = r.choice(type_bindings(self.u.types, t, "sub"))
            if owner != t:
                self.note("inherited-binding")
            return ("callb", o, owner, b, self.args(0, 0, 2) if r.random() < 0.7 else None)
        if r.random() < 0.06 and Names.intr_s:
            # an intrinsic subroutine: nothing is invoked but what its arguments invoke
            self.note("call-intrinsic")
            return ("icall", self.intrinsic_name("s"), self.args(0, 1, 2))
        name = r.choice(self.u.subs + self.u.exts)
        if r.random() < 0.3:
            self.note("call-noargs")
            return ("call", name, None)
        self.note("call")
        return ("call", name, self.args(0, 0, 3))

    def assign(self):
        self.note("assign")
        return ("assign", self.lhs(), self.expr(0))

    def action(self):
        """an action statement allowed after `if (...)` / a label"""
        r = self.r
        k = r.random()
        if k < 0.38:
            return self.assign()
        if k < 0.70:
            return self.call_stmt()
        if k < 0.80:
            # a computed GO TO is an action statement like any other: it may follow `if (...)`
            # and / or a statement label
            return self.cgoto()
        if k < 0.86:
            self.note("goto")
            return ("goto", r.choice(LABELS), r.choice(GOTO_SPELLINGS))
        if k < 0.91:
            return ("simple", r.choice(["return", "exit", "cycle", "continue", "stop"]))
        if k < 0.97:
            return self.io_stmt()
        return self.alloc_stmt()

    def cgoto(self):
        r = self.r
        self.note("computed-goto")
        sel = ("var", "i") if r.random() < 0.7 else self.expr(2)
        return ("cgoto", r.sample(LABELS, r.choice([1, 2, 2, 3])), sel, r.choice(GOTO_SPELLINGS),
                r.choice([" (", " (", "(", "  ("]), r.choice([", ", ",", " , "]), r.choice([") ", "), ", ")", "),", ") , "]))

    def io_stmt(self):
        r = self.r
        k = r.random()
        items = [self.literal() if r.random() < 0.2 else self.expr(1) for _ in range(r.randint(1, 3))]
        if k < 0.3:
            self.note("print")
            fmt = r.choice(["*", "*", "'(a, i0, f(2))'", '"(3f8.2)"'])
            return ("print", fmt, items)
        if k < 0.6:
            self.note("write")
            ctl = r.choice([[(None, "*"), (None, "*")], [("unit", "6"), ("fmt", "*")],
                            [(None, "*"), (None, "'(a, fa(1))'")], [("unit", ("expr", self.expr(1))), ("fmt", "'(i0)'")],
                            [(None, "s"), (None, "'(a)'")]])
            return ("write", ctl, items)
        if k < 0.72:
            self.note("read")
            return ("read", [self.lhs() for _ in range(r.randint(1, 2))])
        if k < 0.86:
            self.note("open")
            return ("open", [("unit", ("expr", self.expr(2))), ("file", r.choice(["'data(1).txt'", ("expr", ("intr", "trim", [("var", "s")]))]))])
        self.note("close")
        return ("close", self.expr(2))

    def alloc_stmt(self):
        r = self.r
        if r.random() < 0.3:
            self.note("deallocate")
            return ("deallocate", [r.choice(["pv", "pm"])])
        self.note("allocate")
        what = r.choice(["pv", "pm", "comp"])
        if what == "pv":
            tgt = ("arr", "pv", [self.expr(1)])
        elif what == "pm":
            tgt = ("arr", "pm", [self.expr(1), self.expr(1)])
        else:
            tgt = ("comp", "a", [("pvals", [self.expr(1)])])
        return ("allocate", r.choice([None, None, "real"]) if what != "comp" else None, tgt, r.random() < 0.3)

    def body(self, depth, lo=1, hi=3):
        out = []
        for _ in range(self.r.randint(lo, hi)):
            out.append(self.stmt(depth + 1))
        return out

    def stmt(self, depth=0):
        r = self.r
        k = r.random()
        if depth >= 2:
            k = k * 0.62  # only simple statements deep down
        if k < 0.20:
            return self.assign()
        if k < 0.36:
            return self.call_stmt()
        if k < 0.44:
            self.note("if-stmt")
            cond, act = self.expr(1), self.action()
            self.note("if-stmt+" + act[0])
            return ("ifstmt", cond, act)
        if k < 0.50:
            return self.io_stmt()
        if k < 0.53:
            return self.alloc_stmt()
        if k < 0.56:
            self.note("where-stmt")
            return ("wherestmt", self.expr(1), ("assign", ("arr", r.choice(self.u.warrs), [("slice", None, None)]), self.expr(1)))
        if k < 0.58:
            self.note("forall")
            return ("forall", "i", ("num", "1"), self.expr(2), ("assign", ("arr", r.choice(self.u.warrs), [("var", "i")]), self.expr(1)))
        if k < 0.62:
            return self.labelled_or_goto()
        # ---- constructs
        if k < 0.70:
            self.note("if-construct")
            arms = [(self.expr(1), self.body(depth))]
            for _ in range(r.choice([0, 0, 1, 2])):
                arms.append((self.expr(1), self.body(depth, 1, 2)))
            els = self.body(depth, 1, 2) if r.random() < 0.4 else None
            return ("ifblock", arms, els, r.random() < 0.3)
        if k < 0.76:
            kind = r.choice(["do", "do", "dowhile", "doconc"])
            self.note(kind)
            if kind == "do":
                return ("do", r.choice(["i", "j"]), self.expr(2), self.expr(2),
                        self.expr(2) if r.random() < 0.3 else None, self.body(depth))
            if kind == "dowhile":
                return ("dowhile", self.expr(1), self.body(depth))
            return ("doconc", "i", ("num", "1"), self.expr(2), self.body(depth, 1, 2))
        if k < 0.81:
            self.note("select-case")
            cases = [(r.choice(["(1)", "(2:3)", "(4, 5)", "(:0)"]), self.body(depth, 1, 2)) for _ in range(r.randint(1, 2))]
            return ("select", self.expr(1), cases, self.body(depth, 1, 1) if r.random() < 0.5 else None)
        if k < 0.85:
            self.note("where-construct")
            mk = lambda: ("assign", ("arr", r.choice(self.u.warrs), [("slice", None, None)]), self.expr(1))
            return ("whereblock", self.expr(1), [mk() for _ in range(r.randint(1, 2))],
                    [mk()] if r.random() < 0.4 else None)
        if k < 0.93:
            self.note("associate")
            items = []
            env = {}
            for nm in r.sample(["p", "q", "w", "rr"], r.randint(1, 2)):
                kk = r.random()
                if kk < 0.35:
                    o, t = self.obj()
                    items.append((nm, ("var", o)))
                    env[nm] = ("obj", t)
                elif kk < 0.55:
                    items.append((nm, ("var", r.choice(self.u.arrs))))
                    env[nm] = ("arr",)
                else:
                    items.append((nm, self.expr(1)))
                    env[nm] = ("scalar",)
            self.assoc.append(env)
            body = self.body(depth, 1, 3)
            self.assoc.pop()
            return ("associate", items, body, r.random() < 0.2)
        self.note("block")
        decls = []
        if r.random() < 0.6:
            decls.append(("plain", r.choice(["integer :: kk", "real :: tmp, tmp2", "logical :: flag2"])))
        if r.random() < 0.35:
            self.note("block-local-array")
            nm = r.choice(["bk", "loc", "sin2"])
            decls.append(("array", nm, r.choice([f"integer :: {nm}(3)", f"real :: {nm}(2, 2)", f"real, dimension(4) :: zz, {nm}(5)"])))
        return ("block", decls, self.body(depth, 1, 3))

    def labelled_or_goto(self):
        r = self.r
        k = r.random()
        if k < 0.30:
            self.note("labelled")
            act = self.action() if r.random() < 0.7 else ("ifstmt", self.expr(1), self.action())
            self.note("labelled+" + act[0] + ("+" + act[2][0] if act[0] == "ifstmt" else ""))
            return ("labelled", r.choice(LABELS), act)
        if k < 0.45:
            self.note("format")
            # blanks around the keyword are free; `format(` without a blank is just as legal
            gap = r.choice([" ", " ", "  ", ""])
            if gap == "":
                self.note("format-without-blank")
            return ("format", r.choice(LABELS), r.choice(FORMAT_ITEMS), r.choice([" ", " ", "  "]),
                    r.choice(["format", "format", "FORMAT", "Format"]), gap)
        if k < 0.6:
            return self.cgoto()
        if k < 0.75:
            self.note("arith-if")
            return ("arithif", self.expr(1), r.sample(LABELS, 3))
        if k < 0.85:
            self.note("goto")
            return ("goto", r.choice(LABELS), r.choice(GOTO_SPELLINGS))
        if k < 0.93:
            self.note("sync-images")
            return ("sync", self.expr(2))
        self.note("doc-comment")
        return ("doc", "!! calls " + r.choice(self.u.subs) + "(1) later")


# --------------------------------------------------------------------------
# rendering (AST -> one logical statement per line)
# --------------------------------------------------------------------------


class Render:
    def __init__(self, rng: random.Random):
        self.r = rng

    def case(self, w):
        k = self.r.random()
        if k < 0.8:
            return w
        if k < 0.9:
            return w.upper()
        return w.capitalize()

    def sp(self, p=0.25):
        return " " if self.r.random() < p else ""

    def name(self, n):
        return self.case(n)

    def arglist(self, args):
        inner = ("," + self.sp(0.8)).join(self.e(a) for a in args)
        if not args:
            return "(" + self.sp(0.1) + ")" if False else "()"
        return "(" + self.sp(0.1) + inner + self.sp(0.1) + ")"

    def sub(self, s):
        if isinstance(s, tuple) and s[0] == "slice":
            return (self.e(s[1]) if s[1] else "") + ":" + (self.e(s[2]) if s[2] else "")
        return self.e(s)

    def pct(self):
        return self.r.choice(["%", "%", "%", " % ", "% ", " %"])

    def designator(self, b, bs, parts):
        """`base [(subs)] {% part [(subs)]}`: blanks are free around `%` and in front of `(`"""
        s = self.name(b)
        if bs is not None:
            s += self.sp(0.15) + "(" + self.sp(0.1) + ", ".join(self.sub(x) for x in bs) + self.sp(0.1) + ")"
        for cname, subs in parts:
            s += self.pct() + self.name(cname)
            if subs is not None:
                s += self.sp(0.15) + "(" + ", ".join(self.sub(x) for x in subs) + ")"
        return s

    def e(self, n):
        t = n[0]
        if t in ("var",):
            return self.name(n[1])
        if t in ("num", "real", "str", "log"):
            return n[1]
        if t == "kw":
            return n[1] + self.sp() + "=" + self.sp() + self.e(n[2])
        if t in ("fun", "intr", "ctor"):
            return self.name(n[1]) + self.sp(0.15) + self.arglist(n[2])
        if t == "arr":
            return self.name(n[1]) + self.sp(0.1) + "(" + ", ".join(self.sub(s) for s in n[2]) + ")"
        if t == "comp":
            s = self.name(n[1])
            for cname, subs in n[2]:
                s += self.pct() + self.name(cname)
                if subs is not None:
                    s += "(" + ", ".join(self.sub(x) for x in subs) + ")"
            return s
        if t == "compx":
            return self.designator(n[1], n[2], n[3])
        if t == "tbfx":
            return self.designator(n[1], n[2], n[3]) + self.pct() + self.name(n[5]) + self.sp(0.1) + self.arglist(n[6])
        if t == "tbf":
            return self.name(n[1]) + self.pct() + self.name(n[3]) + self.sp(0.1) + self.arglist(n[4])
        if t == "bin":
            return self.e(n[2]) + " " + n[1] + " " + self.e(n[3])
        if t == "un":
            return n[1] + self.e(n[2])
        if t == "paren":
            return "(" + self.e(n[1]) + ")"
        if t == "aconst":
            close = "]" if n[1] == "[" else "/)"
            return n[1] + ", ".join(self.e(x) for x in n[2]) + close
        if t == "implied":
            return "[(" + self.e(n[1]) + ", " + n[2] + " = " + self.e(n[3]) + ", " + self.e(n[4]) + ")]"
        if t == "expr":
            return self.e(n[1])
        raise ValueError(n)

    def ctl(self, items):
        out = []
        for key, val in items:
            v = self.e(val) if isinstance(val, tuple) else val
            out.append(v if key is None else f"{key}={v}")
        return ", ".join(out)

    def simple(self, n):
        """one-line statements"""
        t = n[0]
        if t == "assign":
            return self.e(n[1]) + " = " + self.e(n[2])
        if t == "call":
            s = self.case("call") + self.r.choice([" ", " ", "  "]) + self.name(n[1])
            if n[2] is not None:
                s += self.sp(0.15) + self.arglist(n[2])
            return s
        if t == "icall":
            return self.case("call") + " " + self.name(n[1]) + self.sp(0.15) + self.arglist(n[2])
        if t == "callb":
            s = self.case("call") + " " + self.name(n[1]) + self.pct() + self.name(n[3])
            if n[4] is not None:
                s += self.sp(0.1) + self.arglist(n[4])
            return s
        if t == "callbx":
            s = self.case("call") + " " + self.designator(n[1], n[2], n[3]) + self.pct() + self.name(n[5])
            if n[6] is not None:
                s += self.sp(0.1) + self.arglist(n[6])
            return s
        if t == "goto":
            return n[2] + " " + n[1]
        if t == "simple":
            return n[1]
        if t == "ifstmt":
            return self.case("if") + self.sp(0.7) + "(" + self.e(n[1]) + ")" + self.r.choice([" ", " ", "  "]) + self.simple(n[2])
        if t == "print":
            return self.case("print") + " " + n[1] + ", " + ", ".join(self.e(x) for x in n[2])
        if t == "write":
            return self.case("write") + self.sp(0.3) + "(" + self.ctl(n[1]) + ") " + ", ".join(self.e(x) for x in n[2])
        if t == "read":
            return "read(*,*) " + ", ".join(self.e(x) for x in n[1])
        if t == "open":
            return "open(" + self.ctl(n[1]) + ")"
        if t == "close":
            return "close(" + self.e(n[1]) + ")"
        if t == "allocate":
            pre = (n[1] + " :: ") if n[1] else ""
            return "allocate(" + pre + self.e(n[2]) + (", stat=i" if n[3] else "") + ")"
        if t == "deallocate":
            return "deallocate(" + ", ".join(n[1]) + ")"
        if t == "wherestmt":
            return self.case("where") + " (" + self.e(n[1]) + ") " + self.simple(n[2])
        if t == "forall":
            return "forall (" + n[1] + " = " + self.e(n[2]) + ":" + self.e(n[3]) + ") " + self.simple(n[4])
        if t == "labelled":
            return n[1] + " " + self.simple(n[2])
        if t == "format":
            return n[1] + n[3] + n[4] + n[5] + n[2]
        if t == "cgoto":
            return n[3] + n[4] + n[5].join(n[1]) + n[6] + self.e(n[2])
        if t == "arithif":
            return "if (" + self.e(n[1]) + ") " + ", ".join(n[2])
        if t == "sync":
            return "sync images (" + self.e(n[1]) + ")"
        if t == "doc":
            return n[1]
        raise ValueError(n)

    def stmts(self, body, out):
        for s in body:
            self.stmt(s, out)

    def stmt(self, n, out):
        t = n[0]
        if t == "ifblock":
            arms, els, named = n[1], n[2], n[3]
            lab = "chk: " if named else ""
            for k, (cond, body) in enumerate(arms):
                if k == 0:
                    out.append(lab + self.case("if") + " (" + self.e(cond) + ") " + self.case("then"))
                else:
                    out.append(self.r.choice(["else if", "elseif", "ELSE IF"]) + " (" + self.e(cond) + ") then")
                self.stmts(body, out)
            if els is not None:
                out.append("else")
                self.stmts(els, out)
            out.append(self.r.choice(["end if", "endif", "END IF"]) + (" chk" if named else ""))
        elif t == "do":
            s = "do " + n[1] + " = " + self.e(n[2]) + ", " + self.e(n[3])
            if n[4] is not None:
                s += ", " + self.e(n[4])
            out.append(s)
            self.stmts(n[5], out)
            out.append(self.r.choice(["end do", "enddo"]))
        elif t == "dowhile":
            out.append(self.case("do") + " " + self.case("while") + self.sp(0.7) + "(" + self.e(n[1]) + ")")
            self.stmts(n[2], out)
            out.append("end do")
        elif t == "doconc":
            out.append("do concurrent (" + n[1] + " = " + self.e(n[2]) + ":" + self.e(n[3]) + ")")
            self.stmts(n[4], out)
            out.append("end do")
        elif t == "select":
            out.append(self.case("select case") + " (" + self.e(n[1]) + ")")
            for val, body in n[2]:
                out.append("case " + val)
                self.stmts(body, out)
            if n[3] is not None:
                out.append("case default")
                self.stmts(n[3], out)
            out.append("end select")
        elif t == "whereblock":
            out.append("where (" + self.e(n[1]) + ")")
            for a in n[2]:
                out.append(self.simple(a))
            if n[3] is not None:
                out.append(self.r.choice(["elsewhere", "else where"]))
                for a in n[3]:
                    out.append(self.simple(a))
            out.append("end where")
        elif t == "associate":
            items = ", ".join(nm + self.r.choice([" => ", "=>", " =>"]) + self.e(ex) for nm, ex in n[1])
            out.append(("asc: " if n[3] else "") + self.case("associate") + self.sp(0.7) + "(" + items + ")")
            self.stmts(n[2], out)
            out.append(self.r.choice(["end associate", "END ASSOCIATE", "endassociate"]) + (" asc" if n[3] else ""))
        elif t == "block":
            out.append(self.case("block"))
            for d in n[1]:
                out.append(d[-1])
            self.stmts(n[2], out)
            out.append("end block")
        else:
            out.append(self.simple(n))


NO_JOIN = ("labelled", "format", "doc")
FIXED_SHARE = 0.2     # share of the unit cases written as a fixed-form file (`c.f`)


def layout(rng: random.Random, stmts: list[str], feat: set, logical: list | None = None) -> list[str]:
    """Physical lines: `;` joins, `&` continuations, trailing comments.
    A statement may be cut (round 5) at ANY position outside character literals - between `call`
    and the name, in the middle of a name or keyword, inside an argument list.  At a cut that
    touches a blank every legal style is drawn: the next line without leading `&` (the reader
    joins with one blank), with `& ` or with `&` directly in front of the text; the trailing `&`
    with or without a blank in front.  At any other cut the join must be exact: `text&` / `&text`.
    The blank that separates two tokens may therefore stand only in front of the trailing `&`
    (`call &` / `&name`) or only behind the leading one.
    `logical` (if given) receives, per group of physical lines, the completed logical line as
    Fortran's continuation rules define it (a leading `&` resumes right behind it, its absence
    joins with one blank; the text in front of a trailing `&` belongs to the statement; comments
    and interspersed blank/comment lines vanish)."""
    lines = []
    k = 0
    while k < len(stmts):
        s = stmts[k]
        text = s
        special = s.startswith("!!") or s[:1].isdigit()
        # join with the following statement(s)
        while (not special and k + 1 < len(stmts) and rng.random() < 0.12
               and not stmts[k + 1].startswith("!!") and not stmts[k + 1][:1].isdigit()):
            k += 1
            text += rng.choice(["; ", ";", " ; "]) + stmts[k]
            feat.add("semicolon")
        k += 1
        ind = rng.choice(["", "  ", "    ", "      "])
        if s.startswith("!!"):
            lines.append(ind + text)
            continue
        # continuation cuts
        cuts = []
        if rng.random() < 0.20:
            blanks = break_positions(text)
            anyp = cut_positions(text)
            nb = 1 if rng.random() < 0.7 else 2
            for _ in range(nb):
                pool = blanks if (blanks and rng.random() < 0.5) else anyp
                if pool:
                    cuts.append(rng.choice(pool))
            cuts = sorted(set(cuts))
            # every piece carries text
            ok, last = [], 0
            for c in cuts:
                if text[last:c].strip() and text[c:].strip():
                    ok.append(c)
                    last = c
            cuts = ok
        pieces, last = [], 0
        for c in cuts:
            pieces.append(text[last:c])
            last = c
        pieces.append(text[last:])
        if cuts:
            feat.add("continuation")
        joined = ""
        for i, pc in enumerate(pieces):
            final = i == len(pieces) - 1
            # style of the join in front of this piece / of the `&` behind it
            lead = tail = ""
            if i > 0:
                c = cuts[i - 1]
                if text[c - 1] == " " or text[c] == " ":
                    lead = rng.choice(["", "", "& ", "&", "&"])
                    feat.add({"": "continuation:no-leading-amp", "& ": "continuation:amp-blank", "&": "continuation:amp-glued"}[lead])
                    if lead == "&" and text[c] != " ":
                        feat.add("continuation:blank-only-before-amp")
                else:
                    lead = "&"
                    feat.add("continuation:cut-inside-token" if (text[c - 1].isalnum() or text[c - 1] == "_")
                             and (text[c].isalnum() or text[c] == "_") else "continuation:cut-between-tokens")
            if not final:
                c = cuts[i]
                touching = text[c - 1] == " " or text[c] == " "
                tail = rng.choice([" &", " &", "&"]) if touching else "&"
            if i > 0 and lead == "" and pc.lstrip().startswith("&"):
                lead = "&"
            ln = ind + lead + (pc.lstrip() if lead == "" and i > 0 else pc) + tail
            # the logical line: the text in front of the `&` belongs to the statement
            body = pc.rstrip() if final else pc + (" " if tail == " &" else "")
            if i == 0 or lead == "":
                joined = joined.strip() + " " + body.lstrip()
            else:
                joined = joined + lead[1:] + body
            if rng.random() < 0.08:
                ln += rng.choice(["  ! note: call cm(1)", " ! fa(2) here", " !"])
                feat.add("comment")
            lines.append(ln)
            if not final and rng.random() < 0.1:
                lines.append(rng.choice(["", "   ! comment between, zz(3)"]))
                feat.add("line-in-continuation")
        if logical is not None:
            logical.append(joined)
    return lines


# --------------------------------------------------------------------------
# fixed-form layout (round 6): the same statements written as cards
# --------------------------------------------------------------------------

FIXED_WIDTH = 66                      # columns 7-72
CONT_MARKS = "&&&123456789+$*.xX>-:"  # any character but blank and `0` in column 6 continues the statement
SEQ_FIELD = ["DK{n:06d}", "{n:08d}", "MAIN{n:04d}", "! was: call sa(1)", "call fa(2)", " x = fb(1)", ")", "'", "& ",
             "!", "!! not a doc", "; call sb", "(", "\"it", "        ", "&", ",", "% init()", "C", "= 1"]
COMMENT_CARDS = ["C     call sa(1)", "c", "*   y = fa(2)", "! note fb(3)", "", "   ", "C", "*", "c$    x = 1", "!     & fa(1)"]
LOOSE_COMMENT_CARDS = ["      ! col 7 comment, call sb(1)", "          ", "        !x = fa(1)", "                  "]


class Card(str):
    """a physical line that is already laid out in columns"""


def fixed_cut_positions(text: str, exact: bool) -> list[int]:
    """Positions where a statement may be cut into cards.  FORD turns a continued card into
    `text &` / `text`, which the reader joins with one blank, so a cut is placed where a blank
    is harmless: next to a blank, or next to `,` `(` `)` `%` (not inside `(/`, `/)`, `()`), always
    outside character literals.  `exact`: only at a single blank between two non-blanks (the
    joined text is then character for character the uncut line)."""
    lit = literal_mask(text)
    out = []
    for p_ in range(1, len(text)):
        a, b = text[p_ - 1], text[p_]
        if lit[p_ - 1] or lit[p_]:
            continue
        if exact:
            if a == " " and b != " " and p_ >= 2 and text[p_ - 2] != " ":
                out.append(p_)
            continue
        if a == " " or b == " ":
            out.append(p_)
        elif (a in ",()%" or b in ",()%") and (a, b) not in (("(", "/"), ("/", ")"), ("(", ")")):
            out.append(p_)
    return out


def fixed_cards(rng: random.Random, text: str, feat: set, counter: list, exact: bool = False, p_cut: float = 0.2):
    """One statement line (free-form text, possibly `;`-joined, possibly with a label in front) as
    fixed-form cards.  Returns (cards, logical line) or None when the text cannot be laid out in
    columns 7-72 with the cuts allowed."""
    label = ""
    body = text
    m = re.match(r"(\d{1,5})\s+(?=\S)", text)
    if m and not exact:
        label, body = m.group(1), text[m.end():]
    body = body.strip()
    ind0 = rng.choice(["", "", " ", "  ", "   "])
    allowed = fixed_cut_positions(body, exact)
    pieces, start = [], 0
    first = True
    while True:
        width = FIXED_WIDTH - (len(ind0) if first else 3)
        must = len(body) - start > width
        if not must and rng.random() >= (p_cut if first else 0.3):
            break
        cands = [q for q in allowed if start < q < len(body) and q - start <= width
                 and body[start:q].strip() and body[q:].strip()]
        if not cands:
            if must:
                return None
            break
        q = rng.choice(cands[-6:] if must else cands)
        pieces.append(body[start:q])
        start = q
        first = False
    pieces.append(body[start:])
    if len(pieces[-1].strip()) > FIXED_WIDTH - 3:
        return None
    cards = []
    for i, pc in enumerate(pieces):
        if i == 0:
            lab5 = "" if not label else rng.choice([label.rjust(5), label.ljust(5), (" " + label).ljust(5)[:5] if len(label) < 5 else label])
            field = lab5.ljust(5) + rng.choice([" ", " ", " ", "0"]) + ind0 + (pc if exact else pc.strip())
        else:
            field = "     " + rng.choice(CONT_MARKS) + rng.choice(["", " ", "  ", "   "]) + pc.strip()
            feat.add("fixed:continuation-card")
            if rng.random() < 0.12:
                cards.append(Card(rng.choice(COMMENT_CARDS)))
                feat.add("fixed:comment-card-in-continuation")
        if rng.random() < 0.5:
            counter[0] += 10
            seq = rng.choice(SEQ_FIELD).format(n=counter[0])
            field = field.ljust(72) + seq
            feat.add("fixed:sequence-field")
            if i < len(pieces) - 1:
                feat.add("fixed:sequence-field-on-continued-card")
        cards.append(Card(field))
    if len(pieces) > 1:
        feat.add("fixed:continued-statement")
    logical = ((label + " " + ind0) if label else "") + " ".join(pc.strip() for pc in pieces)
    if exact:
        logical = "".join(pieces)
    return cards, logical


def fixed_layout(rng: random.Random, stmts: list[str], feat: set, logical: list, counter: list):
    """The executable part as fixed-form cards (`;` joins, continuation cards with any mark in
    column 6, labels in columns 1-5, comment cards of every style, text in columns 73+).
    Returns the cards, or None when a statement cannot be laid out."""
    cards = []
    k = 0
    while k < len(stmts):
        s0 = stmts[k]
        text = s0
        special = s0.startswith("!!") or s0[:1].isdigit()
        while (not special and k + 1 < len(stmts) and rng.random() < 0.12
               and not stmts[k + 1].startswith("!!") and not stmts[k + 1][:1].isdigit()):
            k += 1
            text += rng.choice(["; ", ";", " ; "]) + stmts[k]
            feat.add("semicolon")
        k += 1
        if s0.startswith("!!"):
            cards.append(Card(rng.choice(["      ", "!", "        "])[:0] + rng.choice(["      " + text, text, "         " + text])))
            continue
        r_ = fixed_cards(rng, text, feat, counter)
        if r_ is None:
            return None
        cards += r_[0]
        logical.append(r_[1])
        if rng.random() < 0.08:
            cards.append(Card(rng.choice(COMMENT_CARDS + LOOSE_COMMENT_CARDS)))
            feat.add("fixed:comment-card")
    return cards


def literal_mask(text: str) -> list[bool]:
    """per character: does it belong to a character literal (delimiters included)?"""
    out = []
    q = None
    for c in text:
        if q is None:
            if c in "'\"":
                q = c
                out.append(True)
            else:
                out.append(False)
        else:
            out.append(True)
            if c == q:
                q = None
    return out


def break_positions(text: str) -> list[int]:
    """indices of blanks outside character literals (a continuation may be placed there)"""
    lit = literal_mask(text)
    return [i for i, c in enumerate(text) if c == " " and not lit[i] and 0 < i < len(text) - 1 and text[i - 1] != " "]


def cut_positions(text: str) -> list[int]:
    """every position 0 < p < len(text) with the characters on both sides outside character
    literals (a statement may be cut there with `&` ... `&`)"""
    lit = literal_mask(text)
    return [p for p in range(1, len(text)) if not lit[p - 1] and not lit[p]]


# --------------------------------------------------------------------------
# specification: which user procedures does the AST invoke?
# --------------------------------------------------------------------------


class Spec:
    """Structural recursion over the AST.  `refs` lists every parenthesised / called designator
    with its identity and the context it occurs in (used to classify known defect classes)."""

    def __init__(self, u: Universe):
        self.u = u
        self.calls = []  # identities of invoked user procedures (with repetition)
        self.refs = []   # (last name, identity, context)
        self.ctx = "normal"
        self.block_arrays = []
        self.format_noblank_heads = []
        self.sync = False

    def proc_id(self, name):
        if name == "mk_t1":
            return ("proc", name)       # module function that returns an object of type t1
        if name in self.u.generics:
            return ("generic", name)    # generic interface of the module
        if name in self.u.funcs or name in self.u.subs:
            return ("proc", name)
        if name in self.u.spec.iface_ext:
            return ("iface", name)      # explicit interface (interface block) of an external procedure
        return ("name", name)

    def invoke(self, ident, last):
        self.calls.append((ident, self.ctx))
        self.refs.append((last, ident))

    def e(self, n):
        if n is None:
            return
        t = n[0]
        if t in ("var", "num", "real", "str", "log"):
            return
        if t == "kw":
            return self.e(n[2])
        if t == "expr":
            return self.e(n[1])
        if t == "fun":
            self.invoke(self.proc_id(n[1]), n[1])
            for a in n[2]:
                self.e(a)
        elif t == "intr":
            for a in n[2]:
                self.e(a)
        elif t == "ctor":
            self.refs.append((n[1], ("type", n[1])))
            for a in n[2]:
                self.e(a)
        elif t == "arr":
            self.refs.append((n[1], ("var", n[1])))
            for s in n[2]:
                self.sub(s)
        elif t == "comp":
            for cname, subs in n[2]:
                if subs is not None:
                    self.refs.append((cname, ("component", cname)))
                    for s in subs:
                        self.sub(s)
        elif t == "tbf":
            self.invoke(("bound", n[2], n[3]), n[3])
            for a in n[4]:
                self.e(a)
        elif t in ("compx", "tbfx"):
            self.designator(n[1], n[2], n[3])
            if t == "tbfx":
                self.invoke(("bound", n[4], n[5]), n[5])
                for a in n[6]:
                    self.e(a)
        elif t == "bin":
            self.e(n[2])
            self.e(n[3])
        elif t in ("un", "paren"):
            self.e(n[-1])
        elif t == "aconst":
            for x in n[2]:
                self.e(x)
        elif t == "implied":
            self.e(n[1]); self.e(n[3]); self.e(n[4])
        elif t == "slice":
            self.e(n[1]); self.e(n[2])
        else:
            raise ValueError(n)

    def designator(self, b, bs, parts):
        """the parts of a designator invoke nothing; their subscripts may"""
        if bs is not None:
            self.refs.append((b, ("var", b)))
            for x in bs:
                self.sub(x)
        for cname, subs in parts:
            if subs is not None:
                self.refs.append((cname, ("component", cname)))
                for x in subs:
                    self.sub(x)

    def sub(self, s):
        if isinstance(s, tuple) and s[0] == "slice":
            self.e(s[1]); self.e(s[2])
        else:
            self.e(s)

    def ctl(self, items):
        for _, v in items:
            if isinstance(v, tuple):
                self.e(v)

    def body(self, b):
        for s in b:
            self.s(s)

    def s(self, n):
        t = n[0]
        if t == "assign":
            self.e(n[1]); self.e(n[2])
        elif t == "call":
            self.invoke(self.proc_id(n[1]), n[1])
            for a in n[2] or []:
                self.e(a)
        elif t == "callb":
            self.invoke(("bound", n[2], n[3]), n[3])
            for a in n[4] or []:
                self.e(a)
        elif t == "callbx":
            self.designator(n[1], n[2], n[3])
            self.invoke(("bound", n[4], n[5]), n[5])
            for a in n[6] or []:
                self.e(a)
        elif t == "icall":
            for a in n[2]:
                self.e(a)
        elif t in ("goto", "simple", "doc"):
            pass
        elif t == "format":
            if n[5] == "":
                # tokens directly followed by `(` in the item list (character literals masked)
                items = re.sub(r"'[^']*'|\"[^\"]*\"", "''", n[2])
                self.format_noblank_heads += [m.lower() for m in re.findall(r"(\w+)\s*\(", items)]
        elif t == "ifstmt":
            if n[2][0] == "cgoto":
                # the logical IF and its action are ONE statement: the context of the condition
                # is the statement's
                old = self.ctx
                self.ctx = "computed-goto"
                self.e(n[1])
                self.ctx = old
            else:
                self.e(n[1])
            self.s(n[2])
        elif t == "print":
            for x in n[2]:
                self.e(x)
        elif t == "write":
            self.ctl(n[1])
            for x in n[2]:
                self.e(x)
        elif t == "read":
            for x in n[1]:
                self.e(x)
        elif t == "open":
            self.ctl(n[1])
        elif t == "close":
            self.e(n[1])
        elif t == "allocate":
            self.e(n[2])
        elif t == "deallocate":
            pass
        elif t == "wherestmt":
            self.e(n[1]); self.s(n[2])
        elif t == "forall":
            self.e(n[2]); self.e(n[3]); self.s(n[4])
        elif t == "labelled":
            inner = n[2]
            tgt = inner[2] if inner[0] == "ifstmt" else inner
            noarg = (tgt[0] == "call" and tgt[2] is None) or (tgt[0] == "callb" and tgt[4] is None) or (tgt[0] == "callbx" and tgt[6] is None)
            if noarg:
                # only the CALL itself is in the special context, not the IF condition
                if inner[0] == "ifstmt":
                    self.e(inner[1])
                old = self.ctx
                self.ctx = "labelled-call-noargs"
                self.s(tgt)
                self.ctx = old
            else:
                self.s(inner)
        elif t == "cgoto":
            old = self.ctx
            self.ctx = "computed-goto"
            self.e(n[2])
            self.ctx = old
        elif t == "arithif":
            self.e(n[1])
        elif t == "sync":
            self.sync = True
            self.e(n[1])
        elif t == "ifblock":
            for cond, body in n[1]:
                self.e(cond); self.body(body)
            if n[2] is not None:
                self.body(n[2])
        elif t == "do":
            self.e(n[2]); self.e(n[3]); self.e(n[4]); self.body(n[5])
        elif t == "dowhile":
            self.e(n[1]); self.body(n[2])
        elif t == "doconc":
            self.e(n[2]); self.e(n[3]); self.body(n[4])
        elif t == "select":
            self.e(n[1])
            for _, b in n[2]:
                self.body(b)
            if n[3] is not None:
                self.body(n[3])
        elif t == "whereblock":
            self.e(n[1])
            for a in n[2]:
                self.s(a)
            for a in n[3] or []:
                self.s(a)
        elif t == "associate":
            for _, ex in n[1]:
                self.e(ex)
            self.body(n[2])
        elif t == "block":
            for d in n[1]:
                if d[0] == "array":
                    self.block_arrays.append(d[1])
            self.body(n[2])
        else:
            raise ValueError(n)


def expected_set(spec: Spec) -> set:
    return {i for i, _ in spec.calls}


def classify_diff(spec: Spec, missing: set, extra: set, dup: list) -> tuple[set, list]:
    """Explain every element of the difference by a known defect class; returns
    (classes that explain something, unexplained elements)."""
    classes = set()
    unexplained = []
    idents_by_last = {}
    for last, ident in spec.refs:
        idents_by_last.setdefault(last, set()).add(ident)
    for m in sorted(missing, key=str):
        last = m[-1]
        ctxs = {c for i, c in spec.calls if i == m}
        if len(idents_by_last.get(last, ())) > 1:
            classes.add("C08-dedup-last-chain-element")
        elif m[0] in ("proc", "name", "iface", "generic") and m[-1] in Names.spec:
            # a user procedure that carries the name of a specified intrinsic / keyword
            classes.add("C08-user-procedure-named-as-intrinsic-dropped")
        elif m[0] == "name" and m[1] in spec.u.spec.typed_only_ext:
            classes.add("C08-typed-external-function-dropped")
        elif ctxs and ctxs <= {"labelled-call-noargs", "computed-goto"}:
            if "labelled-call-noargs" in ctxs:
                classes.add("C08-labelled-call-without-arglist")
            if "computed-goto" in ctxs:
                classes.add("C08-computed-goto-selector-not-scanned")
        else:
            unexplained.append(("missing", m))
    for e in sorted(extra, key=str):
        if e[0] == "name" and e[1] in spec.block_arrays:
            classes.add("C08-block-local-array-recorded")
        elif e[0] == "name" and e[1] in spec.u.spec.implicit_arrays:
            classes.add("C08-implicitly-typed-array-recorded")
        elif e == ("name", "images") and spec.sync:
            classes.add("C08-sync-images-keyword-recorded")
        elif e[0] in ("name", "proc") and e[-1] in spec.format_noblank_heads:
            classes.add("C08-format-without-blank-scanned")
        else:
            unexplained.append(("extra", e))
    for d in dup:
        unexplained.append(("duplicate", d))
    return classes, unexplained


# --------------------------------------------------------------------------
# the generated project file
# --------------------------------------------------------------------------


MK_T1 = ["  function mk_t1(k) result(r)", "    integer, optional :: k", "    type(t1) :: r", "    r%cnt = 0", "  end function mk_t1"]


def module_text(u: Universe) -> list[str]:
    L = ["module m_types", "  implicit none", f"  real :: {u.garr}(100)"]
    for tn, td in u.types.items():
        L.append(f"  type, extends({td['extends']}) :: {tn}" if td.get("extends") else f"  type :: {tn}")
        for s in td["scalars"]:
            L.append(f"    integer :: {s}")
        for a in td["arrays"]:
            L.append(f"    real :: {a}(10)")
        if tn == "t1":
            L.append("    real, allocatable :: pvals(:)")
        for o, ot in td["objs"].items():
            L.append(f"    type({ot}) :: {o}")
        for o, ot in td["objarrs"].items():
            L.append(f"    type({ot}) :: {o}(4)")
        if td["bound"]:
            L.append("  contains")
            for b in td["bound"]:
                L.append(f"    procedure :: {b} => {tn}_{b}")
        L.append(f"  end type {tn}")
    for g, (_, procs) in u.generics.items():
        L += [f"  interface {g}", "    module procedure " + ", ".join(procs), f"  end interface {g}"]
    L.append("contains")
    for tn, td in u.types.items():
        for b, kind in td["bound"].items():
            if kind == "sub":
                L += [f"  subroutine {tn}_{b}(self, k)", f"    class({tn}) :: self", "    integer, optional :: k",
                      f"  end subroutine {tn}_{b}"]
            else:
                L += [f"  function {tn}_{b}(self, k, k2) result(r)", f"    class({tn}) :: self",
                      "    integer, optional :: k, k2", "    real :: r", "    r = 0.0", f"  end function {tn}_{b}"]
    if not getattr(u, "mk_after", False):
        L += MK_T1
    for f in u.module_funcs:
        L += [f"  function {f}(p1, p2, p3) result(r)", "    real, optional :: p1, p2, p3", "    real :: r", "    r = 1.0",
              f"  end function {f}"]
    for s in u.module_subs:
        L += [f"  subroutine {s}(p1, p2, p3)", "    real, optional :: p1, p2, p3", f"  end subroutine {s}"]
    return L


def unit_text(cu, per: dict, fixed: bool = False) -> list[str]:
    """physical lines of one unit (with its internal procedures)"""
    t = [cu.spec.head] + [d if fixed else "  " + d for d in cu.spec.lines()] + per[cu.name]["phys"]
    if cu.internals:
        t.append(per[cu.name].get("contains", "contains"))
        for iu in cu.internals:
            t += [l if fixed else "  " + l for l in unit_text(iu, per, fixed)]
    t.append(f"end {cu.unit_kind} {cu.name}")
    return t


def build_file(u: Universe, per: dict, fixed: bool = False) -> list[str]:
    """physical lines of the generated file (`fixed`: the lines of the executable parts are cards
    already, all other lines are statements still to be laid out in columns)"""
    mod = module_text(u)
    unit = unit_text(u, per, fixed)
    if u.ctx in ("program", "external"):
        return mod + ["end module m_types", ""] + unit
    if u.ctx == "other-module":
        top = ["module m_unit"] + ([] if u.spec.use_in_unit else ["  use m_types"]) + ["  implicit none", "contains"]
        return mod + ["end module m_types", ""] + top + unit + ["end module m_unit"]
    return mod + unit + (MK_T1 if getattr(u, "mk_after", False) else []) + ["end module m_types"]


def host_names(cu, host_vars=None):
    """lower-case names the surroundings contribute to a unit's scope: (procedures, types,
    variables).  For the unit under test: the module it lives in / USEs, and its own internal
    procedures; for an internal procedure additionally the host's variables, dummy arguments and
    result variable (`host_vars`: the host's `variables` as the model computed them)."""
    u = cu.host if cu.ctx == "internal" else cu
    types = list(TYPES)
    procs = list(u.module_funcs) + list(u.module_subs) + [f"{t}_{b}" for t, td in u.types.items() for b in td["bound"]] + ["mk_t1"]
    if u.ctx in ("same-module", "other-module"):
        procs.append(UNIT_NAME)      # a sibling of itself in its module; a program / external procedure has no host
    procs += list(u.internal_names) + list(u.spec.iface_ext) + list(u.generics)
    hv = [u.garr]
    if cu.ctx == "internal":
        hv += list(host_vars or []) + [a.lower() for a in u.spec.args] + ([u.spec.ret.lower()] if u.spec.ret else [])
    return procs, types, hv


# --------------------------------------------------------------------------
# what the chain model (CallsChain.lean) is told about the generated file (round 6)
# --------------------------------------------------------------------------


def world_fields(u) -> tuple[str, list[str]]:
    """(procedures visible from the scope of the derived types `name:result type;...`,
    one field per derived type `name|binding:declaring type;...|component:type;...|parent;...`)
    - from the GENERATED declarations, inherited members included"""
    u = u.host if u.ctx == "internal" else u
    types = u.types
    tds = []
    for tn in types:
        ps = type_parents(types, tn)
        bound = [(b, tn) for b in types[tn]["bound"]]
        for p_ in ps:
            bound += [(b, p_) for b in types[p_]["bound"] if b not in [x[0] for x in bound]]
        comps = []
        for t_ in [tn] + ps:
            td = types[t_]
            own = ([(c, "integer") for c in td["scalars"]] + [(c, "real") for c in td["arrays"]]
                   + ([("pvals", "real")] if t_ == "t1" else []) + list(td["objs"].items()) + list(td["objarrs"].items()))
            comps += [c for c in own if c[0] not in [x[0] for x in comps]]
        tds.append(f"{tn}|" + ";".join(f"{b}:{o}" for b, o in bound) + "|" + ";".join(f"{c}:{t_}" for c, t_ in comps)
                   + "|" + ";".join(ps))
    procs = ([(f, "real") for f in u.module_funcs] + [(s_, "") for s_ in u.module_subs]
             + [(f"{t}_{b}", "real" if k == "fun" else "") for t, td in types.items() for b, k in td["bound"].items()]
             + [("mk_t1", "t1")] + [(g, "") for g in u.generics])
    if u.ctx in ("same-module",):
        procs.append((UNIT_NAME, "real" if u.unit_kind == "function" else ""))
    return ";".join(f"{n}:{t_}" for n, t_ in procs), tds


def var_types(cu) -> str:
    """`name:type name;...` for every entity the generated specification part (and, for an internal
    procedure, the host's) declares with a derived type"""
    out = {}
    specs = ([cu.host.spec] if cu.ctx == "internal" else []) + [cu.spec]
    for sp_ in specs:
        for st in sp_.stmts:
            if st[0] != "T":
                continue
            m = re.match(r"(?:type|class)\s*\(\s*(\w+)\s*\)\s*$", st[1].strip(), re.I)
            for n, _ in st[4]:
                if m:
                    out[n.lower()] = m.group(1).lower()
                else:
                    out.pop(n.lower(), None)
    return ";".join(f"{n}:{t_}" for n, t_ in out.items())


def probe_chains(rng: random.Random, cu, n: int) -> list[list[str]]:
    """random label chains over the names of the universe (sensible designators and nonsense):
    `_find_chain_item` is total, the model must agree with it on every chain"""
    u = cu.host if cu.ctx == "internal" else cu
    roots = ["a", "b", "c", "oa", "ob", "x", "i", "garr", "t0", "t1", "t2", "mk_t1", "zz", UNIT_NAME] + list(cu.arrs) + list(cu.funcs) + list(cu.subs) + list(cu.extf)
    inner = ["val", "q", "cnt", "vals", "inner", "cells", "w", "pvals", "t0", "t1", "zz", "mk_t1", "t1_get"] + list(u.module_funcs[:2])
    for td in u.types.values():
        inner += list(td["bound"])
    out = []
    objs = {"a": "t1", "b": "t2", "c": "t1", "oa": "t1", "ob": "t2", "mk_t1": "t1", "t1": "t1", "t2": "t2"}
    for _ in range(n):
        if rng.random() < 0.5:
            # a walk along the declared types: object, object-valued components (parent component
            # included), then a component / binding / nonsense label
            o = rng.choice(list(objs))
            t = objs[o]
            ch = [o]
            for _ in range(rng.choice([0, 0, 1, 1, 2])):
                nxt = dict(u.types[t]["objs"]); nxt.update(u.types[t]["objarrs"])
                for p_ in type_parents(u.types, t):
                    nxt[p_] = p_
                if not nxt:
                    break
                c_ = rng.choice(sorted(nxt))
                ch.append(c_)
                t = nxt[c_]
            last = (type_members(u.types, t, "scalars") + type_members(u.types, t, "arrays")
                    + [b_ for b_, _ in type_bindings(u.types, t, "sub") + type_bindings(u.types, t, "fun")] + ["zz", "fa"])
            ch.append(rng.choice(last))
            out.append([c.lower() for c in ch])
            continue
        ln = rng.choice([1, 2, 2, 3, 3, 4])
        ch = [rng.choice(roots[:12] if rng.random() < 0.7 else roots)]
        for _ in range(ln - 1):
            ch.append(rng.choice(inner))
        out.append([c.lower() for c in ch])
    return out


# --------------------------------------------------------------------------
# running the real code
# --------------------------------------------------------------------------


class Impl:
    def __init__(self):
        self.ford = common.import_ford()
        import ford.fortran_project as fp
        import ford.sourceform as sf
        import ford.settings as st
        import ford.reader as rd
        self.fp, self.sf, self.st, self.rd = fp, sf, st, rd

    def reader_lines(self, path: Path, fixed: bool = False) -> list[str]:
        s = self.st.ProjectSettings()
        with common.quiet():
            return list(self.rd.FortranReader(str(path), s.docmark, s.predocmark, s.docmark_alt, s.predocmark_alt,
                                              fixed=fixed, length_limit=s.fixed_length_limit))

    def item_str(self, it) -> str:
        """what `_find_chain_item` returned, in the notation of the chain model"""
        sf = self.sf
        if it is None:
            return "-"
        if isinstance(it, sf.FortranVariable):
            return "v:" + it.name.lower()
        if isinstance(it, sf.FortranType):
            return "t:" + it.name.lower()
        if isinstance(it, sf.FortranBoundProcedure):
            return "b:" + str(getattr(it.parent, "name", "?")).lower() + ":" + it.name.lower()
        return "p:" + str(getattr(it, "name", "?")).lower()

    def run(self, srcdir: Path, probes: dict | None = None):
        """per unit (the unit under test and its internal procedures): (pre-correlate chains,
        post-correlate identities, scope, what `_find_chain_item` returns for the probe chains),
        or an error string"""
        self.sf.namelist = self.sf.NameSelector()
        settings = self.st.ProjectSettings(src_dir=[srcdir], preprocess=False, dbg=False)
        try:
            with common.quiet():
                proj = self.fp.Project(settings)
            unit = self.find_unit(proj)
            if unit is None:
                return ("err", "unit under test not found after parsing")
            units = [unit] + list(getattr(unit, "subroutines", [])) + list(getattr(unit, "functions", []))
            pre, scope = {}, {}
            for un in units:
                nm = un.name.lower()
                pre[nm] = [[str(x) for x in ch] for ch in un.calls]
                scope[nm] = {"variables": [str(v.name).lower() for v in un.variables],
                             "args": [str(getattr(a, "name", a)).lower() for a in getattr(un, "args", [])],
                             "retvar": (str(getattr(un.retvar, "name", un.retvar)).lower()
                                        if getattr(un, "retvar", None) is not None else None)}
            # the probe chains are resolved by the real `_find_chain_item` at the moment the calls loop of
            # `correlate` uses it (later the variables' types are rewritten into links): hooked on the
            # first call per unit; a unit without recorded chains is not probed
            found = {}
            orig = self.sf.FortranCodeUnit._find_chain_item
            wanted = {id(un): un.name.lower() for un in units}

            def hooked(this, chain, orig=orig, found=found, wanted=wanted):
                nm = wanted.get(id(this))
                if nm is not None and nm not in found:
                    found[nm] = None
                    out = []
                    for ch in (probes or {}).get(nm, []):
                        try:
                            out.append(self.item_str(orig(this, list(ch))))
                        except AttributeError:
                            # a function that is not correlated yet has no `all_types`: a chain that goes
                            # THROUGH a function (`f()%x`, no Fortran designator) is outside the compared domain
                            out.append("!")
                    found[nm] = out
                return orig(this, chain)

            self.sf.FortranCodeUnit._find_chain_item = hooked
            try:
                with common.quiet():
                    proj.correlate()
            finally:
                self.sf.FortranCodeUnit._find_chain_item = orig
            return ("ok", {un.name.lower(): (pre[un.name.lower()], [self.ident(c) for c in un.calls], scope[un.name.lower()],
                                             found.get(un.name.lower()))
                           for un in units})
        except Exception as e:  # noqa
            return ("err", f"{type(e).__name__}: {e}")

    @staticmethod
    def find_unit(proj):
        for p in proj.programs:
            if p.name.lower() == UNIT_NAME:
                return p
        for m in proj.modules:
            for p in list(m.subroutines) + list(m.functions):
                if p.name.lower() == UNIT_NAME:
                    return p
        for p in proj.procedures:
            if p.name.lower() == UNIT_NAME:
                return p
        return None

    def ident(self, c):
        sf = self.sf
        if isinstance(c, str):
            return ("name", c.lower())
        if isinstance(c, sf.FortranBoundProcedure):
            return ("bound", str(getattr(c.parent, "name", "?")).lower(), c.name.lower())
        if isinstance(c, (sf.FortranSubroutine, sf.FortranFunction)):
            return ("proc", c.name.lower())
        if isinstance(c, sf.FortranInterface) and not c.generic and not c.abstract:
            return ("iface", c.name.lower())
        if isinstance(c, sf.FortranInterface) and c.generic:
            return ("generic", c.name.lower())
        return ("other:" + type(c).__name__, str(getattr(c, "name", "?")).lower())


# --------------------------------------------------------------------------
# micro stream
# --------------------------------------------------------------------------

MICRO_ALPHA = ["a", "b1", "_", " ", "(", ")", "()", "%", " % ", "call ", "if", "if (", ",", "=", "f(", "x)", "\t",
               "CALL", "If ", "=>", "'", '"', "''", "+", "1", ":", "go to (", "goto(", "1,2", "end", " block",
               "associate (", "format (", "10 ", "integer", "type", " is", "::", "real", "use ", "data", "intent(in)",
               "class", " default", "double  precision", "dimension", "/", "bind(c)", "function", " ::", "lbl:", "common", " /"]
STARTERS = {
    "subcall": ["call ", "CALL  ", "if (a) call ", "if(x)call ", "if (f()) call ", "call a%", "call a % b()%", "If (a) (b) call "],
    "callre": ["a%b(", "a () % c(", "f (", "x%y%z(", "a%b()%c", " q % r (", "a%()"],
    "FORMAT_RE": ["10 format (", "100  FORMAT (", "10 format(", "format (", "10 format ()", "1\tformat\t(a)",
                  " 10 format (a)", "10format (a)", "x 10 format (a)", "10 format  (a) x", "1 0 format (a)"],
    "ARITH_GOTO_RE": ["go to (", "goto (1,2", "GO  TO (10, 20)", "x goto(1)", "goto ( 1 , 2 ) ", "go to ()",
                      "if (a) go to (10, 20), i", "10 go to (1) i", "10 if (x) goto(1,2)", "if(a)GoTo (1 ,2)", " goto (1)",
                      "go to (1, a)", "go to (10", "got o (1)", "10  go to(1),", "x = 1; go to (3)"],
    "BLOCK_RE": ["block", "lbl: block", "lbl : BLOCK ", "block data", " block", "a b: block", ": block"],
    "ASSOCIATE_RE": ["associate (", "lbl: associate(", "ASSOCIATE (", "associate ()", "associate (a => b) ", "1: associate ("],
    "END_RE": ["end", "end ", "END block", "end block data", "endassociate", "end associate x", "end subroutine",
               "end function f", "end if", "endtype", "end module", "end block\tdata", "endblock data x", "end submodule s",
               "end procedure", "end interface", "end enum", "end program p"],
    "VARIABLE_RE": ["integer", "real", "double precision", "doubleprecision", "type", "type is", "class default", "class is",
                    "class(", "character", "logical", "complex", "procedure", "enumerator", "double complex", "type  isx",
                    "class  defaults", "TYPE(", "Real*"],
    "ATTRIB_RE": ["asynchronous", "allocatable", "data", "dimension", "external", "optional", "parameter", "pointer",
                  "private", "protected", "public", "save", "target", "value", "volatile", "intent(in)", "intent ( in )",
                  "intent(in out)", "bind(c)", "bind (c, name=(x))", "BIND(C) ::", "intent()", "data(", "save::", "save ::",
                  "parameter(", "PARAMETER(n = 3)", "Parameter (", "parameter", "parameterx(", "parameter::", "pointer(",
                  "parameter/", "parameter ("],
    "USE_RE": ["use m", "use :: m", "use, intrinsic :: iso", "use,non_intrinsic::m", "use m, only: x", "use  m ,", "usem",
               "use ::", "use, intrinsic m", "use , non_intrinsic :: m", "use m x", "USE M"],
    "COMMON_RE": ["common /blk/ a", "common a", "COMMON /b/ x(10), y", "common/blk/a(3)", "common / blk / a", "common //  a",
                  "common", "common ", "common /blk/", "common /blk/ (", "commonx", "common x(10)", "common\t/b/\tq", "common / / a",
                  "common /b c/ a", "Common  zz", "common /b/ /c/ d", " common a"],
}
QS_ALPHA = ["'", '"', "'", '"', "''", '""', ";", ";", " ; ", ";;", "a", " ", "x = 1", "call f(1)", "it", "s", "(", ")", "!", "&",
            "print *, ", "'a;b'", '"c;d"', "\"it's\"", "'say \"no\"'", ","]
TAILS = ["", " ", "x", " x", "(", " (", "::", " :: ", ",", "*", "/", "=", ")", " y)", "1", "_", ":"]
RX_NAMES = ["FORMAT_RE", "ARITH_GOTO_RE", "BLOCK_RE", "ASSOCIATE_RE", "END_RE", "VARIABLE_RE", "ATTRIB_RE", "USE_RE", "COMMON_RE"]


def real_mask(sf, line: str) -> str:
    """The masking loop at the top of FortranContainer.__init__ (copied: it is inline there),
    driven by the real QUOTES_RE."""
    Q = sf.QUOTES_RE
    strings = []
    search_from = 0
    while quote := Q.search(line[search_from:]):
        strings.append(quote.group())
        line = line[0:search_from] + Q.sub(f'"{len(strings) - 1}"', line[search_from:], count=1)
        search_from += Q.search(line[search_from:]).end(0)
    return line


def micro_stream(impl: Impl, drv: Driver, rng, n, rep: Report, qs_len: int = 6):
    sf = impl.sf
    import ford.utils as U
    FC = sf.FortranContainer
    var_re = re.compile(FC.VARIABLE_STRING.format(""), re.IGNORECASE)
    rx = {"FORMAT_RE": FC.FORMAT_RE, "ARITH_GOTO_RE": FC.ARITH_GOTO_RE, "BLOCK_RE": FC.BLOCK_RE,
          "ASSOCIATE_RE": FC.ASSOCIATE_RE, "END_RE": FC.END_RE, "VARIABLE_RE": var_re, "ATTRIB_RE": FC.ATTRIB_RE,
          "USE_RE": FC.USE_RE, "COMMON_RE": FC.COMMON_RE}
    reqs, exp = [], []
    for k in range(n):
        s = "".join(rng.choice(MICRO_ALPHA) for _ in range(rng.randint(0, 9)))
        which = k % 7
        rxname = rng.choice(RX_NAMES)
        st = {1: "callre", 2: "subcall", 5: rxname}.get(which)
        if st and rng.random() < 0.7:
            s = rng.choice(STARTERS[st]).replace("\\t", "\t") + rng.choice(TAILS) + (s if rng.random() < 0.5 else rng.choice(TAILS))
        if which == 0:
            d = rng.randint(0, 3)
            reqs.append(["c08.strip", str(d), s]); exp.append(["ok"] + U.strip_paren(s, d))
        elif which == 1:
            reqs.append(["c08.callre", s]); exp.append(["ok"] + [m["call_chain"] for m in FC.CALL_RE.finditer(s)])
        elif which == 2:
            m = FC.SUBCALL_RE.search(s)
            reqs.append(["c08.subcall", s]); exp.append(["ok", m["call_chain"]] if m else ["none"])
        elif which == 3:
            reqs.append(["c08.chain", s]); exp.append(["ok"] + sf.CALL_AND_WHITESPACE_RE.sub("", s).lower().split("%"))
        elif which == 4:
            reqs.append(["c08.mask", s]); exp.append(["ok", real_mask(sf, s)])
        elif which == 6:
            # statement separation: `quote_split(";", logical line)` as the reader calls it
            s = "".join(rng.choice(QS_ALPHA) for _ in range(rng.randint(0, 10)))
            reqs.append(["c08.qsplit", s]); exp.append(["ok"] + U.quote_split(";", s))
        else:
            name = rxname
            s2 = s.strip()
            reqs.append(["c08.rx", name, s2])
            if name == "ARITH_GOTO_RE":
                exp.append(["ok", "1" if rx[name].search(s2) else "0"])
            else:
                m = rx[name].match(s2)
                if not m:
                    exp.append(["ok", "0"])
                elif name == "ASSOCIATE_RE":
                    exp.append(["ok", "1", m["associations"]])
                elif name == "END_RE":
                    exp.append(["ok", "1", (m.group(1) or "-").lower() if m.group(1) else "-"])
                else:
                    exp.append(["ok", "1"])
    # statement separation, exhaustively: every word over {', ", ;, a} up to a fixed length (the
    # mechanism is a two-flag scanner with one character of look-ahead, so every combination of
    # state, character and look-ahead occurs in words of length <= 4 already)
    import itertools
    for ln in range(0, qs_len + 1):
        for w in itertools.product("'\";a", repeat=ln):
            w = "".join(w)
            reqs.append(["c08.qsplit", w]); exp.append(["ok"] + U.quote_split(";", w))
    got = drv.batch(reqs)
    bad = 0
    hist = {}
    reported = {}
    for r, e, g in zip(reqs, exp, got):
        key = r[0] + ("/" + r[1] if r[0] == "c08.rx" else "")
        h = hist.setdefault(key, [0, 0])
        h[0] += 1
        if r[0] == "c08.qsplit":
            # non-trivial: a `;` inside a literal that also holds the other quote character, or
            # a `;` after such a literal
            if len(e) > 2 and ("'" in r[1] and '"' in r[1]):
                h[1] += 1
        elif len(e) > 1 and e[1:] not in (["0"], []):
            h[1] += 1
        # END_RE group: `block\sdata` may contain any white-space character; compare squeezed
        if r[0] == "c08.rx" and r[1] == "END_RE" and len(e) == 3 and len(g) == 3:
            e = [e[0], e[1], re.sub(r"\s", " ", e[2])]
        if e != g:
            bad += 1
            reported[key] = reported.get(key, 0) + 1
            if reported[key] <= 10:     # at most ten reports per stream; all are counted
                rep.tie_broken(f"correspondence micro/{key}: model {g} vs implementation {e} on {r[1:]!r}",
                               {"stream": "micro", "request": r, "impl": e, "model": g})
    return len(reqs), bad, {k: {"cases": v[0], "non_trivial": v[1]} for k, v in sorted(hist.items())}


# --------------------------------------------------------------------------
# one unit case
# --------------------------------------------------------------------------


def make_case(seed_tuple):
    """(rng, universe, statement-kind histogram, bodies): one executable part per unit - the unit
    under test first, then its internal procedures"""
    rng = random.Random(str(seed_tuple))
    u = Universe(rng)
    kinds = {}
    bodies = []
    for cu in u.units():
        g = Gen(rng, cu)
        g.kinds = kinds
        n = rng.choice([2, 3, 4, 5, 6, 8]) if cu is u else rng.choice([1, 2, 3, 4])
        bodies.append([g.stmt(0) for _ in range(n)])
    # round 6: the selector of an ASSOCIATE may be a function reference that returns an object
    # (`associate (p => mk_t1(2))` ... `p%get()`): the chain through the associate name then STARTS
    # at a function.  Where the module function stands relative to the unit is free in Fortran.
    # (decided by an RNG of its own, so that all other cases stay as they were)
    r2 = random.Random(str((seed_tuple, "selector-function")))
    u.mk_after = u.ctx == "same-module" and r2.random() < 0.5
    u.fun_selectors = 0

    def selector_pass(b):
        out = []
        for s_ in b:
            if s_[0] == "associate":
                items = []
                for nm, ex in s_[1]:
                    if ex[0] == "var" and OBJS.get(ex[1]) == "t1" and r2.random() < 0.2:
                        ex = ("fun", "mk_t1", [("num", r2.choice(["1", "2"]))])
                        u.fun_selectors += 1
                        kinds["associate-selector-function-reference"] = kinds.get("associate-selector-function-reference", 0) + 1
                    items.append((nm, ex))
                s_ = (s_[0], items, selector_pass(s_[2])) + tuple(s_[3:])
            else:
                for key, inner in sub_bodies(s_):
                    s_ = replace_body(s_, key, selector_pass(inner))
            out.append(s_)
        return out

    bodies = [selector_pass(b) for b in bodies]
    return rng, u, kinds, bodies


def render_case_fixed(u: Universe, bodies, layout_seed):
    """the case as a fixed-form file, or None when some line cannot be laid out in columns 7-72"""
    rr = random.Random(str((layout_seed, "fixed")))
    per = {}
    feat = {"fixed-form"}
    counter = [0]
    for cu, body in zip(u.units(), bodies):
        out = []
        Render(rr).stmts(body, out)
        logical = []
        phys = fixed_layout(rr, out, feat, logical, counter)
        if phys is None:
            return None
        per[cu.name] = {"stmts": out, "phys": phys, "logical": logical}
    if u.internals:
        per[u.name]["contains"] = rr.choice(["contains", "contains", "CONTAINS", "Contains"])
        feat.add("internal-procedures")
    lines = []
    for l in build_file(u, per, fixed=True):
        if isinstance(l, Card):
            lines.append(str(l))
        elif not l.strip():
            lines.append(l)
        else:
            # every other line of the file: cut only where the joined text is exactly the line
            r_ = fixed_cards(rr, l.strip(), feat, counter, exact=True, p_cut=0.08)
            if r_ is None:
                return None
            lines += [str(c) for c in r_[0]]
    return per, lines, feat


def render_case(u: Universe, bodies, layout_seed, form=None):
    rr = random.Random(str(layout_seed))
    if form != "free" and random.Random(str((layout_seed, "form"))).random() < FIXED_SHARE:
        fx = render_case_fixed(u, bodies, layout_seed)
        if fx is not None:
            return fx
    per = {}
    feat = set()
    for cu, body in zip(u.units(), bodies):
        out = []
        Render(rr).stmts(body, out)
        logical = []
        phys = layout(rr, out, feat, logical)
        per[cu.name] = {"stmts": out, "phys": phys, "logical": logical}
    if u.internals:
        per[u.name]["contains"] = rr.choice(["contains", "contains", "CONTAINS", "Contains"])
        feat.add("internal-procedures")
    return per, build_file(u, per), feat


def unit_slices(cu, rl: list[str] | None, start_at: int = 0):
    """From the reader's statements of the file: the statements of unit `cu` itself - its
    specification part without the lines of nested interface blocks, its executable part, its END
    statement - and the executable part alone.  Returns (model lines, executable statements,
    index after the unit's first statement) or None."""
    if rl is None:
        return None
    head = cu.spec.head.lower()
    k0 = next((k for k in range(start_at, len(rl)) if rl[k].lower() == head), None)
    if k0 is None:
        return None
    mask = cu.spec.line_mask()
    spec = rl[k0 + 1:k0 + 1 + len(mask)]
    if len(spec) != len(mask):
        return None
    own = [l for l, m in zip(spec, mask) if m]
    end = f"end {cu.unit_kind} {cu.name}"
    ex = []
    for l in rl[k0 + 1 + len(mask):]:
        if l.lower() == end or (cu.internals and l.lower() == "contains"):
            return own + ex + [end], [x for x in ex if not x.startswith("!")], k0 + 1
        ex.append(l)
    return None


def evaluate(impl: Impl, u, bodies, layout_seed, d: Path):
    """Run the real code on one case; returns a dict with everything the comparison needs."""
    per, lines, feat = render_case(u, bodies, layout_seed)
    fixed = "fixed-form" in feat
    src = d / "src"
    src.mkdir(exist_ok=True)
    for old in list(src.glob("*.f90")) + list(src.glob("*.f")):
        old.unlink()
    path = src / ("c.f" if fixed else "c.f90")
    path.write_text("".join(l + "\n" for l in lines))
    prng = random.Random(str((layout_seed, "chains")))
    probes = {cu.name: probe_chains(prng, cu, 8) for cu in u.units()}
    res = impl.run(src, probes)
    try:
        rl = impl.reader_lines(path, fixed)
    except Exception as e:  # noqa
        rl = None
    units = []
    at = 0
    for cu, body in zip(u.units(), bodies):
        sl = unit_slices(cu, rl, at)
        if sl is not None:
            at = sl[2]
        r1 = res[1].get(cu.name) if res[0] == "ok" else None
        units.append({"cu": cu, "name": cu.name, "body": body, "stmts": per[cu.name]["stmts"],
                      "logical": per[cu.name]["logical"], "phys": per[cu.name]["phys"], "unit_lines": sl[0] if sl else None,
                      "exec_statements": sl[1] if sl else None, "impl": r1[:3] if r1 else None,
                      "probes": probes[cu.name], "found": r1[3] if r1 else None})
    return {"lines": lines, "feat": feat, "impl": res, "units": units, "fixed": fixed}


def oracle(u: Universe, body, post):
    """Property oracle on the real code's output. Returns None or (why, classes, unexplained)."""
    sp = Spec(u)
    sp.body(body)
    exp = expected_set(sp)
    obs = list(post)
    obs_set = set(obs)
    dup = sorted({o for o in obs if obs.count(o) > 1}, key=str)
    missing = exp - obs_set
    extra = obs_set - exp
    if not missing and not extra and not dup:
        return None, sp
    classes, unexplained = classify_diff(sp, missing, extra, dup)
    why = f"missing={sorted(missing, key=str)} extra={sorted(extra, key=str)} duplicates={dup}"
    return (why, classes, unexplained), sp


def shrink(impl, u, body, layout_seed, d, pred):
    """Greedy statement deletion (top level and inside construct bodies) while `pred` holds."""
    def variants(b):
        for k in range(len(b)):
            yield b[:k] + b[k + 1:]
        for k, s in enumerate(b):
            for inner in sub_bodies(s):
                for v in variants(inner[1]):
                    yield b[:k] + [replace_body(s, inner[0], v)] + b[k + 1:]
            if s[0] != "associate":
                for inner in sub_bodies(s):
                    # replace the construct by its body
                    yield b[:k] + list(inner[1]) + b[k + 1:]

    cur = body
    improved = True
    rounds = 0
    while improved and rounds < 40:
        improved = False
        rounds += 1
        for v in variants(cur):
            if not v:
                continue
            try:
                if pred(v):
                    cur = v
                    improved = True
                    break
            except Exception:
                continue
    return cur


def sub_bodies(s):
    t = s[0]
    if t == "ifblock":
        out = [(("arm", k), arm[1]) for k, arm in enumerate(s[1])]
        if s[2] is not None:
            out.append((("else",), s[2]))
        return out
    if t == "do":
        return [((5,), s[5])]
    if t in ("dowhile",):
        return [((2,), s[2])]
    if t == "doconc":
        return [((4,), s[4])]
    if t == "select":
        out = [(("case", k), c[1]) for k, c in enumerate(s[2])]
        if s[3] is not None:
            out.append(((3,), s[3]))
        return out
    if t in ("associate", "block"):
        return [((2,), s[2])]
    return []


def replace_body(s, key, new):
    s = list(s)
    if key[0] == "arm":
        arms = list(s[1]); arms[key[1]] = (arms[key[1]][0], new); s[1] = arms
    elif key[0] == "else":
        s[2] = new
    elif key[0] == "case":
        cs = list(s[2]); cs[key[1]] = (cs[key[1]][0], new); s[2] = cs
    else:
        s[key[0]] = new
    return tuple(s)


def run(tier: str, seed: int, replay: str | None = None) -> int:
    rep = Report(PROP, tier, seed)
    tinfo = {}

    def tr():
        tinfo.update(translator.translate(extra_candidates=pool_names()))

    lean = lean_prove(PROP, translate=tr, thorough=(tier == "thorough"))
    for b in lean.broken():
        rep.tie_broken("proof: " + b)
    impl = Impl()
    # which names are withheld: the pinned specification vs. what the real method does (probed).
    # A difference is a broken tie by itself (the two table theorems no longer check) and directs
    # the generator towards a concrete failing input.
    try:
        spec_names = translator.spec_names()
        impl_names = tinfo.get("never_recorded")
        if impl_names is None:
            impl_names = translator.get_intrinsics(pool_names())[0]
    except Exception as e:  # noqa
        rep.tie_broken(f"deny-list: could not be derived: {type(e).__name__}: {e}")
        spec_names, impl_names = translator.spec_names(), translator.spec_names()
    Names.setup(spec_names, impl_names)
    if Names.added or Names.impl != Names.spec:
        rep.tie_broken(f"table: the names _add_procedure_calls never records differ from the specification "
                       f"(Spec/CallsNames.lean): added {Names.added}, no longer withheld {sorted(Names.spec - Names.impl)}",
                       {"stream": "table", "added": Names.added, "dropped": sorted(Names.spec - Names.impl)})
    drv = Driver()
    # which variant of the fixed-form converter is under test (the three edits of C14's repair): probed
    try:
        from ford.fixed2free2 import FortranLine as FL
        fixed_variant = (("0" if FL("         \n").is_regular else "1")
                         + ("0" if FL("      ! x\n").is_regular else "1")
                         + ("1" if FL("      x = 1".ljust(72) + "SEQ\n").excess_line.startswith("! ") else "0"))
    except Exception as e:  # noqa
        rep.tie_broken(f"fixed-form: the real FortranLine raised on a probe line: {type(e).__name__}: {e}")
        fixed_variant = "111"
    rng = random.Random(seed * 7919 + 8)
    n_micro = 7000 if tier == "quick" else 70000
    n_unit = 1500 if tier == "quick" else 15000
    ev_micro, bad_micro, micro_hist = micro_stream(impl, drv, rng, n_micro, rep, 6 if tier == "quick" else 8)

    kinds_hist, feat_hist, gate_hist, spec_hist, chain_hist = {}, {}, {}, {}, {}
    distinct = set()
    samples = []
    n_bad_corr = 0
    n_oracle_fail = 0
    n_impl_err = 0
    results = []
    n_units_total = 0
    with common.scratch_dir() as d:
        for k in range(n_unit):
            _, u, kinds, bodies = make_case((seed, "unit", k))
            ev = evaluate(impl, u, bodies, (seed, "layout", k), d)
            ev.update(u=u, bodies=bodies, k=k, kinds=kinds)
            results.append(ev)
        # ---- model, batched: one request per unit (unit under test + its internal procedures)
        flat = [(ev, un) for ev in results for un in ev["units"]]
        n_units_total = len(flat)
        model = drv.batch([["c08.unit"] + (un["unit_lines"] or []) for _, un in flat])
        model_l = drv.batch([["c08.lines"] + un["logical"] for _, un in flat])
        model_p = drv.batch([(["c08.fixed", fixed_variant, "1"] + [c + "\n" for c in un["phys"]]) if ev["fixed"]
                             else ["c08.phys"] + un["phys"] for ev, un in flat])

        # the scope of the unit: the specification part as statements (attributes and names as
        # written) -> `unit.variables` after `_cleanup`, and the chains of length 1 `correlate`
        # keeps.  The hosts first: an internal procedure sees its host's variables.
        def scope_req(un, host_vars=None):
            cu = un["cu"]
            ps, ts, hv = host_names(cu, host_vars)
            sp_ = cu.spec
            pre = un["impl"][0] if un["impl"] else []
            fields = sp_.model_fields()
            return (["c08.scope", ",".join(sp_.args), sp_.ret or "-", "1" if sp_.ret_typed else "0",
                     ",".join(ps), ",".join(ts), ",".join(hv), str(len(fields))] + fields + ["%".join(c) for c in pre])

        def chain_req(un, host_vars, mode, chains):
            cu = un["cu"]
            base = scope_req(un, host_vars)
            nfields = int(base[7])
            tprocs, tds = world_fields(cu)
            return (["c08.chains"] + base[1:7] + [var_types(cu), "mk_t1:t1", tprocs, str(len(tds))] + tds
                    + base[7:8 + nfields] + [mode] + ["%".join(c) for c in chains])

        hosts = [(ev, un) for ev, un in flat if un["cu"].ctx != "internal"]
        host_resp = drv.batch([scope_req(un) for _, un in hosts])
        host_vars = {}
        for (ev, un), r_ in zip(hosts, host_resp):
            un["model2"] = r_
            host_vars[ev["k"]] = [x for x in r_[1].split(",") if x] if len(r_) > 1 and r_[0] == "ok" else []
        inners = [(ev, un) for ev, un in flat if un["cu"].ctx == "internal"]
        for (ev, un), r_ in zip(inners, drv.batch([scope_req(un, host_vars[ev["k"]]) for ev, un in inners])):
            un["model2"] = r_
        # chains of every length (round 6): `unit.calls` after correlate == `keptAll`; `_find_chain_item` on
        # random label chains == `chainItem`
        hv_of = lambda ev, un: host_vars[ev["k"]] if un["cu"].ctx == "internal" else None
        for (ev, un), rk, rf in zip(flat,
                                    drv.batch([chain_req(un, hv_of(ev, un), "K", un["impl"][0] if un["impl"] else []) for ev, un in flat]),
                                    drv.batch([chain_req(un, hv_of(ev, un), "F", un["probes"]) for ev, un in flat])):
            un["model_k"], un["model_f"] = rk, rf
        gate_reqs = []
        for ev in results[: 300 if tier == "quick" else 2000]:
            for un in ev["units"]:
                for l in (un["unit_lines"] or [])[:60]:
                    gate_reqs.append(["c08.gate", "0", real_mask(impl.sf, l)])
        for gname in drv.batch(gate_reqs):
            gate_hist[gname[1]] = gate_hist.get(gname[1], 0) + 1
        for (ev, un), mo, mol, mop in zip(flat, model, model_l, model_p):
            un["model"], un["model_l"], un["model_p"] = mo, mol, mop

        for ev in results:
            k, u = ev["k"], ev["u"]
            for kk, c in ev["kinds"].items():
                kinds_hist[kk] = kinds_hist.get(kk, 0) + c
            for f in ev["feat"]:
                feat_hist[f] = feat_hist.get(f, 0) + 1
            feat_hist["unit:" + u.unit_kind] = feat_hist.get("unit:" + u.unit_kind, 0) + 1
            feat_hist["context:" + u.ctx] = feat_hist.get("context:" + u.ctx, 0) + 1
            if u.shadow:
                feat_hist["local-array-hides-module-procedure"] = feat_hist.get("local-array-hides-module-procedure", 0) + 1
            if u.collide:
                feat_hist["colliding-names"] = feat_hist.get("colliding-names", 0) + 1
            for nm, kind_, where in u.deny_named:
                key = "user-procedure-named-as-" + ("specified-intrinsic" if nm in Names.spec else "name-outside-specification")
                feat_hist[key + ":" + where] = feat_hist.get(key + ":" + where, 0) + 1
            if u.generics:
                feat_hist["generic-interfaces"] = feat_hist.get("generic-interfaces", 0) + 1
            for iu in u.internals:
                feat_hist["internal:" + iu.unit_kind] = feat_hist.get("internal:" + iu.unit_kind, 0) + 1
            case0 = {"stream": "unit", "case": k, "file": ev["lines"]}
            if ev["impl"][0] != "ok" or any(un["unit_lines"] is None or un["impl"] is None for un in ev["units"]):
                n_impl_err += 1
                why = ev["impl"][1] if ev["impl"][0] != "ok" else "a generated unit was not found in the parsed project / reader output"
                fid = None
                if (u.fun_selectors and ev["impl"][0] != "ok"
                        and str(why) == "AttributeError: 'FortranFunction' object has no attribute 'all_types'"):
                    # class: a chain recorded in the unit starts (after ASSOCIATE substitution) at a function
                    fid = "C08-chain-through-uncorrelated-function-raises"
                else:
                    rep.tie_broken(f"unit case {k}: the implementation could not process a generated legal unit: {why}",
                                   dict(case0, impl=str(why)))
                rep.failing_input(dict(case0, why="FORD raised on / lost a legal generated unit: " + str(why)), fid)
                continue
            for ui, un in enumerate(ev["units"]):
                cu, body = un["cu"], un["body"]
                mo, mo2, mol = un["model"], un["model2"], un["model_l"]
                pre, post, scope = un["impl"]
                case = dict(case0, unit=un["name"], unit_statements=un["unit_lines"])
                pre_s = ["%".join(c) for c in pre]
                for f in cu.spec.forms:
                    spec_hist[f] = spec_hist.get(f, 0) + 1
                if pre_s:
                    distinct.add(common.digest(un["unit_lines"]))
                # (a) correspondence before correlate
                if mo[0] != "ok" or mo[1:] != pre_s:
                    n_bad_corr += 1
                    rep.tie_broken(f"correspondence unit/pre-correlate: model and implementation differ on case {k} ({un['name']})",
                                   dict(case, impl=pre_s, model=mo))
                # (a0) statement separation: the statements the real reader delivers for the executable
                #      part == the model's `unitStatements` of the logical lines (`;` outside literals)
                if un["exec_statements"] is None or mol[0] != "ok" or mol[1:] != un["exec_statements"]:
                    n_bad_corr += 1
                    rep.tie_broken(f"correspondence unit/statement-separation: model and reader differ on case {k} ({un['name']})",
                                   dict(case, logical_lines=un["logical"], reader=un["exec_statements"], model=mol))
                # (a0') continuation: the statements the real reader delivers for the executable part ==
                #       the Lean reader model (`readAll`, doc items dropped) on its PHYSICAL lines
                mop = un["model_p"]
                if un["exec_statements"] is None or mop[0] != "ok" or mop[1:] != un["exec_statements"]:
                    n_bad_corr += 1
                    rep.tie_broken(f"correspondence unit/{'fixed-form-cards' if ev['fixed'] else 'continuation'}: "
                                   f"{'converter + ' if ev['fixed'] else ''}reader model and reader differ on case {k} ({un['name']})",
                                   dict(case, physical_lines=[str(c) for c in un["phys"]], reader=un["exec_statements"], model=mop))
                # (a') after correlate, chains of length 1
                post_names = [p[-1] for p in post]
                kept1 = [c[0] for c in pre if len(c) == 1 and c[0] in post_names]
                if mo2[0] != "ok" or mo2[2:] != kept1:
                    n_bad_corr += 1
                    rep.tie_broken(f"correspondence unit/post-correlate: model and implementation differ on case {k} ({un['name']})",
                                   dict(case, impl=kept1, model=mo2, pre=pre_s))
                # (a3) chains of every length: `unit.calls` after correlate == the chain model's `keptAll`
                want = [("n:" + p[1]) if p[0] == "name" else ("b:" + p[1] + ":" + p[2]) if p[0] == "bound" else ("p:" + p[-1])
                        for p in post]
                mk = un["model_k"]
                got = [(":".join(x.split(":")[:2]) if x.startswith("p:") else x) for x in mk[1:]]
                if mk[0] != "ok" or got != want:
                    n_bad_corr += 1
                    rep.tie_broken(f"correspondence unit/chain-resolution: chain model and implementation differ on case {k} ({un['name']})",
                                   dict(case, impl=want, model=mk, pre=pre_s))
                for x in mk[1:]:
                    chain_hist["kept:" + x[:1]] = chain_hist.get("kept:" + x[:1], 0) + 1
                chain_hist["chains-longer-than-1"] = chain_hist.get("chains-longer-than-1", 0) + sum(1 for c in pre if len(c) > 1)
                chain_hist["chains-longer-than-2"] = chain_hist.get("chains-longer-than-2", 0) + sum(1 for c in pre if len(c) > 2)
                # (a4) `_find_chain_item` on random label chains == `chainItem`
                mf = un["model_f"]
                gotf = [":".join(x.split(":")[:2]) if x[:2] in ("v:", "p:") else x for x in mf[1:]]
                if un["found"] is not None and (mf[0] != "ok" or len(gotf) != len(un["found"])
                                                or any(a_ != b_ for a_, b_ in zip(gotf, un["found"]) if b_ != "!")):
                    n_bad_corr += 1
                    rep.tie_broken(f"correspondence unit/find-chain-item: chain model and implementation differ on case {k} ({un['name']})",
                                   dict(case, chains=["%".join(c) for c in un["probes"]], impl=un["found"], model=mf))
                chain_hist["probes"] = chain_hist.get("probes", 0) + len(un["found"] or [])
                for x, ch in zip(un["found"] or [], un["probes"]):
                    key = f"probe:len{len(ch)}:" + x[:1]
                    chain_hist[key] = chain_hist.get(key, 0) + 1
                # (a'') the scope: `unit.variables` after `_cleanup` == the model's `scopeVarNames` of the
                #       generated specification part; dummy arguments and result variable as generated
                m_vars = [x for x in mo2[1].split(",") if x] if len(mo2) > 1 else None
                want_args = [a.lower() for a in cu.spec.args]
                want_ret = cu.spec.ret.lower() if cu.spec.ret else None
                if mo2[0] != "ok" or m_vars != scope["variables"] or scope["args"] != want_args or scope["retvar"] != want_ret:
                    n_bad_corr += 1
                    rep.tie_broken(f"correspondence unit/scope-variables: model and implementation differ on case {k} ({un['name']})",
                                   dict(case, impl=scope, model=mo2[:2], generated_args=want_args, generated_result=want_ret,
                                        specification_part=cu.spec.lines()))
                # (b) property oracle
                why, sp = oracle(cu, body, post)
                if len(samples) < 3 and len(pre) >= 3:
                    samples.append({"unit_statements": un["stmts"], "recorded": [list(p) for p in post]})
                if why is None:
                    continue
                n_oracle_fail += 1
                text, classes, unexplained = why
                full = dict(case, expected=sorted(expected_set(sp), key=str), observed=post, why=text,
                            classes=sorted(classes), unexplained=unexplained)
                if unexplained and len(rep.violations) >= 3:
                    rep.failing_input(full, None)
                elif unexplained:
                    # shrink the executable part of this unit towards a small unexplained failure
                    def with_body(b, ui=ui, ev=ev):
                        bs = list(ev["bodies"])
                        bs[ui] = b
                        return evaluate(impl, ev["u"], bs, (seed, "layout", ev["k"]), d)

                    def pred(b, ui=ui, cu=cu):
                        e2 = with_body(b)
                        if e2["impl"][0] != "ok" or e2["units"][ui]["impl"] is None:
                            return False
                        w2, _ = oracle(cu, b, e2["units"][ui]["impl"][1])
                        return w2 is not None and bool(w2[2])
                    small = shrink(impl, cu, body, (seed, "layout", k), d, pred)
                    e3 = with_body(small)
                    w3, sp3 = oracle(cu, small, e3["units"][ui]["impl"][1])
                    full["shrunk"] = {"file": e3["lines"], "unit": un["name"], "unit_statements": e3["units"][ui]["stmts"],
                                      "expected": sorted(expected_set(sp3), key=str), "observed": e3["units"][ui]["impl"][1],
                                      "why": w3[0] if w3 else None}
                    rep.failing_input(full, None)
                else:
                    for c in sorted(classes):
                        rep.failing_input(full, c)
    drv.close()
    rep.coverage.update(
        evaluations=ev_micro + n_units_total + chain_hist.get("probes", 0),
        distinct_nontrivial=len(distinct),
        rule="unit cases are (random universe of overlapping names x random specification part x random executable part "
             "x random legal layout) for a module procedure / main program and its internal procedures; "
             "non-trivial = the real parser recorded at least one call chain for the unit; distinct by digest of the "
             "statements the reader delivered",
        samples=samples,
        traces_validated_against_impl=ev_micro + 7 * n_units_total,
        correspondence_disagreements=n_bad_corr + bad_micro,
        oracle_failures=n_oracle_fail,
        implementation_errors=n_impl_err,
        statement_kind_histogram=dict(sorted(kinds_hist.items())),
        layout_feature_histogram=dict(sorted(feat_hist.items())),
        cascade_branch_histogram=dict(sorted(gate_hist.items())),
        specification_part_histogram=dict(sorted(spec_hist.items())),
        micro_histogram=micro_hist,
        chain_resolution_histogram=dict(sorted(chain_hist.items())),
        generated_tables={"intrinsics": tinfo.get("intrinsics"), "intrinsics_probe": tinfo.get("intrinsics_probe"),
                          "names_added_to_specification": Names.added,
                          "names_no_longer_withheld": sorted(Names.spec - Names.impl),
                          "cascade_branches": len(tinfo.get("cascade", [])),
                          "interpreted_guards": tinfo.get("guards"), "scope": tinfo.get("scope")},
    )
    rep.assumptions += [
        "identifiers of the generated units are not Fortran declaration keywords; units under test contain no "
        "derived-type definitions or generic / abstract interfaces; the statements of a unit are handed to the model "
        "without those of its nested containers (internal procedures after CONTAINS, interface bodies), which the "
        "generator delimits - a mis-nesting by the real parser shows as a difference of unit.calls",
        "dummy procedures (a dummy argument that is called) are not generated",
        "user procedures are named after intrinsic PROCEDURES of the specification (Spec/CallsNames.lean) and after "
        "every name the implementation withholds beyond it, not after statement keywords (`if`, `end`, `type`, ...); the "
        "deny-list is probed on a finite candidate set (entries of the string tables of ford.intrinsics / ford.sourceform, "
        "the specified names, the generator's identifiers)",
        "continuation cuts are placed outside character literals; a literal continued over several lines is C02's",
        "CPython re is on the implementation side only; the hand-written recognisers are its deterministic reading, "
        "validated on the micro stream; FORMAT_RE and ARITH_GOTO_RE are not read by hand: their re._parser parse "
        "trees are regenerated on every run and interpreted by the model (list-of-successes matcher, ASCII "
        "IGNORECASE), also validated on the micro stream",
        "chains of every length are compared before correlate() (scanner model), after it (chain model `keptAll`: "
        "`_find_chain_item` + the calls loop) and judged by the oracle; the chain model is told the derived types, their "
        "members (inherited ones included) and the declared type of every object from the GENERATED declarations; "
        "`strip_type` and the copying of inherited members at the type's own correlate are outside the model; probe "
        "chains that go THROUGH a function whose `all_types` does not exist yet (AttributeError in FORD, no Fortran "
        "designator) are not compared",
        "fixed-form cases: statements are cut into cards only where a blank is harmless (next to a blank or to one of "
        "`,()%`), never inside a name or a literal (C14's territory); no inline `!` comment inside columns 7-72; the "
        "length limit is on (default)",
    ]
    return rep.finish(lean)
