"""C12 - output is a deterministic function of the inputs.

Streams
  micro/sort    Python `sorted` on str and on real `ford.graphs.BaseNode` objects   vs  Lean `sortOn`
  micro/nodes   `sorted()` over real graph nodes / entities (made by the real constructors, identifiers from a
                real NameSelector) that carry equal labels, in every permutation: one result demanded (oracle),
                and the same result as Lean `emitNodesTree` / `sortEntitiesTree` (key read from the AST of `__lt__`)
  micro/number  the real `NameSelector` on random request sequences (stub entities of the
                real classes, so `get_dir()` is the real one)                        vs  Lean `number`
  micro/fs      rmtree/unlink/write sequences on a real scratch directory            vs  Lean `run`
  e2e           the property itself on the implementation: `python -m ford` in fresh
                subprocesses on generated multi-file projects x PYTHONHASHSEED x forced /
                natural file enumeration orders x parallel {0,2,8} x output dir {absent,
                stale junk (dir or plain file), left by a run of the same project};
                byte comparison of the output trees (property oracle), plus, from a trace
                written by a shim inside the subprocess (no source hook):
                  - the real get_name request sequence replayed through Lean `number`
                  - the real project lists / search-index order / src copies compared with
                    Lean `site` on the same abstract project and the same enumeration order
                  - the include file every `include '..'` line is resolved to (several include
                    directories holding equally named files)                        vs  Lean `resolveIncludeTree`
                  - the components / type-bound procedures every derived type shows after
                    `FortranType.correlate` (inheritance chains, overriding, private and generic
                    bindings)                                                      vs  Lean `chainBindings` / `chainComps`
                  - the sub-pages and copied files `get_page_tree` makes of every page directory, given the
                    listing it received (entries differing only in extension / case, ordered_subpage,
                    dot files, backups)                                            vs  Lean `pageFileListTree`
                The shim also arranges the result of every os.listdir / os.scandir below the project (sorted,
                reversed, shuffled, untouched) and shifts the clock of some runs by forty days.
"""
from __future__ import annotations

import concurrent.futures as cf
import itertools
import json
import os
import random
import shutil
import subprocess
import time
from pathlib import Path

from . import common, e2e
from .common import Driver, Report, lean_prove

PROP = "C12"

F_NUM = "C12-numbering-first-come"
F_USES = "C12-uses-set-order"
F_SEARCH = "C12-search-index-file-order"
F_SRC = "C12-src-copy-basename"
F_PAR = "C12-parallel-graph-dir-crash"
F_RACE = "C12-parallel-graph-file-race"
F_CASE = "C12-case-collision-hash-order"
F_TOPO = "C12-numbering-toposort-set-order"
F_INHBY = "C12-inheritedby-children-set-order"
F_GENCOPY = "C12-numbering-generic-copies-set-order"
F_CLIOUT = "C12-cli-output-dir-not-excluded"


# --------------------------------------------------------------------------
# project generator
# --------------------------------------------------------------------------

class Gen:
    """Abstract multi-file Fortran project.  `clean` projects use globally unique names
    (no (get_dir(), name) is shared), at most one USE per unit, unique basenames; the
    others draw from small pools so that the known order-dependent classes occur."""

    def __init__(self, rng: random.Random, clean: bool, nfiles: int, multi_use: bool | None = None,
                 case_variants: bool = False, includes: bool = False, preproc: bool = False):
        self.rng = rng
        # preprocessing is on; the configured extensions contain dotted suffixes of one another (`f90` / `pp.f90`),
        # some files carry the longer one, and program units have `#ifdef` blocks that declare different
        # variables with and without the preprocessor
        self.preproc = preproc
        self.case_variants = case_variants
        # include directories (configured order, deliberately not alphabetical) holding equally named files
        self.inc_dirs: list[str] = []
        self.inc_files: dict[str, dict[str, list]] = {}   # include name -> {directory: [(variable, value)]}
        self.own_inc: dict[tuple, list] = {}               # (directory of the source file, name) -> variant
        if includes:
            self.inc_dirs = [f"inc/d{i}" for i in range(rng.choice([3, 4, 4]))]
            rng.shuffle(self.inc_dirs)
        self.clean = clean
        self.multi = (not clean) if multi_use is None else multi_use
        self.nfiles = nfiles
        self.counter = 0
        self.files = []  # dicts: path, units[], top[]
        self.modnames = []
        self.procs = []  # (module or None, name)
        self.types = []  # (module, name)
        self.rename_callers = 0
        self.build()

    def fresh(self, prefix):
        self.counter += 1
        return f"{prefix}{self.counter}"

    def name(self, prefix, pool):
        if self.clean or self.rng.random() < 0.35:
            return self.fresh(prefix)
        if not self.case_variants:
            pool = [x for x in pool if x == x.lower()]
        return self.rng.choice(pool)

    def build(self):
        rng = self.rng
        dirs = ["", "", "sub/", "sub/deep/", "other/"]
        used_paths = set()
        for k in range(self.nfiles):
            while True:
                if not self.clean and rng.random() < 0.25 and self.files:
                    base = os.path.basename(rng.choice(self.files)["path"])
                else:
                    base = f"f{k}_{rng.choice('abcxyz')}." + rng.choice(
                        ["pp.f90", "pp.f90", "F90", "f90", "pp.F90", "q.f90"] if self.preproc else ["f90", "f90", "F90", "f95", "f03"])
                path = rng.choice(dirs) + base
                if path not in used_paths and (not self.clean or base not in {os.path.basename(p) for p in used_paths}):
                    used_paths.add(path)
                    break
            f = {"path": path, "units": [], "top": []}
            nunits = rng.choice([1, 1, 2])
            for _ in range(nunits):
                u = self.module()
                if self.preproc and rng.random() < 0.85:
                    u["pp"] = (self.fresh("ppon"), self.fresh("ppoff"))
                self.add_includes(path, u)
                self.add_unit(f, u)
            if self.modnames and rng.random() < 0.45:
                # several submodules of one module: they sit on one level of the dependency order
                parent = rng.choice(self.modnames)
                if self.modnames.count(parent) == 1:
                    for _ in range(rng.choice([2, 2, 3])):
                        self.add_unit(f, {"kind": "submodule", "parent": parent, "name": self.name("sm", ["sub_a", "sub_b"]),
                                          "uses": [], "vars": [], "types": [], "procs": [], "ifaces": [], "includes": []})
            if rng.random() < 0.4:
                f["top"].append(self.proc(None, toplevel=True))
            if rng.random() < 0.3:
                self.add_unit(f, self.program())
            self.files.append(f)

    def add_includes(self, path, u):
        """`include '<name>'` lines of a module; the file exists in several of the include directories (with
        different declarations in each), sometimes also next to the source file (that copy wins)"""
        rng = self.rng
        if not self.inc_dirs or rng.random() < 0.25:
            return
        for _ in range(rng.choice([1, 1, 2])):
            if self.inc_files and not self.clean and rng.random() < 0.3:
                name = rng.choice(sorted(self.inc_files))
            else:
                name = self.fresh("lim") + ".inc"
                k = rng.choice([1, 2, 2, 3, len(self.inc_dirs), len(self.inc_dirs)])
                holders = rng.sample(self.inc_dirs, min(k, len(self.inc_dirs)))
                same_names = (not self.clean) and rng.random() < 0.5
                common_vars = [self.varname() for _ in range(rng.choice([1, 2]))]
                self.inc_files[name] = {}
                for d in holders:
                    vs = common_vars if same_names else [self.fresh("iv") for _ in range(rng.choice([1, 2]))]
                    self.inc_files[name][d] = [(v, rng.randint(1, 99)) for v in dict.fromkeys(vs)]
            if name in u["includes"]:
                continue
            if rng.random() < 0.2:
                own = (os.path.dirname(path), name)
                self.own_inc.setdefault(own, [(self.fresh("iv"), rng.randint(100, 199))])
            u["includes"].append(name)

    def include_variant(self, path, name):
        """(directory label, declarations) the property-independent reading of `include` prescribes: the
        directory of the including file first, then the include directories in the order given"""
        own = (os.path.dirname(path), name)
        if own in self.own_inc:
            return "src/" + own[0] if own[0] else "src", self.own_inc[own]
        for d in self.inc_dirs:
            if d in self.inc_files[name]:
                return d, self.inc_files[name][d]
        raise AssertionError("include file without a holder")

    def add_unit(self, f, u):
        """two program units of the same name in one file are not a Fortran program"""
        if u["name"].lower() not in {x["name"].lower() for x in f["units"]}:
            f["units"].append(u)

    def uses(self, own=None):
        """modules a unit uses; never the module the unit is (or is in): `module mod_a; use mod_a` is not a
        Fortran program (FORD recurses for ever on it, the same way in every run)"""
        cands = list(self.modnames)
        if not cands:
            return []
        kmax = 3 if self.multi else 1
        k = self.rng.choice([0, 1, 1, kmax, kmax])
        k = min(k, len(cands))
        us = [u for u in self.rng.sample(cands, k) if own is None or u.lower() != own.lower()]
        if self.multi and self.rng.random() < 0.2:
            us.append("iso_c_binding")
        if self.multi and self.rng.random() < 0.15:
            us.append("not_in_project")
        return us

    def varname(self):
        return self.name("v", ["x", "n", "i", "tmp"])

    def module(self):
        rng = self.rng
        nm = self.name("m", ["mod_a", "mod_b"]) if (not self.clean and rng.random() < 0.08) else self.fresh("m")
        m = {"kind": "module", "name": nm, "uses": self.uses(own=nm), "vars": [], "types": [], "procs": [], "ifaces": [],
             "includes": []}
        for _ in range(rng.choice([0, 1, 2])):
            m["vars"].append(self.varname())

        def new_type(extends):
            comps = list(dict.fromkeys(self.varname() for _ in range(rng.choice([1, 2, 3]))))
            t = {"name": self.name("t", ["point", "node_t", "Point"]), "comps": comps,
                 "priv_comps": [c for c in comps if rng.random() < 0.15],
                 "extends": extends, "binds": [], "generics": []}
            if t["name"].lower() not in {x["name"].lower() for x in m["types"]}:
                m["types"].append(t)

        for _ in range(rng.choice([0, 0, 1, 2])):
            ext = None
            if self.types and rng.random() < 0.3:
                cand = [x for x in self.types if x[0] in m["uses"]]
                if cand:
                    ext = rng.choice(cand)[1]
            new_type(ext)
        if m["types"] and rng.random() < 0.6:
            # derived types of this module's types: siblings (several children of one type) and chains
            for _ in range(rng.choice([1, 2, 2, 3])):
                new_type(rng.choice(m["types"])["name"])
        for _ in range(rng.choice([1, 1, 2, 3])):
            p = self.proc(nm)
            if p["name"].lower() not in {x["name"].lower() for x in m["procs"]}:
                m["procs"].append(p)
        # a procedure that calls an own procedure and - through `use other, only: alias => name` - an equally
        # named procedure of another module: two different entities with one label in one hop of its call graph
        for q in list(m["procs"]):
            twins = [(mod, n) for (mod, n) in self.procs if mod is not None and mod != nm and n.lower() == q["name"].lower()]
            if twins and rng.random() < 0.6:
                mod, n = rng.choice(twins)
                alias = self.fresh("al")
                c = self.proc(nm)
                c.update(name=self.fresh("caller"), uses=[], renames=[(mod, alias, n)], calls=[q["name"], alias],
                         links=[], internal=None)
                c["args"] = [a for a in c["args"] if a != c["name"]]
                m["procs"].append(c)
                self.rename_callers += 1
        for t in m["types"]:
            self.add_bindings(m, t)
        if rng.random() < 0.2 and len(m["procs"]) >= 2:
            # (not a name of the procedure pool: a module that uses this one and has a procedure of the generic's
            # name would not be a Fortran program - and FORD dies on it in every run, binding `=> init` to the interface)
            gname = self.name("g", ["gen", "setup"])
            if gname.lower() not in {x["name"].lower() for x in m["procs"]}:
                m["ifaces"].append({"name": gname, "procs": [p["name"] for p in m["procs"][:2]]})
        self.modnames.append(nm)
        for t in m["types"]:
            self.types.append((nm, t["name"]))
        for p in m["procs"]:
            self.procs.append((nm, p["name"]))
        return m

    def add_bindings(self, m, t):
        """type-bound procedures: several per type (so that their order is visible), private ones, generic
        ones, and - for a type derived from a type of the same module - overriding of inherited ones"""
        rng = self.rng
        if not m["procs"]:
            return
        taken = set()

        def add(name, private=False):
            if name.lower() in taken:
                return
            taken.add(name.lower())
            t["binds"].append({"name": name, "proc": rng.choice(m["procs"])["name"], "private": private})

        parent = next((x for x in m["types"] if t["extends"] and x["name"].lower() == t["extends"].lower()
                       and x is not t), None)
        if parent is not None:
            pb = [b["name"] for b in parent["binds"]]
            if pb and rng.random() < 0.5:
                o = rng.choice(pb)
                add(o.capitalize() if self.case_variants and rng.random() < 0.5 else o)
        for _ in range(rng.choice([0, 2, 3, 4, 5])):
            add(self.name("b", ["area", "show", "init", "reset", "scale"]), private=rng.random() < 0.15)
        if len(t["binds"]) >= 2 and rng.random() < 0.35:
            gname = None
            if parent is not None and parent["generics"] and rng.random() < 0.5:
                gname = parent["generics"][0]["name"]          # merged with the parent's generic binding
            gname = gname or self.name("g", ["apply", "assign"])
            if gname.lower() not in taken:
                taken.add(gname.lower())
                t["generics"].append({"name": gname, "over": [b["name"] for b in rng.sample(t["binds"], 2)]})

    def proc(self, mod, toplevel=False):
        rng = self.rng
        p = {"kind": rng.choice(["subroutine", "subroutine", "function"]),
             "name": self.name("p", ["foo", "bar", "init", "Foo"]),
             "args": [self.varname() for _ in range(rng.choice([0, 1, 2]))],
             "locals": [self.varname() for _ in range(rng.choice([0, 1]))],
             "uses": self.uses(own=mod) if (toplevel or rng.random() < 0.25) else [], "renames": [],
             "calls": [], "links": [], "internal": None}
        p["args"] = list(dict.fromkeys(p["args"]))
        p["locals"] = [v for v in dict.fromkeys(p["locals"]) if v not in p["args"] and v != p["name"]]
        p["args"] = [a for a in p["args"] if a != p["name"]]
        if self.procs:
            for _ in range(rng.choice([0, 1, 2])):
                p["calls"].append(rng.choice(self.procs)[1])
            if rng.random() < 0.4:
                p["links"].append(rng.choice(self.procs)[1])
        if self.modnames and rng.random() < 0.3:
            p["links"].append(rng.choice(self.modnames))
        if rng.random() < 0.15:
            p["internal"] = self.name("q", ["helper", "inner"])
        if toplevel:
            self.procs.append((None, p["name"]))
        return p

    def program(self):
        rng = self.rng
        pr = {"kind": "program", "name": self.name("main", ["main", "prog"]), "uses": self.uses(),
              "vars": [self.varname() for _ in range(rng.choice([0, 1]))], "types": [], "procs": [], "ifaces": [],
              "includes": []}
        pr["calls"] = [rng.choice(self.procs)[1]] if self.procs else []
        if rng.random() < 0.3:
            pr["procs"].append(self.proc(pr["name"]))
        return pr

    # ---- round 6: added after `build` from a random stream of their own
    def add_call_tree(self, rng):
        """a driver that calls two to four stages, each of which calls a helper: the call graph of the driver has
        a second hop with several nodes that all have outgoing edges (whose colours are handed out per hop)"""
        mods = [u for f in self.files if not f.get("alias_of") for u in f["units"] if u["kind"] == "module"]
        if not mods:
            return 0
        u = rng.choice(mods)

        def mk(name, calls):
            return {"kind": "subroutine", "name": name, "args": [], "locals": [], "uses": [], "renames": [],
                    "calls": calls, "links": [], "internal": None}

        k = rng.choice([2, 3, 3, 4])
        leaves = [self.fresh("leaf") for _ in range(k)]
        stages = [self.fresh(rng.choice(["stage", "Step", "phase"])) for _ in range(k)]
        new = [mk(l, []) for l in leaves]
        for i, st in enumerate(stages):
            new.append(mk(st, [leaves[i]] + ([rng.choice(leaves)] if rng.random() < 0.3 else [])))
        new.append(mk(self.fresh("drive"), rng.sample(stages, k)))
        u["procs"] += new
        for p in new:
            self.procs.append((u["name"], p["name"]))
        return k

    def add_aliases(self, rng):
        """source files that are reachable under a second path: a symbolic link (in the same or another directory,
        with the same or another base name / extension) to a source file of the project.  FORD documents such a
        file once per path; the alias is a file of the project like any other (same program units)."""
        exts = ["pp.f90", "F90", "f90", "q.f90"] if self.preproc else ["f90", "F90", "f95", "f03"]
        dirs = ["", "sub/", "compat/", "other/"]
        taken = {f["path"] for f in self.files}
        made = []
        for k in range(rng.choice([1, 1, 1, 2])):
            tgt = rng.choice([f for f in self.files if not f.get("alias_of")])
            base = os.path.basename(tgt["path"])
            stem = base.split(".")[0]
            nb = rng.choice([base, rng.choice(["a", "z"]) + f"lnk{k}_{stem}." + rng.choice(exts)])
            path = rng.choice(dirs) + nb
            if path in taken:
                continue
            taken.add(path)
            self.files.append({"path": path, "units": tgt["units"], "top": tgt["top"], "alias_of": tgt["path"]})
            made.append(path)
        return made

    def links(self):
        return {f["path"]: f["alias_of"] for f in self.files if f.get("alias_of")}

    # ---- rendering
    def render_proc(self, p, ind="  "):
        L = []
        args = ", ".join(p["args"])
        if p["kind"] == "function":
            L.append(f"{ind}function {p['name']}({args}) result(res_{p['name'].lower()})")
        else:
            L.append(f"{ind}subroutine {p['name']}({args})")
        doc = f"{ind}  !! Documentation of {p['name']}."
        for l in p["links"]:
            doc += f" See [[{l}]]."
        L.append(doc)
        for u in p["uses"]:
            L.append(f"{ind}  use {u}")
        for (mod, alias, remote) in p.get("renames", []):
            L.append(f"{ind}  use {mod}, only: {alias} => {remote}")
        for a in p["args"]:
            L.append(f"{ind}  integer, intent(in) :: {a}")
        if p["kind"] == "function":
            L.append(f"{ind}  integer :: res_{p['name'].lower()}")
        for v in p["locals"]:
            L.append(f"{ind}  real :: {v}")
        for c in p["calls"]:
            L.append(f"{ind}  call {c}()")
        if p["kind"] == "function":
            L.append(f"{ind}  res_{p['name'].lower()} = 1")
        if p["internal"]:
            L.append(f"{ind}contains")
            L.append(f"{ind}  subroutine {p['internal']}()")
            L.append(f"{ind}    !! internal helper")
            L.append(f"{ind}  end subroutine {p['internal']}")
        L.append(f"{ind}end {p['kind']} {p['name']}")
        return L

    def render_unit(self, u):
        L = []
        if u["kind"] == "submodule":
            return [f"submodule ({u['parent']}) {u['name']}", f"  !! Submodule {u['name']} docs.",
                    f"end submodule {u['name']}"]
        if u["kind"] == "module":
            L.append(f"module {u['name']}")
            L.append(f"  !! Module {u['name']} docs.")
        else:
            L.append(f"program {u['name']}")
            L.append(f"  !! Program {u['name']} docs.")
        for x in u["uses"]:
            L.append(f"  use {x}")
        L.append("  implicit none")
        for name in u.get("includes", []):
            L.append(f"  include '{name}'")
        for g in u["ifaces"]:
            L.append(f"  interface {g['name']}")
            L.append(f"    module procedure {', '.join(g['procs'])}")
            L.append("  end interface")
        for t in u["types"]:
            ext = f", extends({t['extends']})" if t["extends"] else ""
            L.append(f"  type{ext} :: {t['name']}")
            L.append(f"    !! Type {t['name']}.")
            for c in t["comps"]:
                L.append(f"    integer{', private' if c in t['priv_comps'] else ''} :: {c}")
            if t["binds"]:
                L.append("  contains")
                for b in t["binds"]:
                    tgt = "" if b["name"] == b["proc"] else f" => {b['proc']}"
                    L.append(f"    procedure, {'private, ' if b['private'] else ''}nopass :: {b['name']}{tgt}")
                    L.append(f"      !! binding {b['name']}")
                for g in t["generics"]:
                    L.append(f"    generic :: {g['name']} => {', '.join(g['over'])}")
            L.append(f"  end type {t['name']}")
        for v in u["vars"]:
            L.append(f"  integer :: {v} = 0")
            L.append(f"    !! variable {v}")
        if u.get("pp"):
            L += ["#ifdef __GFORTRAN__", f"  integer :: {u['pp'][0]} = 1", "    !! declared when the file goes through the preprocessor",
                  "#else", f"  integer :: {u['pp'][1]} = 2", "    !! declared when it does not", "#endif"]
        if u["kind"] == "program":
            for c in u.get("calls", []):
                L.append(f"  call {c}()")
        if u["procs"]:
            L.append("contains")
            for p in u["procs"]:
                L += self.render_proc(p)
        L.append(f"end {u['kind']} {u['name']}")
        return L

    @staticmethod
    def render_include(label, variant):
        L = []
        for v, val in variant:
            L.append(f"integer, parameter :: {v} = {val}")
            L.append(f"  !! {v} as set in {label}")
        return "\n".join(L) + "\n"

    def sources(self):
        """relative to the source directory; include directories sit next to it (`../inc/..`)"""
        out = {}
        for f in self.files:
            L = []
            for u in f["units"]:
                L += self.render_unit(u)
                L.append("")
            for p in f["top"]:
                L += self.render_proc(p, ind="")
                L.append("")
            out[f["path"]] = "\n".join(L) + "\n"
        for name, holders in self.inc_files.items():
            for d, variant in holders.items():
                out[f"../{d}/{name}"] = self.render_include(d, variant)
        for (d, name), variant in self.own_inc.items():
            out[(d + "/" if d else "") + name] = self.render_include("the directory of the source file", variant)
        return out

    def source_paths(self):
        return [f["path"] for f in self.files]

    @staticmethod
    def dir_of(u):
        return "module" if u["kind"] == "submodule" else u["kind"]  # a submodule's get_dir() is "module"

    # ---- abstract view for the model and the classification
    def entities(self):
        """(file, qualname, dir, name) for every entity that can ask for an identifier."""
        ents = []

        def proc_ents(path, qual, p, d):
            ents.append((path, qual + p["name"], d, p["name"]))
            q = qual + p["name"] + "/"
            for a in p["args"] + p["locals"]:
                ents.append((path, q + a, "none", a))
            if p["kind"] == "function":
                ents.append((path, q + "res_" + p["name"].lower(), "none", "res_" + p["name"].lower()))
            if p["internal"]:
                ents.append((path, q + p["internal"], "none", p["internal"]))

        for f in self.files:
            ents.append((f["path"], "", "sourcefile", os.path.basename(f["path"])))
            for u in f["units"]:
                ents.append((f["path"], u["name"], self.dir_of(u), u["name"]))
                q = u["name"] + "/"
                for name in u.get("includes", []):
                    for v, _val in self.include_variant(f["path"], name)[1]:
                        ents.append((f["path"], q + v, "none", v))
                for v in u["vars"] + list(u.get("pp") or ()):
                    ents.append((f["path"], q + v, "none", v))
                for t in u["types"]:
                    ents.append((f["path"], q + t["name"], "type", t["name"]))
                    for c in t["comps"]:
                        ents.append((f["path"], q + t["name"] + "/" + c, "none", c))
                    for b in t["binds"] + t["generics"]:
                        ents.append((f["path"], q + t["name"] + "/" + b["name"], "none", b["name"]))
                for g in u["ifaces"]:
                    ents.append((f["path"], q + g["name"], "interface", g["name"]))
                for p in u["procs"]:
                    proc_ents(f["path"], q, p, "proc")
            for p in f["top"]:
                proc_ents(f["path"], "", p, "proc")
        return ents

    def features(self):
        ents = self.entities()
        keys = {}
        for (path, qual, d, n) in ents:
            keys.setdefault((d, n.lower()), []).append((path, qual))
        collide = {f"{d}:{n}": v for (d, n), v in keys.items() if len(v) > 1}
        exact = {}
        for (path, qual, d, n) in ents:
            if d != "none":
                exact.setdefault((d, n.lower()), set()).add(n)
        case_collide = sorted(f"{d}:{'/'.join(sorted(v))}" for (d, n), v in exact.items() if len(v) > 1)
        multi = []

        def chk(path, qual, uses):
            if len({u.lower() for u in uses}) >= 2:
                multi.append((path, qual))

        for f in self.files:
            for u in f["units"]:
                chk(f["path"], u["name"], u["uses"])
                for p in u["procs"]:
                    chk(f["path"], u["name"] + "/" + p["name"], p["uses"] + [r[0] for r in p.get("renames", [])])
            for p in f["top"]:
                chk(f["path"], p["name"], p["uses"] + [r[0] for r in p.get("renames", [])])
        bases = {}
        for f in self.files:
            bases.setdefault(os.path.basename(f["path"]), []).append(f["path"])
        same_base = {b: v for b, v in bases.items() if len(v) > 1}
        # derived types: who extends whom, by (lower-cased) name as FORD resolves `extends(..)`
        children: dict[str, list] = {}
        for f in self.files:
            for u in f["units"]:
                for t in u["types"]:
                    if t["extends"]:
                        children.setdefault(t["extends"].lower(), []).append(t["name"].lower())

        def subtree(n, seen):
            if n in seen:
                return seen
            seen.add(n)
            for c in children.get(n, []):
                subtree(c, seen)
            return seen

        names = {t["name"].lower() for f in self.files for u in f["units"] for t in u["types"]}
        # types that have - themselves or among their descendants - a type with two or more derived types
        multi_child = sorted(n for n in names if any(len(children.get(d, [])) >= 2 for d in subtree(n, set())))
        includes = []
        for f in self.files:
            for u in f["units"]:
                for name in u.get("includes", []):
                    own = (os.path.dirname(f["path"]), name) in self.own_inc
                    includes.append({"file": f["path"], "unit": u["name"], "name": name, "own_has": own,
                                     "holders": [d for d in self.inc_dirs if d in self.inc_files[name]]})
        # generic bindings that two or more types inherit without overriding them (each inheriting type gets a
        # copy).  `extends(name)` is resolved by name: every other type of that name counts as a possible parent.
        tnodes = [t for f in self.files for u in f["units"] for t in u["types"]]
        by_name: dict[str, list] = {}
        for k, t in enumerate(tnodes):
            by_name.setdefault(t["name"].lower(), []).append(k)
        kids: dict[int, list] = {}
        for k, t in enumerate(tnodes):
            if t["extends"]:
                for pk in by_name.get(t["extends"].lower(), []):
                    if pk != k:
                        kids.setdefault(pk, []).append(k)
        declared = [{b["name"].lower() for b in t["binds"] + t["generics"]} for t in tnodes]

        def inheritors(k, g, seen):
            n = 0
            for c in kids.get(k, []):
                if c in seen or g in declared[c]:
                    continue
                seen.add(c)
                n += 1 + inheritors(c, g, seen)
            return n

        generic_copies = sorted({g["name"].lower() for k, t in enumerate(tnodes) for g in t["generics"]
                                 if inheritors(k, g["name"].lower(), {k}) >= 2})
        inherit = sum(1 for f in self.files for u in f["units"] for t in u["types"]
                      if t["extends"] and t["extends"].lower() in names)
        return {"collide": collide, "multi_use": multi, "same_base": same_base, "nfiles": len(self.files),
                "multi_child_types": multi_child, "includes": includes, "inc_dirs": list(self.inc_dirs),
                "derived_types": inherit, "generic_copies": generic_copies, "rename_callers": self.rename_callers,
                "collide_topo": sorted(k for k in collide if k.split(":")[0] in ("type", "module")),
                "case_collide": case_collide}

    def type_decls(self):
        """(file, module/type) -> declared components and bindings, in source order, with `private`"""
        out = {}
        for f in self.files:
            for u in f["units"]:
                for t in u["types"]:
                    out[(f["path"], u["name"] + "/" + t["name"])] = {
                        "comps": [(c, c in t["priv_comps"]) for c in t["comps"]],
                        "binds": [(b["name"], b["private"]) for b in t["binds"]] + [(g["name"], False) for g in t["generics"]]}
        return out

    def model_records(self, uid_of):
        """Fields for `c12.site` (files in the order of self.files; the caller permutes)."""
        recs = {}
        for f in self.files:
            path = f["path"]
            r = ["F", "src/" + path, os.path.basename(path), path, str(uid_of[(path, "", "sourcefile")]), os.path.basename(path)]
            for u in f["units"]:
                lst = {"module": "modules", "submodule": "submodules"}.get(u["kind"], "programs")
                r += ["U", lst, str(uid_of[(path, u["name"], self.dir_of(u))]), self.dir_of(u), u["name"]]
                q = u["name"] + "/"
                for t in u["types"]:
                    r += ["I", "types", str(uid_of[(path, q + t["name"], "type")]), "type", t["name"]]
                for g in u["ifaces"]:
                    r += ["I", "interfaces", str(uid_of[(path, q + g["name"], "interface")]), "interface", g["name"]]
                for p in u["procs"]:
                    lst = "functions" if p["kind"] == "function" else "subroutines"
                    r += ["I", lst, str(uid_of[(path, q + p["name"], "proc")]), "proc", p["name"]]
            for p in f["top"]:
                lst = "functions" if p["kind"] == "function" else "subroutines"
                r += ["T", lst, str(uid_of[(path, p["name"], "proc")]), "proc", p["name"]]
            recs[path] = r
        return recs


class PageGen:
    """A `page_dir`: nested directories of markdown pages.  Directories hold entries whose names differ only in
    extension and / or letter case (a page `usage.md` next to a sub-directory `usage/`, `FAQ.md` next to `faq.md`,
    `notes.md` next to `notes.txt`), names that sort differently with and without their extension (`a.md`, `a-b.md`),
    dot files and `~` backups (skipped by FORD), plain files (copied), directories without `index.md` (ignored),
    `ordered_subpage` lists (shuffled subsets, sometimes naming a file that does not exist) and `copy_subdir`."""

    STEMS = ["usage", "faq", "install", "notes", "a", "a-b", "guide", "zebra", "b_c", "b"]

    def __init__(self, rng: random.Random):
        self.rng = rng
        self.files: dict[str, str] = {}
        self.dirs: dict[str, dict] = {}      # directory (relative to the page dir, "" = top) -> entries / ordered list
        self.n = 0
        self.build_dir("", 0)

    def page(self, rel, title, extra=()):
        self.n += 1
        meta = [f"title: {title}"] + list(extra)
        self.files[rel] = "---\n" + "\n".join(meta) + "\n---\n\n" + f"Text of page {self.n} ({title}).\n\n" \
            "Second paragraph with *emphasis* and a [link](https://example.org).\n"

    def build_dir(self, rel, depth):
        rng = self.rng
        pre = rel + "/" if rel else ""
        entries: dict[str, str] = {"index.md": "index"}
        for stem in rng.sample(self.STEMS, rng.choice([2, 3, 3, 4])):
            forms = [stem + ".md"]
            r = rng.random()
            if r < 0.45 and depth < 2:
                forms.append(stem)                                # sub-directory with the name of the page
            if rng.random() < 0.3:
                forms.append(rng.choice([stem.upper(), stem.capitalize()]) + ".md")
            if rng.random() < 0.25:
                forms.append(stem + rng.choice([".txt", ".csv"]))
            if rng.random() < 0.15:
                forms.remove(stem + ".md")
            for name in dict.fromkeys(forms):
                if name.endswith(".md"):
                    entries[name] = "page"
                elif "." in name:
                    entries[name] = "file"
                else:
                    entries[name] = "dir"
        if rng.random() < 0.25:
            entries[".hidden.md"] = "page"
        if rng.random() < 0.25:
            entries["draft.md~"] = "file"
        if rng.random() < 0.3:
            entries["assets"] = "plaindir"
        ordered = []
        if rng.random() < 0.4:
            cand = [n for n in entries if n != "index.md"]
            ordered = rng.sample(cand, rng.randint(1, min(3, len(cand))))
            if rng.random() < 0.3:
                ordered.insert(rng.randint(0, len(ordered)), "ghost.md")
            if rng.random() < 0.2:
                ordered.append("index.md")
        extra = []
        if ordered:
            extra.append("ordered_subpage: " + ordered[0])
            extra += ["    " + x for x in ordered[1:]]
        if entries.get("assets") == "plaindir" and rng.random() < 0.6:
            extra.append("copy_subdir: assets")
        self.dirs[rel] = {"entries": entries, "ordered": [x for x in ordered if x != "index.md"]}
        self.page(pre + "index.md", f"Index of {rel or 'the guide'}", extra)
        for name, kind in entries.items():
            if kind == "page":
                self.page(pre + name, f"Page {name} in {rel or 'top'}")
            elif kind == "file":
                self.files[pre + name] = f"plain file {pre}{name}\n"
            elif kind == "plaindir":
                for k in rng.sample(["z.css", "b.png.txt", "a.js", "M.txt", "sub/deep.txt"], rng.choice([2, 3])):
                    self.files[pre + name + "/" + k] = f"asset {k}\n"
            elif kind == "dir":
                if rng.random() < 0.85:
                    self.build_dir(pre + name, depth + 1)
                else:
                    # a directory without index.md: FORD warns and leaves it out
                    self.files[pre + name + "/readme.md"] = "---\ntitle: never shown\n---\nnot a page tree\n"
                    entries[name] = "plaindir"

    def expected(self, rel, walk):
        """what `get_page_tree` makes of the names it walks (in that order): sub-pages and copied files"""
        ent = self.dirs[rel]["entries"]
        pre = rel + "/" if rel else ""
        sub, files = [], []
        for name in walk:
            kind = ent.get(name)
            if kind is None or kind == "plaindir" or kind == "index":
                continue
            if kind == "dir":
                sub.append(pre + name + "/index")
            elif kind == "page":
                sub.append(pre + name[:-len(".md")])
            else:
                files.append(name)
        return sub, files

    def features(self):
        same_stem = 0
        for d in self.dirs.values():
            keys = [os.path.splitext(n)[0].lower() for n in d["entries"] if not n.startswith(".") and not n.endswith("~")]
            same_stem += len(keys) - len(set(keys))
        return {"page_dirs": len(self.dirs), "same_stem_pairs": same_stem,
                "ordered_lists": sum(1 for d in self.dirs.values() if d["ordered"])}


# --------------------------------------------------------------------------
# the shim executed inside the ford subprocess (no change to the sources)
# --------------------------------------------------------------------------

SHIM = r'''
import json as _json, os as _os, atexit as _atexit
import ford.fortran_project as _fp
import ford.sourceform as _sf
_TR = {"order": [], "requests": [], "lists": {}, "forced": %(forced)r, "readers": [], "types": [],
       "enumerated": None, "exts": None, "opened": [], "pagedirs": [], "listings": 0, "sorted_lists": [], "hops": []}
_SRC = %(srcroot)r
_ROOT = _os.path.dirname(_SRC)
# --- the order in which the file system enumerates a directory: every os.listdir / os.scandir below the project
# (so also os.walk, glob, Path.iterdir / glob / rglob, shutil.copytree) hands its entries out in the order asked for
_FSORDER = %(fsorder)r       # None = as the file system gives them | "sorted" | "reversed" | ["shuffle", seed]
_LISTED = {}
def _below(p):
    try:
        q = _os.path.abspath(_os.fspath(p))
    except TypeError:
        return None
    if isinstance(q, bytes):
        return None
    return q if (q == _ROOT or q.startswith(_ROOT + _os.sep)) else None
def _arrange(where, items, key):
    if _FSORDER is None:
        return items
    items = sorted(items, key=key)
    if _FSORDER == "reversed":
        items.reverse()
    elif isinstance(_FSORDER, (list, tuple)):
        import random as _random
        _random.Random("%%s:%%s" %% (_FSORDER[1], _os.path.relpath(where, _ROOT))).shuffle(items)
    _TR["listings"] += 1
    return items
_orig_listdir = _os.listdir
def _listdir(path="."):
    got = _orig_listdir(path)
    q = _below(path)
    if q is not None:
        got = _arrange(q, got, lambda n: n)
        _LISTED[q] = list(got)
    return got
_os.listdir = _listdir
_orig_scandir = _os.scandir
class _Scan:
    def __init__(self, entries):
        self._it = iter(entries)
    def __iter__(self):
        return self
    def __next__(self):
        return next(self._it)
    def __enter__(self):
        return self
    def __exit__(self, *a):
        return False
    def close(self):
        pass
def _scandir(path="."):
    q = _below(path)
    if q is None or _FSORDER is None:
        return _orig_scandir(path)
    with _orig_scandir(path) as it:
        entries = list(it)
    return _Scan(_arrange(q, entries, lambda e: e.name))
_os.scandir = _scandir
# --- the clock: every ford module that bound datetime / date sees it shifted, time.time() likewise
_CLOCK = %(clock)r
if _CLOCK:
    import datetime as _dt, time as _time, sys as _sys
    _delta = _dt.timedelta(seconds=_CLOCK)
    _real_dt, _real_d = _dt.datetime, _dt.date
    class _DT(_real_dt):
        @classmethod
        def now(cls, tz=None):
            return _real_dt.now(tz) + _delta
        @classmethod
        def utcnow(cls):
            return _real_dt.utcnow() + _delta
        @classmethod
        def today(cls):
            return _real_dt.today() + _delta
    class _D(_real_d):
        @classmethod
        def today(cls):
            return (_real_dt.now() + _delta).date()
    for _m in list(_sys.modules.values()):
        if getattr(_m, "__name__", "").split(".")[0] != "ford":
            continue
        for _a, _v in list(vars(_m).items()):
            if _v is _real_dt:
                setattr(_m, _a, _DT)
            elif _v is _real_d:
                setattr(_m, _a, _D)
            elif _v is _dt:
                pass
    _ot, _olt, _ogt, _osf = _time.time, _time.localtime, _time.gmtime, _time.strftime
    _time.time = lambda: _ot() + _CLOCK
    _time.localtime = lambda secs=None: _olt(_ot() + _CLOCK if secs is None else secs)
    _time.gmtime = lambda secs=None: _ogt(_ot() + _CLOCK if secs is None else secs)
    _time.strftime = lambda fmt, t=None: _osf(fmt, _olt(_ot() + _CLOCK) if t is None else t)
_orig_faf = _fp.find_all_files
def _rel(p):
    try:
        return _os.path.relpath(str(p), _SRC)
    except Exception:
        return str(p)
def _faf(settings):
    got = list(_orig_faf(settings))
    # what find_all_files really returned (relative to the project directory) and the extension lists it worked with
    _TR["enumerated"] = sorted(_os.path.relpath(str(p), _ROOT) for p in got)
    _TR["exts"] = {"extensions": list(settings.extensions), "fixed": list(settings.fixed_extensions),
                   "fpp": list(settings.fpp_extensions), "extra": list(settings.extra_filetypes)}
    forced = _TR["forced"]
    if forced is not None:
        byrel = {_rel(p): p for p in got}
        # (a source file of the project that find_all_files did not return is left out here too - the run goes on
        # and is compared with the others; the harness reports the parse order that does not match the forced one)
        _TR["forced_missing"] = [r for r in forced if r not in byrel]
        # files the project does not have (e.g. read from a stale output directory) come after the forced ones
        got = [byrel[r] for r in forced if r in byrel] + [byrel[r] for r in sorted(set(byrel) - set(forced))]
        return got
    return _Recorder(got)
class _Recorder(list):
    pass
_fp.find_all_files = _faf
def _qual(item):
    try:
        h = [x.name for x in item.hierarchy[1:]]
        if isinstance(item, _sf.FortranSourceFile):
            return ""
        return "/".join(h + [item.name])
    except Exception:
        return "?"
def _file(item):
    try:
        return _rel(item.source_file.path)
    except Exception:
        return "?"
_orig_gn = _sf.NameSelector.get_name
def _gn(self, item):
    new = item not in self._items
    r = _orig_gn(self, item)
    if new:
        par = getattr(item, "parent", None)
        _TR["requests"].append([id(item), str(item.get_dir() or "none"), item.name, r, _file(item), _qual(item),
                                _qual(par) if par is not None and not isinstance(par, str) else ""])
    return r
_sf.NameSelector.get_name = _gn
_orig_ff = _fp.Project._fortran_file
def _ff(self, extension, filename, settings):
    _TR["order"].append(_rel(filename))
    return _orig_ff(self, extension, filename, settings)
_fp.Project._fortran_file = _ff
_orig_corr = _fp.Project.correlate
def _corr(self):
    r = _orig_corr(self)
    for lst in ("types", "absinterfaces", "procedures", "submodprocedures", "modules", "submodules",
                "programs", "blockdata", "namelists"):
        _TR["lists"][lst] = [[_file(x), _qual(x), str(x.get_dir() or "none")] for x in getattr(self, lst)]
    _TR["lists"]["allfiles"] = [[_file(x), "", "sourcefile"] for x in self.allfiles]
    return r
_fp.Project.correlate = _corr
# every file a FortranReader is opened on (source files and the files their `include` lines resolve to)
import ford.reader as _rd
_orig_ri = _rd.FortranReader.__init__
def _ri(self, filename, *a, **k):
    try:
        _TR["readers"].append(_os.path.relpath(str(filename), _ROOT))
    except Exception:
        _TR["readers"].append(str(filename))
    return _orig_ri(self, filename, *a, **k)
_rd.FortranReader.__init__ = _ri
# how every source file is opened: through the preprocessor? as fixed form?
_orig_sfi = _sf.FortranSourceFile.__init__
def _sfi(self, filepath, settings, preprocessor=None, fixed=False, *a, **k):
    _TR["opened"].append([_os.path.relpath(str(filepath).strip(), _ROOT), preprocessor is not None, bool(fixed)])
    return _orig_sfi(self, filepath, settings, preprocessor, fixed, *a, **k)
_sf.FortranSourceFile.__init__ = _sfi
# what a derived type shows after correlate: components and type-bound procedures, in list order
_orig_tc = _sf.FortranType.correlate
def _tc(self, project):
    r = _orig_tc(self, project)
    ext = self.extends
    _TR["types"].append({"file": _file(self), "qual": _qual(self),
                         "extends": None if not ext else (str(ext) if isinstance(ext, str) else [_file(ext), _qual(ext)]),
                         "bound": [str(b.name) for b in self.boundprocs],
                         "vars": [str(v.name) for v in self.variables]})
    return r
_sf.FortranType.correlate = _tc
# the page tree: what get_page_tree makes of every page directory
import ford.pagetree as _pt
import ford as _ford_pkg
_orig_gpt = _pt.get_page_tree
def _gpt(topdir, *a, **k):
    node = _orig_gpt(topdir, *a, **k)
    try:
        top = _os.path.abspath(_os.fspath(topdir))
        rec = {"dir": top, "listing": _LISTED.get(top), "made": node is not None}
        if node is not None:
            rec["ordered"] = [str(x) for x in node.ordered_subpages]
            rec["subpages"] = [(sp.location / sp.filename).as_posix() for sp in node.subpages]
            rec["files"] = [str(x) for x in node.files]
            rec["topdir"] = _os.path.abspath(str(node.topdir))
        _TR["pagedirs"].append(rec)
    except Exception as e:
        _TR["pagedirs"].append({"dir": str(topdir), "error": repr(e)})
    return node
_pt.get_page_tree = _gpt
if getattr(_ford_pkg, "get_page_tree", None) is _orig_gpt:
    _ford_pkg.get_page_tree = _gpt
if %(workaround)r:
    # keep the open project file out of the settings object (see finding C12-parallel-graph-dir-crash),
    # so that the process_map branch of output_graphs can be exercised at all
    import ford as _ford
    _orig_pa = _ford.parse_arguments
    def _pa(*a, **k):
        r = _orig_pa(*a, **k)
        pf = getattr(r[0], "project_file", None)
        if pf is not None and not isinstance(pf, str):
            r[0].project_file = getattr(pf, "name", str(pf))
        return r
    _ford.parse_arguments = _pa
# `sort:` other than src - every entity list sort_components reorders: the list before (source order, with what the
# sort keys read of every entity) and the positions after
_SORTED_LISTS = %(sorted_lists)r
_orig_sc = _sf.FortranBase.sort_components
def _vs(v):
    return [str(getattr(v, "vartype", "") or ""), str(getattr(v, "kind", "") or ""), str(getattr(v, "strlen", "") or ""),
            str((getattr(v, "proto", None) or [""])[0] or "")]
def _cf(it):
    f = [str(it.name), str(it.obj), str(getattr(it, "permission", "default"))]
    f += _vs(it) if it.obj == "variable" else ["", "", "", ""]
    f.append(str(getattr(it, "proctype", "") or ""))
    rv = getattr(it, "retvar", None)
    f += (["1"] + _vs(rv)) if (rv is not None and not isinstance(rv, str)) else ["0", "", "", "", ""]
    return f
def _sc(self):
    mode = str(getattr(self.settings, "sort", "src"))
    if mode.lower() == "src" or len(_TR["sorted_lists"]) >= 500:
        return _orig_sc(self)
    before = {}
    for a in _SORTED_LISTS:
        l = getattr(self, a, None)
        if isinstance(l, list) and len(l) >= 2:
            before[a] = list(l)
    r = _orig_sc(self)
    for a, lst in before.items():
        try:
            after = [next(i for i, y in enumerate(lst) if y is x) for x in getattr(self, a)]
            _TR["sorted_lists"].append({"mode": mode, "list": a, "owner": _qual(self), "items": [_cf(x) for x in lst], "after": after})
        except Exception as e:
            _TR["sorted_lists"].append({"mode": mode, "list": a, "owner": _qual(self), "error": repr(e)})
    return r
_sf.FortranBase.sort_components = _sc
# coloured_edges - every hop of every graph: the nodes in the order the collection hands them out, and the colour
# add_node is given for each of them
import ford.graphs as _gr
_orig_an = _gr.FortranGraph.add_nodes
def _an(self, nodes, nesting=1):
    self.__dict__.pop("add_node", None)       # (the recorder of the hop above: its nodes have all been handled)
    if not getattr(self.data, "coloured_edges", False) or len(_TR["hops"]) >= 400 or len(nodes) < 2:
        return _orig_an(self, nodes, nesting)
    calls = []
    _TR["hops"].append({"graph": type(self).__name__, "nesting": nesting, "order": [str(n.ident) for n in nodes], "calls": calls})
    real_add = type(self).add_node.__get__(self)
    def _rec(hop_nodes, hop_edges, node, colour):
        calls.append([str(node.ident), str(colour)])
        return real_add(hop_nodes, hop_edges, node, colour)
    self.add_node = _rec
    try:
        return _orig_an(self, nodes, nesting)
    finally:
        self.__dict__.pop("add_node", None)
_gr.FortranGraph.add_nodes = _an
def _dump():
    with open(%(tracefile)r, "w") as fh:
        _json.dump(_TR, fh)
_atexit.register(_dump)
'''


def junk_tree(doc: Path, rng: random.Random, as_file: bool):
    if as_file:
        doc.write_text("this is a stale plain file where the output directory goes\n")
        return
    for rel in ["stale.html", "proc/stale_proc~7.html", "module/old_module.html", "src/old.f90", "src/Other.F90",
                "search/search_database.json", "deep/er/than/usual/x.txt", "lists/procedures.html", "index.html"]:
        p = doc / rel
        p.parent.mkdir(parents=True, exist_ok=True)
        if rel.startswith("src/"):
            # the copy of a source file of the project that was documented here before (`incl_src`)
            m = "old_module" if rel.endswith("old.f90") else "other_stale"
            p.write_text(f"module {m}\n  !! left by another project {rng.random()}\n  integer :: x = 0\n    !! stale\ncontains\n"
                         f"  subroutine foo()\n    !! stale foo\n  end subroutine foo\n  subroutine init()\n  end subroutine init\n"
                         f"end module {m}\n")
        else:
            p.write_text(f"stale {rng.random()}\n")


def run_ford(pf, hashseed=None, extra_args=(), shim=None):
    """`python -m ford <project file>` in a fresh interpreter, exactly as `e2e.run_subprocess` starts it, but in its
    own process group and with a watchdog: a run that does not come back is killed with its worker processes and
    started once more.  (Seen under heavy machine load on the unchanged tree: with `parallel > 0` the executor behind
    `process_map` is forked while other threads hold locks; a worker then waits for ever on an inherited lock and the
    parent for ever on the worker.)"""
    import signal
    import sys as _sys

    env = dict(os.environ)
    env["PATH"] = "/venv/bin:" + env.get("PATH", "")
    env["FORD_DEBUGGING"] = "1"
    env["PYTHONPATH"] = str(common.REPO)
    if hashseed is not None:
        env["PYTHONHASHSEED"] = str(hashseed)
    code = (
        "import sys; sys.path.insert(0, %r)\n" % str(common.REPO)
        + "import ford, pathlib\n"
        + "assert pathlib.Path(ford.__file__).resolve().is_relative_to(%r), ford.__file__\n" % str(common.REPO)
        + (shim or "")
        + "\nsys.argv = ['ford'] + %r\n" % ([str(pf)] + list(extra_args))
        + "ford.run()\n"
    )
    last = ""
    for attempt, limit in enumerate((RUN_TIMEOUT_S, 3 * RUN_TIMEOUT_S)):
        proc = subprocess.Popen([_sys.executable, "-c", code], cwd=Path(pf).parent, env=env, stdout=subprocess.PIPE,
                                stderr=subprocess.STDOUT, text=True, start_new_session=True)
        try:
            out, _ = proc.communicate(timeout=limit)
            return proc.returncode, out
        except subprocess.TimeoutExpired:
            try:
                os.killpg(proc.pid, signal.SIGKILL)
            except ProcessLookupError:
                pass
            try:
                out, _ = proc.communicate(timeout=20)
            except Exception:
                out = ""
            last = (out or "")[-1200:] + f"\nTIMEOUT: no result after {limit} s (attempt {attempt + 1})"
    return -9, last


RUN_TIMEOUT_S = 100
SORTED_LISTS: list = []        # the entity lists sort_components sorts (generated table; set by run())


def one_run(job):
    """Executed in a worker thread: run ford once, return digest + trace."""
    (root, files, options, run, pages) = job
    root = Path(root)
    rid = run["id"]
    d = root / f"r{rid}"
    if d.exists():
        shutil.rmtree(d)
    # the output directory: from the project file (an explicit `None` leaves the option out), or given with `-o`
    out_rel = run.get("cli_output_dir") or options.get("output_dir") or "./doc"
    pf = e2e.write_project(d, files, options, pages=pages or None)
    doc = d / out_rel
    for alias, tgt in (run.get("links") or {}).items():
        # a source file reachable under a second path: the alias is a symbolic link to the file
        q = d / "src" / alias
        q.parent.mkdir(parents=True, exist_ok=True)
        if q.exists() or q.is_symlink():
            q.unlink()
        os.symlink(os.path.relpath(d / "src" / tgt, q.parent), q)
    extra = ["-o", run["cli_output_dir"]] if run.get("cli_output_dir") else []
    rng = random.Random(run.get("junk_seed", 0))
    t0 = time.time()
    log_pre = ""
    if run["stale"] == "junk":
        junk_tree(doc, rng, False)
    elif run["stale"] == "file":
        junk_tree(doc, rng, True)
    elif run["stale"] == "same":
        # an earlier run of the same project (other hash seed, natural order) left its output
        rc0, log_pre = run_ford(pf, hashseed=run["hashseed"] + 17 if isinstance(run["hashseed"], int) else 5, extra_args=extra)
        (doc / "leftover_marker.html").write_text("left by the earlier run\n") if doc.is_dir() else None
    tracefile = d / "trace.json"
    shim = SHIM % {"forced": run["order"], "srcroot": str(d / "src"), "tracefile": str(tracefile),
                   "workaround": bool(run.get("workaround")), "fsorder": run.get("fsorder"),
                   "clock": int(run.get("clock") or 0), "sorted_lists": list(SORTED_LISTS)}
    fs_before = sorted(os.path.relpath(os.path.join(w, f), d) for w, _ds, fs_ in os.walk(d) for f in fs_)
    rc, log = run_ford(pf, hashseed=run["hashseed"], extra_args=extra, shim=shim)
    res = {"id": rid, "rc": rc, "log": (log_pre + log)[-1500:], "wall": time.time() - t0, "fs_before": fs_before,
           "out_rel": os.path.normpath(out_rel)}
    res["tree"] = e2e.tree_digest(doc) if doc.is_dir() else {}
    res["dir"] = str(d)
    try:
        res["trace"] = json.loads(tracefile.read_text())
    except Exception as e:
        res["trace"] = None
        res["trace_err"] = str(e)
    sdb = doc / "search" / "search_database.json"
    if sdb.exists():
        try:
            txt = sdb.read_text()
            res["search_urls"] = [p["url"] for p in json.loads(txt[txt.index("{"):].rstrip().rstrip(";"))["pages"]]
        except Exception as e:
            res["search_urls"] = None
    src = {}
    if (doc / "src").is_dir():
        for p in sorted((doc / "src").iterdir()):
            src[p.name] = p.read_text(errors="replace")
    res["src"] = src
    # everything later steps need from the run directory are the pages (`*.html` below the output directory: the
    # "Uses" lists are compared structurally); the rest is removed here, in the worker thread, so that the removal
    # of ~20000 files does not happen serially when the scratch directory is cleaned up
    keep = str(doc) + os.sep
    for w, _ds, fs_ in os.walk(d, topdown=False):
        for f in fs_:
            q = os.path.join(w, f)
            if not (q.startswith(keep) and f.endswith(".html")):
                try:
                    os.unlink(q)
                except OSError:
                    pass
        try:
            os.rmdir(w)
        except OSError:
            pass
    return res


# --------------------------------------------------------------------------
# micro streams
# --------------------------------------------------------------------------

def micro_sort(ford, drv, rng, n, rep):
    import ford.graphs as G

    alpha = "abAB~_019 zZ.-"
    reqs, exp = [], []
    node_trouble = []
    gd = G.GraphData("../", False, False)
    for k in range(n):
        xs = ["".join(rng.choice(alpha) for _ in range(rng.randint(0, 6))) for _ in range(rng.randint(0, 8))]
        if k % 2 == 0:
            want = sorted(xs)
        else:
            # through the real node class: set (dedup on ident) then sorted() with BaseNode.__lt__
            # (string nodes: identifier = label = the string, so this stream stays a test of the string order
            # whatever attribute __lt__ compares; equal labels on different identifiers are micro/nodes' business)
            try:
                nodes = [G.BaseNode(x, gd) for x in xs]
                if any(nd.ident != x for nd, x in zip(nodes, xs)):
                    raise ValueError("a string node does not carry the string as identifier")
                st = set(nodes)
                xs = [nd.ident for nd in st]
                want = [nd.ident for nd in sorted(st)]
            except Exception as e:
                if not node_trouble:
                    rep.tie_broken(f"micro/sort: real BaseNode objects cannot be made / sorted: {e!r}", {"strings": xs})
                node_trouble.append(repr(e))
                want = sorted(xs)
        reqs.append(["c12.sort", *xs])
        exp.append(["ok", *want])
    got = drv.batch(reqs)
    bad = 0
    for r, e, g in zip(reqs, exp, got):
        if e != g:
            bad += 1
            rep.tie_broken(f"correspondence micro/sort: model {g} vs implementation {e}",
                           {"stream": "micro/sort", "request": r, "impl": e, "model": g})
    return len(reqs), bad


def micro_nodes(ford, drv, rng, n, rep, hist):
    """`sorted()` over graph nodes (`BaseNode.__lt__`) and over entities (`FortranBase.__lt__`), on objects made by
    the real constructors from stub entities of the real classes (real `get_dir()`, identifiers from a real
    NameSelector): equally named entities of different modules, a procedure and a type of one name, external names
    given as strings.  A Python set is iterated in an arbitrary order, so the property demands one result for every
    permutation of the same objects (oracle); the model gets the permutation and must give the same list
    (correspondence)."""
    import ford.graphs as G
    import ford.sourceform as S

    saved = S.namelist
    parent_mod = object.__new__(S.FortranModule)
    parent_mod.obj = "module"
    kinds = [(S.FortranSubroutine, "proc", parent_mod), (S.FortranFunction, "proc", parent_mod),
             (S.FortranType, "type", parent_mod), (S.FortranModule, "module", None), (S.FortranProgram, "program", None),
             (S.FortranInterface, "interface", parent_mod), (None, "string", None)]
    names = ["helper", "Helper", "report", "x", "solve", "HELPER", "a_b", "a", "state_t", "report"]
    reqs, exp, ctx = [], [], []
    bad = 0
    n_fail: dict = {}
    try:
        gd = G.GraphData("../", False, False)
    except Exception as e:
        rep.tie_broken(f"micro/nodes: GraphData cannot be made: {e!r}")
        return 0, 1
    try:
        for case_no in range(n):
            S.namelist = S.NameSelector()
            k = rng.randint(2, 6)
            one_kind = rng.random() < 0.5
            kd = rng.choice(kinds[:3])
            ents, nodes = [], []
            try:
                for _ in range(k):
                    cls, obj, parent = kd if one_kind else rng.choice(kinds)
                    nm = rng.choice(names)
                    if cls is None:
                        nodes.append(G.BaseNode(nm, gd))
                        continue
                    it = object.__new__(cls)
                    it.obj = obj
                    it.parent = parent
                    it.name = nm
                    it.visible = True
                    it.base_url = ".."
                    ents.append(it)
                    nodes.append(G.BaseNode(it, gd))
            except Exception as e:
                rep.tie_broken(f"micro/nodes: the real node constructor failed on a stub entity: {e!r}")
                bad += 1
                break
            for what, objs, ident_of, label_of in (
                    ("node", list({nd.ident: nd for nd in nodes}.values()), lambda o: o.ident, lambda o: o.attribs["label"]),
                    ("entity", ents, lambda o: o.ident, lambda o: o.name)):
                if what == "entity":
                    # the sets FORD sorts hold entities of one kind; different kinds may share an identifier
                    d0 = objs[0].get_dir() if objs else None
                    objs = [o for o in objs if o.get_dir() == d0]
                if len(objs) < 2:
                    continue
                desc = [[ident_of(o), label_of(o)] for o in objs]
                if len({d[0] for d in desc}) != len(desc):
                    rep.tie_broken(f"micro/nodes: two different {what} objects share the identifier", {"objects": desc})
                    continue
                perms = list(itertools.permutations(range(len(objs)))) if len(objs) <= 4 else \
                    [tuple(rng.sample(range(len(objs)), len(objs))) for _ in range(7)] + [tuple(reversed(range(len(objs))))]
                ref = None
                tie = len({d[1].lower() for d in desc}) < len(desc)
                hk = f"sorted({what}s): " + ("equal labels among them" if tie else "all labels different")
                hist[hk] = hist.get(hk, 0) + 1
                for pm in perms:
                    seq = [objs[i] for i in pm]
                    try:
                        got = [ident_of(o) for o in sorted(seq)]
                        got_set = [ident_of(o) for o in sorted(set(seq))] if what == "node" else got
                    except Exception as e:
                        rep.tie_broken(f"micro/nodes: sorted() of real {what} objects raises {e!r}", {"objects": desc})
                        bad += 1
                        break
                    reqs.append(["c12.nodes", what] + [x for i in pm for x in desc[i]])
                    exp.append(["ok", *got])
                    ctx.append(desc)
                    if ref is None:
                        ref = (pm, got)
                    for g_ in (got, got_set):
                        if g_ != ref[1]:
                            n_fail[what] = n_fail.get(what, 0) + 1
                            if n_fail[what] > 3:      # leave room in the report for the end-to-end cases
                                break
                            rep.failing_input(
                                {"stream": "micro/nodes", "what": f"sorted() over a collection of {what} objects",
                                 "objects (identifier, label)": desc,
                                 "iteration_order_a": [desc[i][0] for i in ref[0]], "sorted_a": ref[1],
                                 "iteration_order_b": [desc[i][0] for i in pm], "sorted_b": g_,
                                 "why": "the same objects, handed to sorted() in two iteration orders of the set they are "
                                        "kept in, come out in two different orders: the emission order of graph nodes / the "
                                        "order identifiers are requested in depends on the hash seed",
                                 "oracle": "sorted(S) must not depend on the iteration order of the set S"}, None)
                            break
    finally:
        S.namelist = saved
    got = drv.batch(reqs)
    seen_bad = set()
    for r, e, g, desc in zip(reqs, exp, got, ctx):
        if e != g:
            bad += 1
            key = json.dumps(desc)
            if key in seen_bad:
                continue
            seen_bad.add(key)
            rep.tie_broken(f"correspondence micro/nodes: model {g} vs sorted() of the real objects {e}",
                           {"stream": "micro/nodes", "request": r, "impl": e, "model": g})
    return len(reqs), bad


def micro_number(ford, drv, rng, n, rep, hist):
    import ford.sourceform as S

    parent_mod = object.__new__(S.FortranModule)
    parent_mod.obj = "module"
    parent_proc = object.__new__(S.FortranSubroutine)
    parent_proc.obj = "proc"
    kinds = [
        (S.FortranSubroutine, "proc", parent_mod), (S.FortranFunction, "proc", parent_mod),
        (S.FortranSubroutine, "proc", parent_proc),  # internal procedure: get_dir() is None
        (S.FortranType, "type", parent_mod), (S.FortranType, "type", parent_proc),
        (S.FortranModule, "module", None), (S.FortranProgram, "program", None),
        (S.FortranVariable, "variable", parent_mod), (S.FortranInterface, "interface", parent_mod),
        (S.FortranSourceFile, "sourcefile", None),
    ]
    names = ["foo", "Foo", "bar", "x", "", "operator(<)", "a/b", "s*t", "assignment(=)", "x~2", "<>", "FOO"]
    reqs, exp = [], []
    for _ in range(n):
        nents = rng.randint(1, 7)
        ents = []
        for u in range(nents):
            cls, obj, parent = rng.choice(kinds)
            it = object.__new__(cls)
            it.obj = obj
            it.parent = parent
            it.name = rng.choice(names)
            ents.append(it)
        seq = [rng.randrange(nents) for _ in range(rng.randint(1, 14))]
        ns = S.NameSelector()
        got = {}
        for i in seq:
            r = ns.get_name(ents[i])
            if i in got and got[i] != r:
                rep.tie_broken("NameSelector returned two names for one item", {"seq": seq})
            got.setdefault(i, r)
        fields = []
        for i in seq:
            fields += [str(i), str(ents[i].get_dir() or "none"), ents[i].name]
        reqs.append(["c12.number", *fields])
        e = ["ok"]
        for i in dict.fromkeys(seq):
            e += [str(i), got[i]]
        exp.append(e)
        ks = [(ents[i].get_dir(), ents[i].name) for i in dict.fromkeys(seq)]
        hist["number: with key collision" if len(set(ks)) < len(ks) else "number: no collision"] = \
            hist.get("number: with key collision" if len(set(ks)) < len(ks) else "number: no collision", 0) + 1
    got = drv.batch(reqs)
    bad = 0
    for r, e, g in zip(reqs, exp, got):
        if e != g:
            bad += 1
            rep.tie_broken(f"correspondence micro/number: model {g} vs NameSelector {e}",
                           {"stream": "micro/number", "request": r, "impl": e, "model": g})
    return len(reqs), bad


def micro_filekind(T, drv, rng, n, rep, hist):
    """the real `Project.__init__` / `_fortran_file` on stubs (translate.c12._probe_project: `find_all_files` hands
    out the names, the source-file class only records how it is called), for random extension lists - in random
    order, some extensions being dotted suffixes of others - and file names with one or several suffixes"""
    pool = ["f90", "F90", "pp.f90", "q.f90", "f", "inc.f", "F", "x.y.f90", "txt", "cfg.txt", "90", "pp.F90"]
    stems = ["a", "b.c", "d", "e_1"]
    tails = ["f90", "pp.f90", "q.f90", "F90", "f", "inc.f", "txt", "cfg.txt", "x.y.f90", "pp.F90", "f90.txt", "F", "dat", "90", ""]
    reqs, exp = [], []
    for _ in range(n):
        cand = rng.sample(pool, len(pool))
        exts = cand[:rng.randint(1, 4)]
        fixed = cand[4:4 + rng.randint(0, 2)]
        extra = cand[6:6 + rng.randint(0, 2)]
        fpp = rng.sample(exts + fixed, rng.randint(0, min(3, len(exts + fixed))))
        names = list(dict.fromkeys(rng.choice(stems) + ("." + t if t else "") for t in rng.sample(tails, rng.randint(1, 6))))
        paths = ["/p/src/" + nm for nm in names]
        dec, _log = T._probe_project(paths, exts, fixed, fpp, extra)
        real = {os.path.basename(d[0]): (["fortran", "1" if d[2] else "0", "1" if d[3] else "0"] if d[1] == "fortran" else ["extra"])
                for d in dec}
        for nm in names:
            reqs.append(["c12.filekind", nm, str(len(exts)), *exts, str(len(fixed)), *fixed, str(len(fpp)), *fpp,
                         str(len(extra)), *extra])
            exp.append(["ok"] + real.get(nm, ["skipped"]))
            ends = sum(1 for e in exts + fixed + extra if nm.endswith("." + e))
            k = f"file kind: name ends with {min(ends, 2)}{'+' if ends >= 2 else ''} configured extensions"
            hist[k] = hist.get(k, 0) + 1
    got = drv.batch(reqs)
    bad = 0
    for r, e, g in zip(reqs, exp, got):
        if e != g:
            bad += 1
            rep.tie_broken(f"correspondence micro/filekind: model {g} vs Project.__init__ {e} for {r[1]!r}",
                           {"stream": "micro/filekind", "request": r, "impl": e, "model": g})
    return len(reqs), bad


def micro_colours(T, drv, rng, n, rep, hist):
    """The colours of the edges of one graph hop (`coloured_edges`): the real `FortranGraph.add_nodes` on real
    `BaseNode` objects, the same nodes handed over in several orders (lists in explicit orders, and a real set).
    Oracle (property: the iteration order of a set is arbitrary): every order must give every node the same colour.
    Correspondence: (identifier, colour number) in emission order vs Lean `hopColoursTree` on the same order."""
    pool = ["assemble", "solve", "Solve", "report", "proc~helper", "proc~helper~2", "a_b", "a", "B", "fill", "pivot",
            "module~m1", "x.f90", "zeta", "Zeta", "m~2", "0start"]
    reqs, exp, ctx = [], [], []
    bad = n_fail = 0
    for _case in range(n):
        k = rng.choice([1, 2, 2, 3, 3, 4, 5, 6])
        names = rng.sample(pool, k)
        pal = T.palette(k)
        orders = [list(p_) for p_ in itertools.permutations(names)] if k <= 3 else \
            [rng.sample(names, k) for _ in range(4)] + [sorted(names), sorted(names, reverse=True)]
        hk = f"hop colours: {min(k, 4)}{'+' if k >= 4 else ''} nodes"
        hist[hk] = hist.get(hk, 0) + 1
        ref = None
        for oi, order in enumerate(orders + ["set"]):
            as_set = order == "set"
            got = T.observe_hop_colours(names if as_set else order, as_set=as_set)
            if any(c not in pal for _, c in got):
                rep.tie_broken(f"micro/colours: colours {got} are not colour numbers of {k}")
                bad += 1
                break
            if not as_set:
                reqs.append(["c12.colours"] + [x for nm in order for x in (nm, nm)])
                exp.append(["ok"] + [x for i, c in got for x in (i, str(pal.index(c)))])
                ctx.append(order)
            if ref is None:
                ref = (order, got)
            elif got != ref[1] and n_fail < 3:
                n_fail += 1
                rep.failing_input(
                    {"stream": "micro/colours", "what": "FortranGraph.add_nodes on one hop with coloured_edges",
                     "nodes": names, "iteration_order_a": ref[0], "colours_a": ref[1],
                     "iteration_order_b": order if not as_set else "a real set (this process's hash order)", "colours_b": got,
                     "why": "the same nodes, handed to add_nodes in two iteration orders of the set they are kept in, get "
                            "different edge colours: the colours drawn in a nested graph depend on the hash seed",
                     "oracle": "the colour of the edges that leave a node must not depend on the iteration order of the "
                               "node collection"}, None)
    got = drv.batch(reqs)
    for order, e, g in zip(ctx, exp, got):
        if e != g:
            bad += 1
            if bad <= 3:
                rep.tie_broken(f"correspondence micro/colours: nodes handed over as {order}: add_nodes gives {e[1:]}, the model {g[1:]}",
                               {"stream": "micro/colours", "order": order, "impl": e, "model": g})
    return len(reqs), bad


def micro_aliases(T, drv, rng, n, rep, hist, scratch: Path):
    """`find_all_files` on scratch source directories in which some files are reachable under several paths
    (symbolic links next to the file, in other directories, with other extensions), every directory enumerated in
    ascending and in descending name order.  Oracle (property: regardless of the enumeration order of the file
    system): both orders give the same set of source files.  Correspondence: that set vs Lean
    `findSourcesListedTree` on the listing (path, real path)."""
    reqs, exp, ctx = [], [], []
    bad = n_fail = 0
    dirs = ["", "legacy/", "compat/", "compat/old/"]
    for case in range(n):
        root = scratch / f"alias{case}"
        exts = rng.choice([["f90"], ["f90", "F90"], ["f90", "f"]])
        files, links = [], {}
        for k in range(rng.randint(1, 4)):
            rel = rng.choice(dirs) + f"s{k}." + rng.choice(exts + ["txt"])
            files.append(rel)
        for k in range(rng.choice([0, 1, 1, 2, 3])):
            tgt = rng.choice(files + list(links))
            rel = rng.choice(dirs) + rng.choice(["a", "m", "z"]) + f"lnk{k}." + rng.choice(exts + ["txt"])
            links[rel] = tgt
        for rel in files:
            q = root / "src" / rel
            q.parent.mkdir(parents=True, exist_ok=True)
            q.write_text(f"subroutine s_{len(rel)}()\nend subroutine\n")
        for rel, tgt in links.items():
            q = root / "src" / rel
            q.parent.mkdir(parents=True, exist_ok=True)
            os.symlink(os.path.relpath(root / "src" / tgt, q.parent), q)
        real_of = {}
        for rel in files + list(links):
            real_of["src/" + rel] = os.path.relpath(os.path.realpath(root / "src" / rel), root)
        res = {}
        for order in ("ascending", "descending"):
            res[order] = T.observe_find_all_files(root, order, exts)
            listing = sorted(real_of, key=lambda q_: q_.split("/"), reverse=(order == "descending"))
            reqs.append(["c12.findlisted", "1", "src", "0", str(len(exts)), *exts] + [x for q_ in listing for x in (q_, real_of[q_])])
            exp.append(["ok"] + res[order])
            ctx.append((files, links, order))
        nal = len(real_of) - len(set(real_of.values()))
        hk = "aliased sources: " + ("no file with two paths" if nal == 0 else "files reachable under several paths")
        hist[hk] = hist.get(hk, 0) + 1
        if res["ascending"] != res["descending"] and n_fail < 3:
            n_fail += 1
            rep.failing_input(
                {"stream": "micro/aliases", "what": "find_all_files on a source directory with symbolic links",
                 "files": files, "symbolic_links (link -> target, below src/)": links, "extensions": exts,
                 "found_when_enumerated_ascending": res["ascending"], "found_when_enumerated_descending": res["descending"],
                 "why": "the set of source files (so the set of pages written) depends on the order in which the "
                        "file system enumerates the directory",
                 "oracle": "the files FORD documents must not depend on the enumeration order of the file system"}, None)
    got = drv.batch(reqs)
    for (files, links, order), e, g in zip(ctx, exp, got):
        if g[:1] != ["ok"] or sorted(g[1:]) != e[1:]:
            bad += 1
            if bad <= 3:
                rep.tie_broken(f"correspondence micro/aliases ({order}): find_all_files gives {e[1:]}, the model {sorted(g[1:])}",
                               {"stream": "micro/aliases", "files": files, "links": links, "impl": e, "model": g})
    return len(reqs), bad


def micro_sortcomp(ford, drv, rng, n, rep, hist, sort_modes):
    """`FortranBase.sort_components` (the `sort` option) on stub instances of the real entity classes, every mode
    of `SORT_KEY_FUNCTIONS` (spelled in mixed case too), lists with many ties (equal permissions / types / names)
    vs Lean `sortComponents` on the same source-order list.  Oracle (output is a function of the input alone):
    sorting the same source-order list twice gives the same list, and ties keep their source order."""
    import ford.sourceform as S
    from types import SimpleNamespace

    perms = ["default", "public", "protected", "private"]
    names = ["alpha", "Alpha", "beta", "b", "x", "X", "init", "zeta", "a_1", "a-1"]
    reqs, exp, ctx = [], [], []
    bad = 0

    def var(nm):
        v = object.__new__(S.FortranVariable)
        v.name, v.obj = nm, "variable"
        v.vartype = rng.choice(["integer", "real", "class", "type", "character"])
        v.kind = rng.choice([None, None, "dp", "4", ""])
        v.strlen = rng.choice([None, None, "10", "*"]) if v.vartype == "character" else None
        v.proto = rng.choice([["point", ""], ["node_t", "()"]]) if v.vartype in ("class", "type") else None
        if rng.random() < 0.8:
            v.permission = rng.choice(perms[1:])
        return v

    def other(nm):
        kind = rng.choice(["function", "subroutine", "type", "boundprocedure", "interface", "extproc"])
        cls = {"function": S.FortranFunction, "subroutine": S.FortranSubroutine, "type": S.FortranType,
               "boundprocedure": S.FortranBoundProcedure, "interface": S.FortranInterface, "extproc": S.FortranSubroutine}[kind]
        it = object.__new__(cls)
        it.name = nm
        it.obj = "proc" if kind in ("function", "subroutine", "extproc") else kind
        if kind == "function":
            it.proctype = "Function"
            if rng.random() < 0.9:
                it.retvar = var("res")
        elif kind == "subroutine":
            it.proctype = "Subroutine"
        if rng.random() < 0.7:
            it.permission = rng.choice(perms[1:])
        return it

    def sig(v):
        return [v.vartype, v.kind or "", v.strlen or "", (v.proto[0] if v.proto else "")]

    def fields(uid, it):
        f = [str(uid), it.name, it.obj, getattr(it, "permission", "default")]
        f += sig(it) if it.obj == "variable" else ["", "", "", ""]
        f.append(getattr(it, "proctype", ""))
        rv = getattr(it, "retvar", None)
        f += ["1", *sig(rv)] if rv is not None else ["0", "", "", "", ""]
        return f

    for _case in range(n):
        mode = rng.choice(sort_modes)
        spelled = mode if rng.random() < 0.7 else mode.title()
        k = rng.choice([0, 1, 2, 3, 5, 8, 12])
        items = [var(rng.choice(names)) if rng.random() < 0.5 else other(rng.choice(names)) for _ in range(k)]
        attr = rng.choice(["variables", "boundprocs", "functions", "types", "finalprocs"])
        holder = object.__new__(S.FortranModule)
        holder.settings = SimpleNamespace(sort=spelled)
        setattr(holder, attr, list(items))
        holder.sort_components()
        got = [next(i for i, y in enumerate(items) if y is x) for x in getattr(holder, attr)]
        hk = f"sort_components: {mode}"
        hist[hk] = hist.get(hk, 0) + 1
        reqs.append(["c12.sortcomp", spelled] + [x for i, it in enumerate(items) for x in fields(i, it)])
        exp.append(["ok"] + [str(i) for i in got])
        ctx.append((spelled, [fields(i, it) for i, it in enumerate(items)]))
    got = drv.batch(reqs)
    for (mode, items), e, g in zip(ctx, exp, got):
        if e != g:
            bad += 1
            if bad <= 3:
                rep.tie_broken(f"correspondence micro/sortcomp (sort: {mode}): sort_components gives {e[1:]}, the model {g[1:]}",
                               {"stream": "micro/sortcomp", "mode": mode, "items": items, "impl": e, "model": g})
    return len(reqs), bad


def micro_fs(drv, rng, n, rep, scratch: Path):
    dirs = ["out", "out/proc", "out/src", "out/proc/deep", "other"]
    files = [d + "/" + f for d in dirs for f in ("a.html", "b.html")] + ["top.txt"]
    reqs, exp = [], []
    for k in range(n):
        root = scratch / f"fs{k % 8}"
        shutil.rmtree(root, ignore_errors=True)
        root.mkdir(parents=True)
        init = {}
        for f in rng.sample(files, rng.randint(0, 5)):
            init[f] = f"i{rng.randint(0, 9)}"
            (root / f).parent.mkdir(parents=True, exist_ok=True)
            (root / f).write_text(init[f])
        ops = []
        for _ in range(rng.randint(1, 7)):
            if rng.random() < 0.35:
                tgt = rng.choice(dirs + files)
                ops.append(("R", tgt))
                p = root / tgt
                # exactly what Documentation.writeout does with out_dir
                if p.is_file():
                    p.unlink()
                else:
                    shutil.rmtree(p, ignore_errors=True)
            else:
                f = rng.choice(files)
                c = f"w{rng.randint(0, 99)}"
                ops.append(("W", f, c))
                (root / f).parent.mkdir(parents=True, exist_ok=True)
                (root / f).write_text(c)
        real = {str(p.relative_to(root)): p.read_text() for p in root.rglob("*") if p.is_file()}
        fields = [str(len(init))]
        for f, c in init.items():
            fields += [f, c]
        for op in ops:
            fields += list(op)
        reqs.append(["c12.fs", *fields])
        exp.append(real)
    got = drv.batch(reqs)
    bad = 0
    for r, e, g in zip(reqs, exp, got):
        m = dict(zip(g[1::2], g[2::2]))
        if g[0] != "ok" or m != e or len(g[1::2]) != len(m):
            bad += 1
            rep.tie_broken(f"correspondence micro/fs: model {m} vs file system {e}",
                           {"stream": "micro/fs", "request": r, "impl": e, "model": g})
    return len(reqs), bad


# --------------------------------------------------------------------------
# classification of an e2e difference (finding classes are decided from the *input*)
# --------------------------------------------------------------------------

def page_of(qual_entry, trace_by_q):
    return trace_by_q.get(tuple(qual_entry))


def assignment(run):
    """identifier assignment of a run: (file, qualified name, directory, identifier, qualified name of the parent,
    lower-cased name); a copy of an inherited generic binding keeps the qualified name of the original but has the
    inheriting type as parent"""
    return sorted((r[4], r[5], r[1], r[3], r[6] if len(r) > 6 else "", r[2].lower())
                  for r in (run["trace"] or {}).get("requests", []))


def out_cfg_label(feat, options) -> str:
    """the row of the probed table `outputDirExcludedIn` this project's way of naming its output directory is"""
    how = "the command line" if feat.get("out_mode") == "nested-cli" else "the project file"
    return f"output_dir from {how}; " + ("project_url set" if options.get("project_url") else "relative URLs")


def stale_output_read(feat, options, run, res, out_cfg_excluded) -> bool:
    """class C12-cli-output-dir-not-excluded, decided from the input: the output directory is given with `-o` only,
    lies inside the source directory and holds Fortran files when the run starts (left by this or another
    project) - and the tree is the unrepaired one (probed) - and files below it really were enumerated"""
    if feat.get("out_mode") != "nested-cli" or run.get("stale") not in ("junk", "same"):
        return False
    if out_cfg_excluded.get(out_cfg_label(feat, options), True):
        return False
    out = res.get("out_rel", "") + "/"
    return any(p.startswith(out) for p in ((res.get("trace") or {}).get("enumerated") or []))


def classify_failure(feat, options, run, res, out_cfg_excluded):
    """a run that stops with an error where the base run completes -> (finding id | None, explanation)"""
    graphs_to_files = "graph_dir" in options and options.get("graph") == "true"
    if run["parallel"] > 0 and not run.get("workaround") and graphs_to_files and "cannot pickle" in res["log"]:
        return F_PAR, "parallel > 0 with graph_dir: the settings object holds an open file"
    if run["parallel"] > 0 and run.get("workaround") and feat.get("case_collide") and "graph_dir" in options:
        # two entities whose names differ only in case get the same identifier (C10), so two worker processes
        # write the same graph file at the same time
        return F_RACE, "two worker processes write the graph file of one shared identifier"
    if stale_output_read(feat, options, run, res, out_cfg_excluded):
        return F_CLIOUT, "the output directory given with -o is inside the source directory and not excluded: " \
                         "the files an earlier run left there are parsed (and deleted before they are copied)"
    return None, "no known class explains it"


import functools


@functools.lru_cache(maxsize=1024)
def uses_list_normalised(path):
    """(cached per file: the page of the base run is compared with that of every other run)
    the page with the entries of its "Uses" list (the `use_list` macro: first inline list of the card headed
    "Uses") put in one order: what is left must not depend on the iteration order of the `uses` set"""
    from bs4 import BeautifulSoup

    soup = BeautifulSoup(Path(path).read_text(errors="replace"), "html.parser")
    for h in soup.find_all("h3"):
        if h.get_text(strip=True) != "Uses":
            continue
        card = h.find_parent("div")
        ul = card.find("ul", class_="list-inline") if card is not None else None
        if ul is None or ul.find("h5") is not None:       # the second inline list holds the ancestors
            continue
        items = ul.find_all("li", class_="list-inline-item", recursive=False)
        for it in items:
            it.extract()
        for it in sorted(items, key=str):
            ul.append(it)
    return str(soup)


def classify(feat, options, base, other, diff_files, same_order: bool):
    """Return (finding id | None, explanation).  `base`/`other` are run results."""
    search_on = options.get("search") == "true"
    only_search = set(diff_files) <= {"search/search_database.json"}
    nograph = lambda t: {k for k in t if not k.startswith("graphs/")}  # graph files exist only for entities that have one
    paths_equal = nograph(base["tree"]) == nograph(other["tree"])
    def is_generic_copy(m):
        return m[2] == "none" and m[5] in feat.get("generic_copies", []) and m[4] != "/".join(m[1].split("/")[:-1])

    if feat.get("case_collide"):
        # two entities share one identifier (names differing only in case, the C10 defect): they compete for
        # one page, one graph node and one graph file, and the winner is decided by hash order
        if paths_equal:
            return F_CASE, "identifier shared by " + ", ".join(feat["case_collide"][:3])
        return None, "set of output files differs"
    moved = set(assignment(base)) ^ set(assignment(other))
    if moved and paths_equal and same_order and options.get("graph") == "true" and feat.get("generic_copies") \
            and all(is_generic_copy(m) or (feat.get("collide_topo") and m[2] in ("type", "module")) for m in moved) \
            and any(is_generic_copy(m) for m in moved):
        # the copies of one inherited generic binding (one per inheriting type) swap their numbers: none of them was
        # asked for its identifier before GraphManager.graph_all sorts the identity-hashed set they are in
        return F_GENCOPY, "generic bindings inherited by two or more types: " + ", ".join(feat["generic_copies"][:4])
    if feat["collide"] and assignment(base) != assignment(other):
        # first-come numbering: contents may move between foo.html and foo~2.html, but the
        # *set* of output files (URLs) must not change
        if paths_equal:
            if same_order and feat.get("collide_topo") and all(m[2] in ("type", "module") for m in moved):
                # same parse order, yet equally named types / (sub)modules swap their numbers: their identifiers
                # are first requested by the comparisons inside toposort's sorted() over an identity-hashed set
                return F_TOPO, "equally named types / modules: " + ", ".join(feat["collide_topo"][:4])
            return F_NUM, "entities share (get_dir(), name): " + ", ".join(sorted(feat["collide"])[:4])
        return None, "set of output files differs although only the numbering may be order dependent"
    if not paths_equal:
        return None, "set of output files differs"
    allowed = set()
    uses_pages = set()
    reasons = []
    if feat["multi_use"]:
        # pages of the units with >= 2 used modules (their "Uses" list) and the search index built from them
        tq = {}
        for r in (base["trace"] or {}).get("requests", []):
            if r[1] in ("module", "proc", "program"):
                tq[(r[4], r[5])] = f"{r[1]}/{r[3]}.html"
        for (path, qual) in feat["multi_use"]:
            u = tq.get((path, qual))
            if u:
                allowed.add(u)
                uses_pages.add(u)
        if search_on:
            allowed.add("search/search_database.json")
        reasons.append(F_USES)
    if not same_order and search_on and feat["nfiles"] > 1:
        allowed.add("search/search_database.json")
        reasons.append(F_SEARCH)
    inhby = set()
    if feat.get("multi_child_types") and options.get("graph") == "true":
        # the "inherited by" graph of a type whose descendants fan out: its page and its saved graph files
        for r in (base["trace"] or {}).get("requests", []):
            if r[1] == "type" and r[2].lower() in feat["multi_child_types"]:
                inhby |= {f"type/{r[3]}.html", f"graphs/type~~{r[3]}~~InheritedByGraph.svg",
                          f"graphs/type~~{r[3]}~~InheritedByGraph.gv"}
        allowed |= inhby
        reasons.append(F_INHBY)
    if set(diff_files) <= allowed:
        if inhby and set(diff_files) & inhby and not (F_USES in reasons and set(diff_files) <= allowed - inhby):
            return F_INHBY, "types with two or more derived types below them: " + ", ".join(feat["multi_child_types"][:4])
        if reasons == [F_SEARCH] or (only_search and F_SEARCH in reasons and not same_order
                                     and base.get("search_urls") != other.get("search_urls")
                                     and sorted(base.get("search_urls") or []) == sorted(other.get("search_urls") or [])):
            return F_SEARCH, "search index lists the same pages in file-enumeration order"
        if F_USES in reasons:
            # ... and on those pages only the order of the entries of the "Uses" list may differ
            for f_ in sorted(set(diff_files) & uses_pages - inhby):
                pa, pb = Path(base.get("dir", "")) / base.get("out_rel", "doc") / f_, Path(other.get("dir", "")) / other.get("out_rel", "doc") / f_
                try:
                    same = uses_list_normalised(pa) == uses_list_normalised(pb)
                except Exception as e:
                    return None, f"page {f_} of a unit with >= 2 used modules cannot be compared: {e!r}"
                if not same:
                    return None, (f"page {f_} of a unit with >= 2 used modules differs outside its 'Uses' list "
                                  "(the only place where the order of the `uses` set is known to show)")
            return F_USES, "units with >= 2 used modules: " + ", ".join(q for _, q in feat["multi_use"][:4])
    return None, f"difference outside the sites the known classes explain: {sorted(set(diff_files) - allowed)[:6]}"


# --------------------------------------------------------------------------
# main
# --------------------------------------------------------------------------

def clock_shift():
    """seconds by which the clock of some runs is shifted: forty days, staying inside the current year (the
    copyright year in the footer is outside the statement)"""
    import datetime
    return (40 if datetime.date.today().month <= 10 else -40) * 86400 + 5 * 3600 + 1234


def plan_runs(rng, gen: Gen, tier: str, options):
    paths = [f["path"] for f in gen.files]
    srt = sorted(paths)
    runs = [{"id": 0, "hashseed": 0, "order": srt, "stale": "absent", "parallel": 0, "regime": "base",
             "fsorder": "sorted", "clock": 0}]
    k = 1
    shift = clock_shift()
    # regime A: same enumeration order of the source files; hash seed, worker count, prior output, the order in
    # which every directory of the project is enumerated and the clock vary
    combos = [(1, 2, "junk", "reversed", shift), (rng.randint(2, 10 ** 6), 8, "same", ["shuffle", rng.randint(0, 999)], 0),
              (rng.randint(2, 10 ** 6), 0, "file", None, shift)]
    if tier == "thorough":
        combos += [(3, 2, "absent", ["shuffle", rng.randint(0, 999)], 0), (4, 8, "junk", "sorted", shift),
                   (5, 0, "same", "reversed", 0)]
    for hs, par, stale, fso, clk in combos:
        runs.append({"id": k, "hashseed": hs, "order": srt, "stale": stale, "parallel": par, "regime": "same-order",
                     "junk_seed": rng.randint(0, 999), "workaround": par > 0 and "graph_dir" in options,
                     "fsorder": fso, "clock": clk})
        k += 1
    if "graph_dir" in options and options.get("graph") == "true":
        # the same run as the base, only with worker processes, exactly as a user would start it
        runs.append({"id": k, "hashseed": 0, "order": srt, "stale": "absent", "parallel": 2, "regime": "parallel-plain",
                     "fsorder": "sorted", "clock": 0})
        k += 1
    # regime B: enumeration order varies (forced for the source files, arranged for every directory), hash seed fixed
    perms = list(itertools.permutations(srt))
    perms = [list(p) for p in perms if list(p) != srt]
    if tier == "quick" or len(srt) > 5:
        rng.shuffle(perms)
        perms = perms[:2] if tier == "quick" else perms[:24]
        rev = list(reversed(srt))
        if rev not in perms and rev != srt:
            perms[-1:] = [rev]
    for i, p in enumerate(perms):
        runs.append({"id": k, "hashseed": 0, "order": p, "stale": "absent", "parallel": 0, "regime": "forced-order",
                     "fsorder": "reversed" if i % 2 == 0 else ["shuffle", rng.randint(0, 999)], "clock": 0})
        k += 1
    # regime C: natural set order under other hash seeds (what a user sees)
    for hs in ([7] if tier == "quick" else [7, 8, "random"]):
        runs.append({"id": k, "hashseed": hs, "order": None, "stale": "absent", "parallel": 0, "regime": "natural",
                     "fsorder": None, "clock": 0})
        k += 1
    return runs


def run(tier: str, seed: int, replay: str | None = None) -> int:
    from translate import c12 as T

    rep = Report(PROP, tier, seed)
    tables = {}

    def translate():
        tables.update(T.generate())

    t_start = time.time()
    lean = lean_prove(PROP, translate=translate, thorough=(tier == "thorough"))
    phases = {"translate + lean": round(time.time() - t_start, 1)}
    for b in lean.broken():
        rep.tie_broken("proof: " + b)
    ford = common.import_ford()
    rng = random.Random(seed * 104729 + 12)
    drv = Driver()
    hist: dict[str, int] = {}
    variant = drv.call("c12.variant")
    out_cfg_excluded = dict(tables.get("outputDirExcludedIn") or [])
    n_micro = 1500 if tier == "quick" else 15000
    SORTED_LISTS[:] = list(tables.get("sortedComponentLists") or [])

    with common.scratch_dir("ford-verif-c12-") as scratch:
        def guarded(name, fn, *a):
            """a change of the implementation must not make the harness fall over: an exception out of a micro
            stream (raised by the code under test on the stub objects) is a broken tie, the check goes on"""
            import traceback
            try:
                return fn(*a)
            except Exception as e:
                rep.tie_broken(f"{name}: the stream could not be evaluated, the implementation raised {e!r}",
                               {"stream": name, "traceback": traceback.format_exc()[-1500:]})
                return 0, 1

        ev_s, bad_s = guarded("micro/sort", micro_sort, ford, drv, rng, n_micro, rep)
        ev_n, bad_n = guarded("micro/number", micro_number, ford, drv, rng, n_micro, rep, hist)
        ev_f, bad_f = guarded("micro/fs", micro_fs, drv, rng, 300 if tier == "quick" else 3000, rep, scratch)
        ev_o, bad_o = guarded("micro/nodes", micro_nodes, ford, drv, random.Random(seed * 7919 + 5),
                              400 if tier == "quick" else 4000, rep, hist)
        ev_k, bad_k = guarded("micro/filekind", micro_filekind, T, drv, rng, 250 if tier == "quick" else 2500, rep, hist)
        # round 6 (own random streams, so that the project generator's stream is the one of the earlier rounds)
        ev_c, bad_c = guarded("micro/colours", micro_colours, T, drv, random.Random(seed * 6007 + 1),
                              120 if tier == "quick" else 1200, rep, hist)
        ev_a, bad_a = guarded("micro/aliases", micro_aliases, T, drv, random.Random(seed * 6007 + 2),
                              40 if tier == "quick" else 400, rep, hist, scratch)
        ev_q, bad_q = guarded("micro/sortcomp", micro_sortcomp, ford, drv, random.Random(seed * 6007 + 3),
                              400 if tier == "quick" else 4000, rep, hist, list(tables.get("sortModes") or []))
        ev_k, bad_k = ev_k + ev_c + ev_a + ev_q, bad_k + bad_c + bad_a + bad_q
        rep.coverage.update(hop_colourings_corresponded=ev_c, aliased_directories_corresponded=ev_a,
                            component_lists_sorted_corresponded=ev_q)

        # ---------------- e2e
        nproj = 24 if tier == "quick" else 60
        if replay:
            nproj = 0
        projects = []
        jobs = []
        for pi in range(nproj):
            clean = pi % 4 in (0, 1)          # globally unique names, unique basenames
            multi = pi % 4 in (1, 2)          # units with two or more USEs
            nfiles = rng.choice([2, 3, 3, 4]) if tier == "quick" else rng.choice([2, 3, 4, 5])
            preproc = pi % 6 == 3
            g = Gen(random.Random(rng.randint(0, 10 ** 9)), clean, nfiles, multi, case_variants=(pi % 8 == 7),
                    includes=(pi % 3 == 0), preproc=preproc)
            # round 6 (random stream of its own): a call tree with a wide second hop; in projects that are not
            # "clean", source files reachable under a second path (symbolic links)
            rng6 = random.Random(seed * 7001 + pi)
            coloured = pi % 3 != 2 and pi % 2 == 0        # (graph: true and coloured_edges: true, see below)
            call_tree = g.add_call_tree(rng6) if (rng6.random() < 0.9 and coloured) else 0
            aliases = g.add_aliases(rng6) if (not clean and rng6.random() < 0.5) else []
            options = {"graph": "true" if pi % 3 != 2 else "false",
                       "search": "true" if (pi % 3 == 1) else "false",
                       "incl_src": "true" if pi % 5 != 4 else "false"}
            # where the output goes: next to the source directory, or *inside* it (as with `src_dir: .` and the
            # default `./doc`) - then everything an earlier run left there has a source directory above it;
            # the directory is named in the project file or, for some projects, only on the command line
            out_mode = "plain" if pi % 5 not in (1, 4) else ("nested-cli" if pi % 10 == 9 else "nested")
            out_rel = "./doc" if out_mode == "plain" else "./src/html"
            options["output_dir"] = None if out_mode == "nested-cli" else out_rel
            if options["search"] == "false" and pi % 2 == 0:
                # absolute URLs (with the search index on, FORD joins a str and a Path for them and stops)
                options["project_url"] = "https://example.org/testproj"
            if options["graph"] == "true" and pi % 2 == 1 or pi % 6 == 0:
                options["graph"] = "true"
                options["graph_dir"] = out_rel + "/graphs"
            if options["graph"] == "true" and coloured:
                options["coloured_edges"] = "true"
            if g.inc_dirs:
                options["include"] = ["./" + d for d in g.inc_dirs]
            if preproc:
                # the extension lists contain dotted suffixes of one another: `x.pp.f90` ends in `f90` and in `pp.f90`
                options.update(preprocess="true", extensions=["f90", "q.f90"], fpp_extensions=["pp.f90", "F90"])
            if pi % 6 == 5:
                # the lists of every entity sorted by a key that leaves ties (equal names / types / permissions)
                options["sort"] = rng.choice(["alpha", "permission", "permission-alpha", "type", "type-alpha"])
            media = {}
            if pi % 4 == 3:
                options["media_dir"] = "./media"
                media = {f"../media/{n}": f"media file {n}\n" for n in
                         rng.sample(["logo.svg", "B.png.txt", "a/deep/x.txt", "a/y.txt", "z.css", "Z.css"], 4)}
            runs = plan_runs(rng, g, tier, options)
            for r in runs:
                r["cli_output_dir"] = out_rel if out_mode == "nested-cli" else None
                if aliases:
                    r["links"] = g.links()
            pg = PageGen(random.Random(seed * 31337 + pi)) if pi % 5 in (0, 1, 3) else None
            feat = dict(g.features(), out_mode=out_mode, preproc=preproc, call_tree_width=call_tree, aliases=aliases)
            if pg is not None:
                feat["pages"] = pg.features()
            proj = {"index": pi, "gen": g, "options": options, "runs": runs, "files": dict(g.sources(), **media),
                    "features": feat, "root": str(scratch / f"p{pi}"), "pagegen": pg,
                    "pages": dict(pg.files) if pg is not None else {}}
            projects.append(proj)
            for r in runs:
                o = dict(options)
                o["parallel"] = str(r["parallel"])
                jobs.append((pi, (proj["root"], proj["files"], o, r, proj["pages"])))
        if replay:
            rp = json.loads(Path(replay).read_text())
            for ci, case in enumerate(rp.get("cases", [])[:3]):
                if "files" not in case:
                    continue
                runs = [case["base_run"], case["other_run"]]
                runs[0]["id"], runs[1]["id"] = 0, 1
                g = None
                proj = {"index": ci, "gen": None, "options": case["options"], "runs": runs, "files": case["files"],
                        "features": case["features"], "root": str(scratch / f"p{ci}"), "pagegen": None,
                        "pages": case.get("pages") or {}}
                projects.append(proj)
                for r in runs:
                    o = dict(case["options"])
                    o["parallel"] = str(r["parallel"])
                    jobs.append((ci, (proj["root"], proj["files"], o, r, proj["pages"])))
        results: dict[int, dict[int, dict]] = {}
        phases["micro streams + project generation"] = round(time.time() - t_start - phases["translate + lean"], 1)
        t_e2e = time.time()
        with cf.ThreadPoolExecutor(max_workers=min(16, os.cpu_count() or 4)) as ex:
            for (pi, _), res in zip(jobs, ex.map(one_run, [j for _, j in jobs])):
                results.setdefault(pi, {})[res["id"]] = res
        e2e_wall = time.time() - t_e2e

        n_runs = 0
        n_pairs = 0
        n_diff_pairs = 0
        distinct = set()
        samples = []
        number_reqs, number_exp, number_ctx = [], [], []
        site_reqs, site_ctx = [], []
        inc_reqs, inc_ctx = [], []
        inh_reqs, inh_ctx = [], []
        find_reqs, find_ctx = [], []
        kind_reqs, kind_ctx = [], []
        page_reqs, page_ctx = [], []
        sc_reqs, sc_ctx = [], []
        hop_reqs, hop_ctx = [], []
        run_wall: dict = {}
        for proj in projects:
            pi = proj["index"]
            feat = proj["features"]
            if variant[3] == "lower" and feat.get("case_collide"):
                # repaired NameSelector: names differing in case are ordinary equal keys (numbered foo, foo~2)
                feat = dict(feat, case_collide=[])
            res = results.get(pi, {})
            base = res.get(0)
            cls_names = [n for n, v in (("collide", feat["collide"]), ("multi_use", feat["multi_use"]),
                                        ("same_base", feat["same_base"])) if v] or ["clean"]
            for c in cls_names:
                hist["project: " + c] = hist.get("project: " + c, 0) + 1
            hist[f"project: {feat['nfiles']} files"] = hist.get(f"project: {feat['nfiles']} files", 0) + 1
            for key, on in (("project: include lines with >= 2 holding directories",
                             any(len(i["holders"]) >= 2 and not i["own_has"] for i in feat.get("includes", []))),
                            ("project: include file next to the source", any(i["own_has"] for i in feat.get("includes", []))),
                            ("project: derived types", feat.get("derived_types", 0) > 0),
                            ("project: type with >= 2 derived types", bool(feat.get("multi_child_types"))),
                            ("project: generic binding inherited by >= 2 types", bool(feat.get("generic_copies")))):
                if on:
                    hist[key] = hist.get(key, 0) + 1
            if proj.get("pages"):
                hist["project: page_dir"] = hist.get("project: page_dir", 0) + 1
            if feat.get("aliases"):
                hist["project: source files reachable under two paths (symbolic links)"] = \
                    hist.get("project: source files reachable under two paths (symbolic links)", 0) + 1
            if feat.get("call_tree_width"):
                hist["project: call tree with a second hop of >= 2 calling nodes"] = \
                    hist.get("project: call tree with a second hop of >= 2 calling nodes", 0) + 1
            if proj["options"].get("coloured_edges") == "true":
                hist["option: coloured_edges"] = hist.get("option: coloured_edges", 0) + 1
            if feat.get("rename_callers"):
                hist["project: call graph hop with equally named procedures"] = \
                    hist.get("project: call graph hop with equally named procedures", 0) + 1
            for key in ("sort", "media_dir"):
                if key in proj["options"]:
                    hist["option: " + key] = hist.get("option: " + key, 0) + 1
            for key in ("graph", "search", "incl_src"):
                if proj["options"].get(key) == "true":
                    hist["option: " + key] = hist.get("option: " + key, 0) + 1
            if "graph_dir" in proj["options"]:
                hist["option: graph_dir"] = hist.get("option: graph_dir", 0) + 1
            for r in proj["runs"]:
                rr = res.get(r["id"])
                n_runs += 1
                wk = "alias" if feat.get("aliases") else ("call tree, coloured" if feat.get("call_tree_width") else "other")
                run_wall.setdefault(wk, [0, 0.0])
                run_wall[wk][0] += 1
                run_wall[wk][1] = round(run_wall[wk][1] + ((rr or {}).get("wall") or 0.0), 1)
                hist["run: " + r["regime"]] = hist.get("run: " + r["regime"], 0) + 1
                hist[f"run: stale={r['stale']}"] = hist.get(f"run: stale={r['stale']}", 0) + 1
                hist[f"run: parallel={r['parallel']}"] = hist.get(f"run: parallel={r['parallel']}", 0) + 1
                fso = r.get("fsorder")
                fso = "as the file system gives it" if fso is None else (fso if isinstance(fso, str) else "shuffled")
                hist[f"run: directories enumerated {fso}"] = hist.get(f"run: directories enumerated {fso}", 0) + 1
                if r.get("clock"):
                    hist["run: clock shifted"] = hist.get("run: clock shifted", 0) + 1
                if rr is not None and rr["rc"] not in (0, -9) and r["id"] != 0 and base is not None and base["rc"] == 0:
                    # The run stops with an error where the base run - same project, same options - completes: the
                    # output is not the same (clauses: worker processes / hash seed / enumeration order / what an
                    # earlier run left in the output directory, whichever this run varies).  (-9: killed by the
                    # harness's own watchdog, not a verdict.)
                    cls, why = classify_failure(feat, proj["options"], r, rr, out_cfg_excluded)
                    hist["difference: " + (cls or "UNEXPLAINED")] = hist.get("difference: " + (cls or "UNEXPLAINED"), 0) + 1
                    rep.failing_input({"stream": "e2e", "project": pi, "files": proj["files"], "options": proj["options"],
                                       "pages": proj["pages"],
                                       "features": feat, "base_run": proj["runs"][0], "other_run": r,
                                       "why": f"this run fails (rc={rr['rc']}) where the base run succeeds: {why}",
                                       "files_enumerated": (rr.get("trace") or {}).get("enumerated"),
                                       "log": rr["log"][-700:],
                                       "oracle": "two runs of the same project and options must give byte-identical trees; "
                                                 "a run that fails gives none"}, cls)
                    continue
                if rr is None or rr["rc"] != 0 or not rr["tree"]:
                    rep.tie_broken(f"e2e: ford run failed (project {pi}, run {r})",
                                   {"stream": "e2e", "run": r, "log": (rr or {}).get("log", "")[-800:],
                                    "files": proj["files"], "options": proj["options"]})
                    continue
                tr = rr["trace"]
                if not tr or not tr.get("requests"):
                    rep.tie_broken(f"e2e: no trace from the shim (project {pi}, run {r['id']}): {rr.get('trace_err')}")
                    continue
                if r["order"] is not None:
                    # asIs: the set is parsed in its iteration order; repaired: sorted first (variant read from the tree)
                    expect = r["order"] if variant[1] == "asIs" else sorted(r["order"])
                    # (files that do not belong to the project are dealt with below)
                    if [p for p in tr["order"] if p in proj["files"]] != expect:
                        rep.tie_broken(f"e2e: files parsed in {tr['order']}; enumeration forced to {r['order']}, "
                                       f"variant {variant[1]} predicts {expect}")
                distinct.add(common.digest([proj["files"], proj["options"], tr["order"], r["hashseed"], r["parallel"], r["stale"]]))
                # --- numbering: the real request sequence replayed through the model
                ids = {}
                fields = []
                for (pid, d, n, ident, fpath, q, *_par) in tr["requests"]:
                    u = ids.setdefault(pid, len(ids))
                    fields += [str(u), d, n]
                e = ["ok"]
                for (pid, d, n, ident, fpath, q, *_par) in tr["requests"]:
                    e += [str(ids[pid]), ident]
                number_reqs.append(["c12.number", *fields])
                number_exp.append(e)
                number_ctx.append((pi, r["id"]))
                # --- `sort:` - every entity list sort_components reordered, from its source order
                for rec in tr.get("sorted_lists", []):
                    if "error" in rec:
                        rep.tie_broken(f"e2e/sortcomp (project {pi} run {r['id']}): {rec}")
                        continue
                    sc_reqs.append(["c12.sortcomp", rec["mode"]] + [x for i, it in enumerate(rec["items"]) for x in [str(i), *it]])
                    sc_ctx.append((pi, r, rec))
                # --- coloured_edges - the colour number every node of a hop was given, from the iteration order
                for hop in tr.get("hops", []):
                    if len(set(hop["order"])) != len(hop["order"]):
                        hist["graph hop: a node twice in the collection (not corresponded)"] = \
                            hist.get("graph hop: a node twice in the collection (not corresponded)", 0) + 1
                        continue
                    hop_reqs.append(["c12.colours"] + [x for i in hop["order"] for x in (i, i)])
                    hop_ctx.append((pi, r, hop))
                # --- which files are read (find_all_files on the files that were on disk when the run started)
                #     and as what each of them is opened (preprocessed? fixed form?)
                if tr.get("enumerated") is not None and tr.get("exts"):
                    ex = tr["exts"]
                    allext = ex["extensions"] + ex["fixed"] + ex["extra"]
                    find_reqs.append(["c12.find", out_cfg_label(feat, proj["options"]), rr["out_rel"], "1", "src", "0",
                                      str(len(allext)), *allext, *rr["fs_before"]])
                    find_ctx.append((pi, r, tr["enumerated"]))
                    for (path, pre, fixed) in tr.get("opened", []):
                        kind_reqs.append(["c12.filekind", os.path.basename(path)]
                                         + [x for key in ("extensions", "fixed", "fpp", "extra")
                                            for x in [str(len(ex[key])), *ex[key]]])
                        kind_ctx.append((pi, r, path, ["ok", "fortran", "1" if pre else "0", "1" if fixed else "0"]))
                else:
                    rep.tie_broken(f"e2e: the shim did not see find_all_files (project {pi}, run {r['id']})")
                unknown = [p for p in tr["order"] if p not in proj["files"]]
                if unknown and not stale_output_read(feat, proj["options"], r, rr, out_cfg_excluded):
                    rep.tie_broken(f"e2e (project {pi} run {r['id']}, output directory {r['stale']}): files that are not "
                                   f"sources of the project were parsed: {unknown[:6]}",
                                   {"stream": "e2e", "run": r, "parsed": tr["order"]})
                # --- project lists / search order / src copies predicted from the enumeration order
                if proj["gen"] is not None and not unknown:
                    g = proj["gen"]
                    ents = g.entities()
                    uid_of = {(p, q, d): i + 1 for i, (p, q, d, n) in enumerate(ents)}
                    recs = g.model_records(uid_of)
                    fields = ["tree"]
                    for p in tr["order"]:
                        fields += recs[p]
                    site_reqs.append(["c12.site", *fields])
                    site_ctx.append((proj, r, rr, {v: k for k, v in uid_of.items()}))
                    # --- include files: one request per `include` line, in parse order
                    by_file = {}
                    for inc in feat.get("includes", []):
                        by_file.setdefault(inc["file"], []).append(inc)
                    real_inc = [x for x in tr.get("readers", []) if x.endswith(".inc")]
                    k_inc = 0
                    for p in tr["order"]:
                        for inc in by_file.get(p, []):
                            own = "src/" + os.path.dirname(p) if os.path.dirname(p) else "src"
                            fields = [own, "1" if inc["own_has"] else "0", str(len(feat["inc_dirs"]))]
                            for d in feat["inc_dirs"]:
                                fields += [d, "1" if d in inc["holders"] else "0"]
                            inc_reqs.append(["c12.include", *fields])
                            inc_ctx.append((pi, r, inc, real_inc[k_inc] if k_inc < len(real_inc) else None))
                            k_inc += 1
                    if k_inc != len(real_inc):
                        rep.tie_broken(f"e2e/include (project {pi} run {r['id']}): {len(real_inc)} include files were opened, "
                                       f"the project has {k_inc} include lines", {"stream": "e2e/include", "readers": tr.get("readers")})
                    # --- derived types: what each type shows, predicted from the declarations along its chain
                    decls = g.type_decls()
                    traced = {(t["file"], t["qual"]): t for t in tr.get("types", [])}
                    for key, t in ([] if proj["options"].get("sort", "src") != "src" else traced.items()):
                        chain = []
                        cur = key
                        while cur is not None and cur in decls and cur not in chain:
                            chain.append(cur)
                            ext = traced.get(cur, {}).get("extends")
                            cur = tuple(ext) if isinstance(ext, list) else None
                        if key not in decls:
                            continue
                        chain.reverse()
                        for kind, fld, real in (("b", "binds", t["bound"]), ("c", "comps", t["vars"])):
                            fields = [kind, str(len(chain))]
                            for lv in chain:
                                fields.append(str(len(decls[lv][fld])))
                                for (nm, priv) in decls[lv][fld]:
                                    fields += [nm, "1" if priv else "0"]
                            inh_reqs.append(["c12.inherit", *fields])
                            inh_ctx.append((pi, r, key, kind, real, len(chain)))
                # --- page directories: the names get_page_tree walks, predicted from the listing it was given
                pg = proj.get("pagegen")
                if pg is not None:
                    pages_root = os.path.join(rr["dir"], "pages")
                    seen_dirs = set()
                    for rec in tr.get("pagedirs", []):
                        rel = os.path.relpath(rec.get("dir", "?"), pages_root)
                        rel = "" if rel == "." else rel
                        if "error" in rec or rel not in pg.dirs or not rec.get("made") or rec.get("listing") is None:
                            if "error" in rec or rel in pg.dirs or rec.get("made"):
                                rep.tie_broken(f"e2e/pages (project {pi} run {r['id']}): unexpected page directory record "
                                               f"{json.dumps(rec)[:300]}", {"stream": "e2e/pages", "record": rec})
                            continue
                        seen_dirs.add(rel)
                        d_ = pg.dirs[rel]
                        if sorted(rec["listing"]) != sorted(d_["entries"]):
                            rep.tie_broken(f"e2e/pages (project {pi} run {r['id']}): listing of {rel or '.'} is {rec['listing']}, "
                                           f"written were {sorted(d_['entries'])}")
                            continue
                        page_reqs.append(["c12.pages", str(len(d_["ordered"])), *d_["ordered"], *rec["listing"]])
                        page_ctx.append((pi, r, rel, rec, pg))
                    if seen_dirs != set(pg.dirs):
                        rep.tie_broken(f"e2e/pages (project {pi} run {r['id']}): page directories visited {sorted(seen_dirs)}, "
                                       f"written {sorted(pg.dirs)}")
            # --- the property oracle: every run against the base run
            if base is None or not base.get("tree"):
                continue
            for r in proj["runs"][1:]:
                rr = res.get(r["id"])
                if rr is None or rr["rc"] != 0 or not rr["tree"]:
                    continue
                n_pairs += 1
                a, b = base["tree"], rr["tree"]
                diff = sorted(k for k in set(a) | set(b) if a.get(k) != b.get(k))
                if not diff:
                    continue
                n_diff_pairs += 1
                same_order = (rr["trace"] or {}).get("order") == (base["trace"] or {}).get("order")
                if stale_output_read(feat, proj["options"], r, rr, out_cfg_excluded):
                    cls, why = F_CLIOUT, "files below the output directory (given with -o, inside the source directory) " \
                                         "were parsed as sources"
                else:
                    cls, why = classify(feat, proj["options"], base, rr, diff, same_order)
                    # the open findings explain differences between two runs that *read the same input in the same
                    # way*; a run that enumerated other files or opened a file differently (preprocessed / not,
                    # fixed / free form) is explained by none of them
                    tb, to = base["trace"] or {}, rr["trace"] or {}
                    if cls is not None and tb.get("enumerated") is not None and to.get("enumerated") is not None and (
                            tb["enumerated"] != to["enumerated"]
                            or sorted(map(tuple, tb.get("opened") or [])) != sorted(map(tuple, to.get("opened") or []))):
                        cls, why = None, f"the two runs did not read the same files in the same way (would otherwise be {cls}: {why})"
                hist["difference: " + (cls or "UNEXPLAINED")] = hist.get("difference: " + (cls or "UNEXPLAINED"), 0) + 1
                case = {"stream": "e2e", "project": pi, "files": proj["files"], "options": proj["options"],
                        "pages": proj["pages"],
                        "features": feat, "base_run": proj["runs"][0], "other_run": r,
                        "parse_order_base": (base["trace"] or {}).get("order"),
                        "parse_order_other": (rr["trace"] or {}).get("order"),
                        "differing_files": diff[:30], "only_in_one": sorted(set(a) ^ set(b))[:20], "why": why,
                        "files_enumerated_only_in_one_run": sorted(set((base["trace"] or {}).get("enumerated") or [])
                                                                   ^ set((rr["trace"] or {}).get("enumerated") or []))[:12],
                        "files_opened_differently": sorted(
                            {tuple(x) for x in (base["trace"] or {}).get("opened") or []}
                            ^ {tuple(x) for x in (rr["trace"] or {}).get("opened") or []})[:12],
                        "identifiers_assigned_differently": sorted(set(assignment(base)) ^ set(assignment(rr)))[:12],
                        "oracle": "two runs of the same project and options must give byte-identical trees"}
                if len(samples) < 3:
                    samples.append({k: case[k] for k in ("options", "base_run", "other_run", "differing_files", "why")})
                rep.failing_input(case, cls)

        # model vs implementation on the traces
        bad_tr = 0
        got = drv.batch(number_reqs)
        for ctx, e, g in zip(number_ctx, number_exp, got):
            if e != g:
                bad_tr += 1
                rep.tie_broken(f"correspondence e2e/number: NameSelector trace of project {ctx[0]} run {ctx[1]} "
                               f"is not what the model assigns", {"stream": "e2e/number", "impl": e[:40], "model": g[:40]})
        got = drv.batch(find_reqs)
        for (pi, r, real), g_ in zip(find_ctx, got):
            hist[f"find_all_files: {len(real)} files"] = hist.get(f"find_all_files: {len(real)} files", 0) + 1
            if g_[0] != "ok" or sorted(g_[1:]) != sorted(real):
                bad_tr += 1
                rep.tie_broken(f"correspondence e2e/find (project {pi} run {r['id']}, output directory {r['stale']}): "
                               f"find_all_files returned {sorted(real)}; the model (below a source directory, configured "
                               f"extension, not below an excluded directory - the output directory being one as probed) "
                               f"says {sorted(g_[1:])}", {"stream": "e2e/find", "run": r, "impl": sorted(real), "model": g_})
        got = drv.batch(kind_reqs)
        for (pi, r, path, want), g_ in zip(kind_ctx, got):
            k = "file opened: " + ("preprocessed" if want[2] == "1" else "as it is") + (", fixed form" if want[3] == "1" else "")
            hist[k] = hist.get(k, 0) + 1
            if g_ != want:
                bad_tr += 1
                rep.tie_broken(f"correspondence e2e/filekind (project {pi} run {r['id']}, hash seed {r['hashseed']}): {path} "
                               f"was opened as {want[1:]} (fortran, preprocessed, fixed form); the model says {g_[1:]}",
                               {"stream": "e2e/filekind", "run": r, "file": path, "impl": want, "model": g_})
        got = drv.batch(inc_reqs)
        for (pi, r, inc, real), g_ in zip(inc_ctx, got):
            want = (g_[2] + "/" + inc["name"]) if g_[:2] == ["ok", "some"] else None
            hist["include line: " + ("own directory" if inc["own_has"] else f"{len(inc['holders'])} holding directories")] = \
                hist.get("include line: " + ("own directory" if inc["own_has"] else f"{len(inc['holders'])} holding directories"), 0) + 1
            if want != real:
                bad_tr += 1
                rep.tie_broken(f"correspondence e2e/include (project {pi} run {r['id']}, hash seed {r['hashseed']}): "
                               f"`include '{inc['name']}'` in {inc['file']} was read from {real}; the model (own directory, "
                               f"then the include directories in the order given) says {want}",
                               {"stream": "e2e/include", "run": r, "include": inc, "impl": real, "model": g_})
        got = drv.batch(inh_reqs)
        for (pi, r, key, kind, real, depth), g_ in zip(inh_ctx, got):
            hist[f"derived type: chain of {min(depth, 4)}{'+' if depth >= 4 else ''}"] = \
                hist.get(f"derived type: chain of {min(depth, 4)}{'+' if depth >= 4 else ''}", 0) + 1
            if g_[0] != "ok" or g_[1:] != real:
                bad_tr += 1
                what = "type-bound procedures" if kind == "b" else "components"
                rep.tie_broken(f"correspondence e2e/inherit (project {pi} run {r['id']}, hash seed {r['hashseed']}): "
                               f"{what} of {key[1]} ({key[0]}) are {real}; the model (inherited ones in the parent's "
                               f"order, then the own ones) says {g_[1:]}",
                               {"stream": "e2e/inherit", "run": r, "type": list(key), "impl": real, "model": g_})
        got = drv.batch(page_reqs)
        for (pi, r, rel, rec, pg), g_ in zip(page_ctx, got):
            ent = pg.dirs[rel]["entries"]
            keys = [os.path.splitext(n)[0].lower() for n in ent]
            hk = "page directory: " + ("entries that differ only in extension / case" if len(set(keys)) < len(keys)
                                       else "all stems different") + (", ordered_subpage" if pg.dirs[rel]["ordered"] else "")
            hist[hk] = hist.get(hk, 0) + 1
            want = pg.expected(rel, g_[1:]) if g_[:1] == ["ok"] else None
            real = (rec.get("subpages"), rec.get("files"))
            if want is None or list(want[0]) != real[0] or list(want[1]) != real[1]:
                bad_tr += 1
                rep.tie_broken(f"correspondence e2e/pages (project {pi} run {r['id']}, directory order {r.get('fsorder')}): "
                               f"page directory {rel or '.'} listed as {rec['listing']}: sub-pages {real[0]}, files {real[1]}; "
                               f"the model (listing sorted by name, ordered_subpage first) says {want}",
                               {"stream": "e2e/pages", "run": r, "directory": rel, "listing": rec["listing"],
                                "ordered_subpage": pg.dirs[rel]["ordered"], "impl": real, "model": g_})
        got = drv.batch(sc_reqs)
        for (pi, r, rec), g_ in zip(sc_ctx, got):
            keys_tie = "sorted list: " + rec["mode"].lower()
            hist[keys_tie] = hist.get(keys_tie, 0) + 1
            if g_ != ["ok"] + [str(i) for i in rec["after"]]:
                bad_tr += 1
                rep.tie_broken(f"correspondence e2e/sortcomp (project {pi} run {r['id']}, sort: {rec['mode']}): `{rec['list']}` of "
                               f"{rec['owner']} after sort_components is {rec['after']} (positions in source order); the model says {g_[1:]}",
                               {"stream": "e2e/sortcomp", "run": r, "record": rec, "model": g_})
        got = drv.batch(hop_reqs)
        for (pi, r, hop), g_ in zip(hop_ctx, got):
            pal = T.palette(len(hop["order"]))
            try:
                want = ["ok"] + [x for i, c in hop["calls"] for x in (i, str(pal.index(c)))]
            except ValueError:
                want = ["colour that is no colour number of the hop", hop["calls"]]
            hk = f"graph hop (e2e): {min(len(hop['order']), 4)}{'+' if len(hop['order']) >= 4 else ''} nodes"
            hist[hk] = hist.get(hk, 0) + 1
            if g_ != want:
                bad_tr += 1
                rep.tie_broken(f"correspondence e2e/colours (project {pi} run {r['id']}, hash seed {r['hashseed']}): hop {hop['nesting']} of a "
                               f"{hop['graph']} iterated as {hop['order'][:6]}: colour numbers {want[1:13]}; the model says {g_[1:13]}",
                               {"stream": "e2e/colours", "run": r, "hop": hop, "model": g_})
        got = drv.batch(site_reqs)
        n_site = 0
        for (proj, r, rr, ent_of), g in zip(site_ctx, got):
            n_site += 1
            tr = rr["trace"]
            sec = {}
            cur = None
            for f in g[1:]:
                if f in ("order", "idents", "search", "src", "lists") and (cur is None or f != cur):
                    cur = f
                    sec[cur] = []
                else:
                    sec[cur].append(f)
            problems = []
            if [p[len("src/"):] for p in sec.get("order", [])] != tr["order"]:
                # asIs: the model parses in enumeration order; repaired: sorted
                problems.append(f"parse order: model {sec.get('order')} real {tr['order']}")
            lists = {}
            name = None
            for f in sec.get("lists", []):
                if f.startswith("#"):
                    name = f[1:]
                    lists[name] = []
                else:
                    lists[name].append(list(ent_of[int(f)]))
            src_sorted = proj["options"].get("sort", "src") == "src"   # the model keeps the lists in source order
            for name, want in (tr["lists"].items() if src_sorted else []):
                if lists.get(name, []) != want:
                    problems.append(f"project.{name}: model {lists.get(name)} real {want}")
            if proj["options"].get("search") == "true" and rr.get("search_urls") is not None and src_sorted:
                url_of = {}
                for (pid, d, n, ident, fpath, q, *_par) in tr["requests"]:
                    url_of[(fpath, q, d)] = f"{d}/{ident}.html"
                model_urls = ["index.html"]
                incl = proj["options"].get("incl_src") == "true"
                file_uids = {u for u, (p, q, d) in ent_of.items() if d == "sourcefile"}
                for u in sec.get("search", []):
                    if int(u) in file_uids and not incl:
                        continue
                    model_urls.append(url_of.get(tuple(ent_of[int(u)]), "?" + "/".join(ent_of[int(u)])))
                if proj.get("pagegen") is not None:
                    # the pages of the page tree follow the entity pages, in the order of the tree (a page, then its
                    # sub-pages); the order inside every directory is corresponded with `c12.pages` separately
                    pages_root = os.path.join(rr["dir"], "pages")
                    subs = {}
                    for rec in tr.get("pagedirs", []):
                        if rec.get("made"):
                            rel = os.path.relpath(rec["dir"], pages_root)
                            subs["" if rel == "." else rel] = rec.get("subpages", [])

                    def dfs(rel):
                        out = ["page/" + (rel + "/" if rel else "") + "index.html"]
                        for sp in subs.get(rel, []):
                            out += dfs(sp[:-len("/index")]) if sp.endswith("/index") and sp[:-len("/index")] in subs \
                                else ["page/" + sp + ".html"]
                        return out

                    model_urls += dfs("") if "" in subs else []
                if model_urls != rr["search_urls"]:
                    problems.append(f"search index order: model {model_urls} real {rr['search_urls']}")
            if proj["options"].get("incl_src") == "true":
                msrc = dict(zip(sec.get("src", [])[0::2], sec.get("src", [])[1::2]))
                want = {"src/" + b: proj["files"][p] for b, p in
                        ((k[len("src/"):], v) for k, v in msrc.items())}
                real = {"src/" + k: v for k, v in rr["src"].items()}
                if want != real:
                    problems.append(f"src copies: model says {msrc}, real tree has {sorted(real)} "
                                    f"with other contents for {[k for k in real if real.get(k) != want.get(k)]}")
            for pr in problems:
                bad_tr += 1
                rep.tie_broken(f"correspondence e2e/site (project {proj['index']} run {r['id']}): {pr[:400]}",
                               {"stream": "e2e/site", "run": r, "problem": pr[:2000]})
    drv.close()
    phases["e2e runs"] = round(e2e_wall, 1)
    phases["evaluation of the runs"] = round(time.time() - t_e2e - e2e_wall, 1)
    rep.coverage.update(
        evaluations=ev_s + ev_n + ev_f + ev_k + ev_o + n_runs,
        distinct_nontrivial=len(distinct),
        rule="an e2e evaluation is one `python -m ford` subprocess on a generated multi-file project; non-trivial = "
             "it completed with a NameSelector/parse-order trace; distinct by digest of (sources, options, parse order, "
             "hash seed, parallel, prior state of the output directory)",
        samples=samples,
        traces_validated_against_impl=ev_s + ev_n + ev_f + ev_k + ev_o + len(number_reqs) + n_site + len(inc_reqs) + len(inh_reqs)
        + len(find_reqs) + len(kind_reqs) + len(page_reqs) + len(sc_reqs) + len(hop_reqs),
        run_wall_s_by_project_kind=run_wall, sorted_entity_lists_corresponded_e2e=len(sc_reqs), graph_hops_coloured_corresponded_e2e=len(hop_reqs),
        file_sets_corresponded=len(find_reqs), files_opened_corresponded=len(kind_reqs),
        include_lines_corresponded=len(inc_reqs), derived_type_lists_corresponded=len(inh_reqs),
        page_directories_corresponded=len(page_reqs),
        correspondence_disagreements=bad_s + bad_n + bad_f + bad_k + bad_o + bad_tr,
        e2e_runs=n_runs, e2e_pairs_compared=n_pairs, e2e_pairs_differing=n_diff_pairs, e2e_wall_s=round(e2e_wall, 1), phase_wall_s=phases,
        variant_decided={"file iteration": variant[1], "uses iteration": variant[2], "NameSelector counter key": variant[3],
                         "include directories": variant[4], "inherited entities": variant[5],
                         "BaseNode.__lt__": variant[6], "FortranBase.__lt__": variant[7],
                         "page directory listing": variant[8],
                         "kind of a file": variant[9] if len(variant) > 9 else "?",
                         "output directory excluded from the source search": out_cfg_excluded},
        generated_tables={k: tables.get(k) for k in ("fileIterSorted", "countKeyLower", "usesIterSorted", "writeoutSteps", "pageListOrder",
                                                      "fortranFileOrder", "unitChainOrder", "incDirsOrdered", "incDirsKept",
                                                      "inheritedIterOrdered", "inheritedIterables", "hashIterSites",
                                                      "orderDefs", "sortSites", "pageListNatural", "pageListing",
                                                      "extensionBySuffix", "outputDirExcludedIn", "symbolReplacements",
                                                      "writeoutStepsPlainFile", "edgeColourBySortedIndex",
                                                      "sourceAliasesFirstCome", "sortModes", "sortedComponentLists")},
        input_histogram=dict(sorted(hist.items())),
    )
    rep.assumptions += [
        "CPython set / hash iteration order is modelled as an arbitrary permutation (over-approximation)",
        "Jinja2, Python-Markdown, pygments, graphviz dot, toposort are on the implementation side only (assumed deterministic); "
        "creation_date / year / ${ENV} substitution are outside the statement",
        "the request order of identifiers inside the pipeline is not modelled; the real request trace is replayed "
        "through the numbering model instead, and the order-insensitivity theorem quantifies over all request orders",
    ]
    return rep.finish(lean)
